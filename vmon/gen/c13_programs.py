"""C13 workload: event-loop programs (JSON-able), their interpreter, generators and shrinker.

A program:
  {"loop": "select|zmq|asyncio|tornado|twisted|trio", "mode": "virtual|real", "nfd": k,
   "pre":  [op, ...],                      ops issued before run()
   "cbs":  {cbid: [[op, ...], ...]},       ops issued from inside callback cbid on its 1st, 2nd, ... invocation
   "nodrain": [cbid, ...],                 watch callbacks that do NOT read their descriptor
   "arrivals": [[t_us, fd, n], ...],       virtual mode: when bytes arrive on descriptors
   "order": "reg|rev",                     virtual mode: report order of simultaneously ready descriptors
   "exit_us": t,                           final ExitMainLoop alarm "X" (preceded by the no-op sentinel alarm "S")
   "more": [{"pre": [op, ...], "exit_us": t}, ...]}   further run() calls on the SAME loop object (loops that allow a
                                           restart): ops issued between the runs, then alarms "S<k>", "X<k>" and run()
   "shapes": {cbid: shape}, "rets": {cbid: r}   what kind of callable object is registered for cbid (loop_probe.SHAPES, default
                                           plain function) and what it returns (loop_probe.RETURN_VALUES, default None)
   "fd0": bool                             descriptor key 0 IS file descriptor 0 (real: our pipe dup2()ed over stdin; virtual: fd number 0)
   ("restart": true is the old spelling of "more": [{"pre": [], "exit_us": 5000}])
ops (times in microseconds):
  ["alarm", cbid, us] ["rm_alarm", cbid] ["watch", cbid, fd] ["rm_watch", cbid] ["idle", cbid] ["rm_idle", cbid]
  ["churn", "alarm"|"watch"|"idle", rounds]   rounds x (register a victim, remove it, remove it again, DROP the handle, let the
                                           loop tick via a 0-delay alarm): handle objects are freed and their addresses reused
  ["write", fd, n] ["busy", us] ["raise", "exit"|"boom"|<any kind of loop_probe.EXC_KINDS>]
Watch callbacks read one byte of their descriptor on entry unless listed in "nodrain".
"""

from __future__ import annotations

import itertools
import os
import select
import time

from vmon.monitors.loop_probe import EXC_KINDS, RETURN_VALUES, SHAPES, Boom, make_exception, FakeFile, FakePoller, FakeSelectorsModule, FakeTimeModule, PollerProxy, Probe, VirtualOS, WaitRecorder

LOOPS = ("select", "zmq", "asyncio", "tornado", "twisted", "trio")
VIRTUAL_LOOPS = ("select", "zmq")
RESTARTABLE = ("select", "zmq", "asyncio", "tornado", "trio")
DELAYS = [0, 1000, 2000, 5000, 20000, 60000]
DELAY_W = [5, 5, 4, 4, 2, 1]
GAP_US = 50000
TAIL_US = 60000  # quiet tail of every program: S at -30 ms, X at the end


# ------------------------------------------------------------------------------ environments


class RealEnv:
    mode = "real"

    def __init__(self, loopname, nfd, fd0=False):
        import urwid  # noqa: F401

        self.name = loopname
        self.pipes = [os.pipe() for _ in range(nfd)]
        self.saved_stdin = None
        if fd0 and nfd:
            # descriptor key 0 becomes file descriptor 0 (what urwid's raw display watches): the read end of our pipe
            # is dup2()ed over the process's stdin, which the harness does not use; restored in close()
            self.saved_stdin = os.dup(0)
            r, w = self.pipes[0]
            os.dup2(r, 0)
            os.close(r)
            self.pipes[0] = (0, w)
        for r, _w in self.pipes:
            os.set_blocking(r, False)
        self.files = {}
        self.cleanup = []
        self.rec = rec = WaitRecorder(None, self.readable)
        if loopname == "select":
            import selectors as real_selectors
            import types

            from urwid.event_loop import select_loop as m

            class RecordingSelector(real_selectors.DefaultSelector):
                def select(self, timeout=None):
                    ev = rec.note(None if timeout is None else max(0.0, float(timeout)))
                    try:
                        return super().select(timeout)
                    finally:
                        rec.done(ev)

            shim = types.SimpleNamespace(DefaultSelector=RecordingSelector, EVENT_READ=real_selectors.EVENT_READ, EVENT_WRITE=real_selectors.EVENT_WRITE)
            old = m.selectors
            m.selectors = shim
            self.cleanup.append(lambda: setattr(m, "selectors", old))
            self.loop = m.SelectEventLoop()
            self.clock = time.time
        elif loopname == "zmq":
            from urwid.event_loop.zmq_loop import ZMQEventLoop

            self.loop = ZMQEventLoop()
            self.loop._poller = PollerProxy(self.loop._poller, rec)
            self.clock = time.time
        elif loopname == "asyncio":
            import asyncio

            from urwid.event_loop.asyncio_loop import AsyncioEventLoop

            al = asyncio.new_event_loop()
            al._selector.select = rec.wrap(al._selector.select)
            self.loop = AsyncioEventLoop(loop=al)
            self.clock = al.time
            self.cleanup.append(al.close)
        elif loopname == "tornado":
            from tornado import ioloop

            from urwid.event_loop.tornado_loop import TornadoEventLoop

            io = ioloop.IOLoop(make_current=False)
            io.asyncio_loop._selector.select = rec.wrap(io.asyncio_loop._selector.select)
            self.loop = TornadoEventLoop(io)
            self.clock = io.time
            self.cleanup.append(lambda: io.close(all_fds=False))
        elif loopname == "twisted":
            import signal

            from twisted.internet.epollreactor import EPollReactor

            from urwid.event_loop.twisted_loop import TwistedEventLoop

            r = EPollReactor()
            r.doIteration = rec.wrap(r.doIteration, lambda t: None if t is None else (0.0 if t is False else max(0.0, float(t))))
            self.loop = TwistedEventLoop(reactor=r)
            self.clock = r.seconds

            def clean():
                for dc in r.getDelayedCalls():
                    dc.cancel()
                r.removeAll()
                r.waker.connectionLost(None)
                r._poller.close()
                signal.signal(signal.SIGINT, signal.default_int_handler)
                signal.signal(signal.SIGTERM, signal.SIG_DFL)

            self.cleanup.append(clean)
        elif loopname == "trio":
            from urwid.event_loop.trio_loop import TrioEventLoop

            import trio

            class WaitInstrument(trio.abc.Instrument):
                def before_io_wait(self, timeout):
                    self.ev = rec.note(float(timeout))

                def after_io_wait(self, timeout):
                    rec.done(self.ev)

            real_run = trio.run

            def run_with_instrument(fn, *a, instruments=(), **kw):
                # urwid's idle instrument comes first in the list, so its before_io_wait has run when ours records
                return real_run(fn, *a, instruments=[*instruments, WaitInstrument()], **kw)

            trio.run = run_with_instrument
            self.cleanup.append(lambda: setattr(trio, "run", real_run))
            self.loop = TrioEventLoop()
            self.clock = time.perf_counter  # trio's SystemClock = perf_counter() + constant offset
        else:
            raise ValueError(loopname)
        rec.clock = self.clock

    def fdobj(self, k):
        r = self.pipes[k][0]
        if self.name == "zmq":
            # ZMQEventLoop.watch_file(int) would os.fdopen() the descriptor and own it; hand it a file object we own
            if k not in self.files:
                self.files[k] = os.fdopen(r, "rb", buffering=0, closefd=False)
            return self.files[k]
        return r

    def readable(self):
        fds = [r for r, _w in self.pipes]
        if not fds:
            return []
        rd = select.select(fds, [], [], 0)[0]
        return [k for k, (r, _w) in enumerate(self.pipes) if r in rd]

    def write(self, k, n):
        os.write(self.pipes[k][1], b"x" * n)

    def read(self, k, n):
        try:
            return len(os.read(self.pipes[k][0], n))
        except BlockingIOError:
            return 0

    def busy(self, us):
        time.sleep(us / 1e6)

    def attach(self, probe):
        self.rec.sink = probe.h

    def close(self):
        for fn in self.cleanup:
            try:
                fn()
            except Exception:  # noqa: BLE001
                pass
        for f in self.files.values():
            f.close()
        for r, w in self.pipes:
            if r != 0:
                os.close(r)
            os.close(w)
        if self.saved_stdin is not None:
            os.dup2(self.saved_stdin, 0)
            os.close(self.saved_stdin)


class VirtualEnv:
    mode = "virtual"

    def __init__(self, loopname, nfd, arrivals, order, fd0=False):
        self.name = loopname
        self.vos = VirtualOS(nfd, arrivals, order, fd_base=0 if fd0 else 100)
        self.clock = self.vos.time
        self._restore = []
        if loopname == "select":
            from urwid.event_loop import select_loop as m

            self._restore.append((m, "time", m.time))
            self._restore.append((m, "selectors", m.selectors))
            m.time = FakeTimeModule(self.vos)
            m.selectors = FakeSelectorsModule(self.vos)
            self.loop = m.SelectEventLoop()
        elif loopname == "zmq":
            from urwid.event_loop import zmq_loop as m

            self._restore.append((m, "time", m.time))
            m.time = FakeTimeModule(self.vos)
            self.loop = m.ZMQEventLoop()
            self.loop._poller = FakePoller(self.vos)
            self.files = {}
        else:
            raise ValueError(loopname)

    def fdobj(self, k):
        if self.name == "zmq":
            if k not in self.files:
                self.files[k] = FakeFile(k, self.vos.fd_base)
            return self.files[k]
        return self.vos.fd_base + k

    def readable(self):
        return self.vos.readable()

    def write(self, k, n):
        self.vos.write(k, n)

    def read(self, k, n):
        return self.vos.read(k, n)

    def busy(self, us):
        self.vos.advance(us)

    def attach(self, probe):
        self.vos.log = probe.h

    def close(self):
        for m, name, old in self._restore:
            setattr(m, name, old)


# ------------------------------------------------------------------------------ interpreter


def more_segments(prog):
    if prog.get("more"):
        return prog["more"]
    if prog.get("restart"):
        return [{"pre": [], "exit_us": 5000}]
    return []



def execute(prog) -> list[dict]:
    """run one program against the real loop implementation; returns the recorded history"""
    from urwid.event_loop.abstract_loop import ExitMainLoop

    if prog["mode"] == "virtual":
        env = VirtualEnv(prog["loop"], prog["nfd"], prog.get("arrivals", ()), prog.get("order", "reg"), prog.get("fd0", False))
    else:
        env = RealEnv(prog["loop"], prog["nfd"], prog.get("fd0", False))
    try:
        probe = Probe(env.loop, env.clock, env.readable)
        env.attach(probe)
        cbs = prog.get("cbs", {})
        shapes = prog.get("shapes", {})
        rets = prog.get("rets", {})
        nodrain = set(prog.get("nodrain", ()))
        fd_of = {}  # watch cbid -> fd key
        active_watch = {}  # fd key -> cbid  (client-side knowledge, used only as a validity filter)
        registered = set()

        churn = {}  # chain alarm id -> (kind, rounds left, serial)

        def churn_round(kind, left, serial):
            vid = f"v{kind[0]}{serial}"
            registered.add(vid)
            if kind == "alarm":
                probe.alarm(vid, 0.05, body)
                rm = probe.remove_alarm
            elif kind == "watch":
                k = prog["nfd"] - 1
                if k < 0 or k in active_watch:
                    return
                fd_of[vid] = k
                probe.watch_file(vid, k, env.fdobj(k), body)
                rm = probe.remove_watch_file
            else:
                probe.enter_idle(vid, body)
                rm = probe.remove_enter_idle
            rm(vid)
            rm(vid)
            probe.drop(vid)
            if left > 1:
                cid = f"c{kind[0]}{serial + 1}"
                churn[cid] = (kind, left - 1, serial + 1)
                registered.add(cid)
                probe.alarm(cid, 0.0, body)
                probe.drop(cid)

        def body(p, cbid, n):
            if cbid in churn:
                churn_round(*churn.pop(cbid))
                return
            if cbid in fd_of and cbid not in nodrain:
                env.read(fd_of[cbid], 1)
            if cbid[0] == "X":
                raise ExitMainLoop
            if cbid[0] == "S":
                return
            lists = cbs.get(cbid, ())
            if n < len(lists):
                run_ops(lists[n], cbid, n)

        def run_ops(ops, cbid, n):
            for op in ops:
                k = op[0]
                if k == "alarm":
                    if op[1] in registered:
                        probe.rec(e="skip", op="alarm", id=op[1])
                        continue
                    registered.add(op[1])
                    probe.alarm(op[1], op[2] / 1e6, body, shapes.get(op[1], "function"), rets.get(op[1], "none"))
                elif k == "rm_alarm":
                    probe.remove_alarm(op[1])
                elif k == "watch":
                    if op[1] in registered or op[2] in active_watch or op[2] >= prog["nfd"]:
                        probe.rec(e="skip", op="watch_file", id=op[1])
                        continue
                    registered.add(op[1])
                    fd_of[op[1]] = op[2]
                    active_watch[op[2]] = op[1]
                    probe.watch_file(op[1], op[2], env.fdobj(op[2]), body, shapes.get(op[1], "function"), rets.get(op[1], "none"))
                elif k == "rm_watch":
                    fdk = fd_of.get(op[1])
                    if fdk is not None and active_watch.get(fdk, op[1]) != op[1]:
                        # stale handle while the same descriptor is watched again: in the loops whose handle is the
                        # descriptor itself this would remove the NEW watch; outside the input domain
                        probe.rec(e="skip", op="remove_watch_file", id=op[1])
                        continue
                    ret = probe.remove_watch_file(op[1])
                    if ret and active_watch.get(fd_of.get(op[1])) == op[1]:
                        del active_watch[fd_of[op[1]]]
                elif k == "idle":
                    if op[1] in registered:
                        probe.rec(e="skip", op="enter_idle", id=op[1])
                        continue
                    registered.add(op[1])
                    probe.enter_idle(op[1], body, shapes.get(op[1], "function"), rets.get(op[1], "none"))
                elif k == "rm_idle":
                    probe.remove_enter_idle(op[1])
                elif k == "write":
                    if op[1] < prog["nfd"]:
                        env.write(op[1], op[2])
                        probe.rec(e="fd", op="write", fd=op[1], n=op[2], t=env.clock())
                elif k == "churn":
                    churn_round(op[1], op[2], sum(1 for x in registered if x.startswith("v" + op[1][0])) * 1000)
                elif k == "busy":
                    env.busy(op[1])
                elif k == "raise":
                    if op[1] == "exit":
                        raise ExitMainLoop
                    kind = op[1]
                    if kind == "stopiteration" and shapes.get(cbid) == "builtin":
                        # the builtin shape is callable_iterator.__next__, which swallows a StopIteration raised by the
                        # function it calls and raises a fresh one: an artefact of the harness, not of the loop
                        kind = "boom"
                    raise make_exception(kind, f"{cbid}#{n}")
                else:
                    raise AssertionError(op)

        for op in prog.get("pre", ()):
            try:
                run_ops([op], None, 0)
            except Exception:  # noqa: BLE001  an API call raised outside the loop: recorded by the probe, judged by api-call
                pass
        # sentinel S: a no-op alarm half way between the last planned activity and the exit alarm, so that every
        # program ends with two long waits (S, then X)
        probe.alarm("S", (prog["exit_us"] - TAIL_US // 2) / 1e6, body)
        probe.alarm("X", prog["exit_us"] / 1e6, body)
        probe.run()
        for k, seg in enumerate(more_segments(prog), start=2):
            if prog["loop"] not in RESTARTABLE or probe.h[-1].get("outcome") not in ("return", "raise"):
                break
            for op in seg.get("pre", ()):
                try:
                    run_ops([op], None, 0)
                except Exception:  # noqa: BLE001
                    pass
            if seg["exit_us"] > TAIL_US // 2:
                probe.alarm(f"S{k}", (seg["exit_us"] - TAIL_US // 2) / 1e6, body)
            probe.alarm(f"X{k}", seg["exit_us"] / 1e6, body)
            probe.run()
        return probe.h
    finally:
        env.close()


# ------------------------------------------------------------------------------ random programs


def horizon_us(prog) -> int:
    """static upper bound of the loop-clock time at which the last planned callback can start"""
    bound = {None: 0}
    cbs = prog.get("cbs", {})

    def scan(ops, ctx):
        base = bound.get(ctx, 0)
        busy = 0
        for op in ops:
            if op[0] == "churn":
                busy += op[2] * 600  # the rounds are chained by 0-delay alarms; allow 0.6 ms per round
            elif op[0] == "busy":
                busy += op[1]
            elif op[0] == "alarm":
                b = base + busy + op[2]
                if bound.get(op[1], -1) < b:
                    bound[op[1]] = b
        return busy

    total_busy = 0
    for _round in range(4):
        total_busy = scan(prog.get("pre", ()), None)
        top = max(bound.values())
        for cbid, lists in cbs.items():
            if cbid not in bound or not cbid.startswith("a"):
                bound[cbid] = max(bound.get(cbid, 0), top)
            for ops in lists:
                total_busy += scan(ops, cbid)
    return max(bound.values()) + total_busy + sum(a[0] for a in prog.get("arrivals", ())[-1:])


def finish(prog):
    prog["exit_us"] = horizon_us(prog) + TAIL_US
    return prog


def gen_random(rng, loop, mode, zmq_fractional=False):
    nfd = rng.choice([0, 1, 1, 2, 2, 3])
    delays = list(DELAYS)
    weights = list(DELAY_W)
    if zmq_fractional:
        delays += [300, 700, 1500, 2600]
        weights += [3, 3, 3, 2]
    pre = []
    cbs = {}
    counter = itertools.count()
    alarms, watches, idles = [], [], []

    def new(prefix):
        return f"{prefix}{next(counter)}"

    def delay():
        return rng.choices(delays, weights)[0]

    for _ in range(rng.randint(1, 4)):
        a = new("a")
        alarms.append(a)
        pre.append(["alarm", a, delay()])
    for k in range(nfd):
        if rng.random() < 0.85:
            w = new("w")
            watches.append((w, k))
            pre.append(["watch", w, k])
    for _ in range(rng.choice([0, 1, 1, 2, 3])):
        i = new("i")
        idles.append(i)
        pre.append(["idle", i])
    rng.shuffle(pre)
    for k in range(nfd):
        if rng.random() < 0.6:
            pre.append(["write", k, rng.choice([1, 1, 2, 3])])
    # pre-run removals
    if rng.random() < 0.3 and alarms:
        a = rng.choice(alarms)
        pre.append(["rm_alarm", a])
        if rng.random() < 0.6:
            pre.append(["rm_alarm", a])
    if rng.random() < 0.1 and watches:
        pre.append(["rm_watch", rng.choice(watches)[0]])
    if rng.random() < 0.1 and idles:
        pre.append(["rm_idle", rng.choice(idles)])

    nodrain = []
    raises_left = rng.choice([0, 1, 1, 1, 2])
    raises_total = raises_left
    churned = []
    depth = {a: 0 for a in alarms}

    def gen_ops(cbid, kind, d):
        nonlocal raises_left
        ops = []
        for _ in range(rng.choice([1, 1, 2, 2, 3])):
            r = rng.random()
            if r < 0.16 and alarms:
                t = rng.choice(alarms)
                ops.append(["rm_alarm", t])
                if rng.random() < 0.3:
                    ops.append(["rm_alarm", t])
            elif r < 0.30 and watches:
                t = rng.choice(watches)
                ops.append(["rm_watch", t[0]])
                if rng.random() < 0.3:
                    w = new("w")
                    watches.append((w, t[1]))
                    ops.append(["watch", w, t[1]])
            elif r < 0.42 and idles:
                ops.append(["rm_idle", rng.choice(idles)])
            elif r < 0.50:
                ops.append([{"alarm": "rm_alarm", "watch": "rm_watch", "idle": "rm_idle"}[kind], cbid])
            elif r < 0.66 and d < 2:
                a = new("a")
                alarms.append(a)
                depth[a] = d + 1
                ops.append(["alarm", a, delay()])
                todo.append((a, "alarm", d + 1))
            elif r < 0.72:
                i = new("i")
                idles.append(i)
                ops.append(["idle", i])
                todo.append((i, "idle", d + 1))
            elif r < 0.84 and nfd:
                ops.append(["write", rng.randrange(nfd), rng.choice([1, 1, 2])])
            elif r < 0.90:
                ops.append(["busy", rng.choice([500, 1500, 3000])])
            elif r < 0.92 and not churned:
                churned.append(1)
                ops.append(["churn", rng.choice(["alarm", "alarm", "idle"]), rng.choice([20, 50, 100])])
            elif raises_left > 0:
                raises_left -= 1
                k = "boom"
                if raises_total == 1:
                    # the special exception classes are raised only in programs with a single raising callback, so that
                    # a loop swallowing one of them cannot show up under the signatures of the two-raisers rules
                    k = safe_kind(loop, kind, rng.choice(["exit", "boom", "boom", rng.choice(EXC_KINDS)]))
                else:
                    k = rng.choice(["exit", "boom", "boom"])
                ops.append(["raise", k])
                break
        return ops

    todo = [(a, "alarm", 0) for a in alarms] + [(w, "watch", 0) for w, _k in watches] + [(i, "idle", 0) for i in idles]
    rng.shuffle(todo)
    while todo:
        cbid, kind, d = todo.pop(0)
        if cbid in cbs:
            continue
        if rng.random() < 0.45:
            continue
        if kind == "alarm":
            cbs[cbid] = [gen_ops(cbid, kind, d)]
        else:
            lists = [[], [], []]
            lists[rng.choice([0, 0, 1, 2])] = gen_ops(cbid, kind, d)
            while lists and not lists[-1]:
                lists.pop()
            if kind == "watch" and rng.random() < 0.12:
                nodrain.append(cbid)
                lists = (lists + [[], []])[:2] + [[["rm_watch", cbid]]]
            if lists:
                cbs[cbid] = lists
    prog = {"loop": loop, "mode": mode, "nfd": nfd, "pre": pre, "cbs": cbs, "nodrain": nodrain}
    if mode == "virtual":
        arr = []
        for k in range(nfd):
            for _ in range(rng.choice([0, 1, 1, 2])):
                arr.append([rng.choices(delays, weights)[0] + rng.choice([0, 0, 1, 400]), k, rng.choice([1, 1, 2])])
        prog["arrivals"] = sorted(arr)
        prog["order"] = rng.choice(["reg", "rev"])
    prog["restart"] = False
    if nfd and rng.random() < 0.35:
        prog["fd0"] = True
    if rng.random() < 0.5:
        ids = [x for x in list(cbs) + alarms + [w for w, _k in watches] + idles]
        prog["shapes"] = {c: rng.choice(SHAPES) for c in ids if rng.random() < 0.6}
    if rng.random() < 0.35:
        ids = [x for x in list(cbs) + alarms + [w for w, _k in watches] + idles]
        prog["rets"] = {c: rng.choice(list(RETURN_VALUES)) for c in ids if rng.random() < 0.6}
    if loop in RESTARTABLE and rng.random() < 0.3:
        more = []
        for _seg in range(rng.choice([1, 1, 1, 2])):
            spre = []
            top = 0
            for _ in range(rng.randint(1, 3)):
                a = new("b")
                d = delay()
                top = max(top, d)
                spre.append(["alarm", a, d])
                if rng.random() < 0.35:
                    ops = []
                    r = rng.random()
                    if r < 0.3 and idles:
                        ops.append(["rm_idle", rng.choice(idles)])
                    elif r < 0.5 and nfd:
                        ops.append(["write", rng.randrange(nfd), 1])
                    elif r < 0.7:
                        ops.append(["busy", 1500])
                    elif r < 0.85:
                        ops.append(["raise", rng.choice(["exit", "boom"])])
                    else:
                        ops.append(["rm_alarm", a])
                    cbs[a] = [ops]
            if nfd and rng.random() < 0.5:
                k = rng.randrange(nfd)
                w = new("v")
                spre.append(["watch", w, k])  # skipped by the interpreter when that descriptor is still watched
                spre.append(["write", k, rng.choice([1, 2])])
            if rng.random() < 0.4:
                i = new("j")
                idles.append(i)
                spre.append(["idle", i])
            if rng.random() < 0.2 and idles:
                spre.append(["rm_idle", rng.choice(idles)])
            rng.shuffle(spre)
            more.append({"pre": spre, "exit_us": top + 3000 + TAIL_US})
        prog["more"] = more
    return finish(prog)


# ------------------------------------------------------------------------------ directed programs


def safe_kind(loop, cbkind, kind):
    """exception kinds that are kept out of the judged domain (see ASSUMES): everything but Boom/exit from a trio idle
    callback (trio swallows every exception raised inside its Instrument: one known finding, not one per class) and
    StopIteration from a trio alarm/watch callback (those run inside coroutines, where PEP 479 turns it into RuntimeError)"""
    if kind in ("exit", "boom"):
        return kind
    if loop == "trio" and (cbkind == "idle" or kind == "stopiteration"):
        return "boom"
    return kind



def directed(loop, mode):
    """small hand-shaped programs for the situations named in the property (same-poll siblings, raising
    from every callback kind, removal before run(), overdue alarms, registrations from idle callbacks)"""
    out = []

    def P(nfd, pre, cbs, restart=False, nodrain=()):
        prog = {"loop": loop, "mode": mode, "nfd": nfd, "pre": pre, "cbs": cbs, "nodrain": list(nodrain), "restart": restart and loop in RESTARTABLE}
        if mode == "virtual":
            prog["arrivals"] = []
            prog["order"] = "reg"
        out.append(finish(prog))

    for d in (0, 1000):
        for k1, k2 in (("boom", "boom"), ("exit", "boom"), ("boom", "exit"), ("exit", "exit")):
            P(0, [["alarm", "a0", d], ["alarm", "a1", d]], {"a0": [[["raise", k1]]], "a1": [[["raise", k2]]]}, restart=True)
            P(1, [["alarm", "a0", d], ["watch", "w0", 0], ["write", 0, 1]], {"a0": [[["raise", k1]]], "w0": [[["raise", k2]]]})
            P(2, [["watch", "w0", 0], ["watch", "w1", 1], ["write", 0, 1], ["write", 1, 1]], {"w0": [[["raise", k1]]], "w1": [[["raise", k2]]]})
    for kind in ("boom", "exit"):
        for n in (0, 1):
            lists = [[]] * n + [[["raise", kind]]]
            P(0, [["idle", "i0"], ["alarm", "a0", 0], ["alarm", "a1", 2000]], {"i0": lists}, restart=True)
            P(1, [["idle", "i0"], ["idle", "i1"], ["watch", "w0", 0], ["write", 0, 1], ["alarm", "a1", 2000]], {"i1": lists})
        P(0, [["alarm", "a0", 1000]], {"a0": [[["raise", kind]]]}, restart=True)
        P(1, [["watch", "w0", 0], ["write", 0, 2]], {"w0": [[], [["raise", kind]]]}, restart=True)
    for ops in ([["rm_idle", "i0"]], [["rm_idle", "i1"]], [["idle", "i2"]], [["rm_idle", "i0"], ["idle", "i2"]], [["rm_idle", "i1"], ["rm_idle", "i1"]]):
        P(0, [["idle", "i0"], ["idle", "i1"], ["alarm", "a0", 0], ["alarm", "a1", 2000]], {"i0": [ops]})
        P(0, [["idle", "i0"], ["idle", "i1"], ["alarm", "a0", 0], ["alarm", "a1", 2000]], {"i0": [[], ops]})
    # five idle callbacks fill a small dict; removing one and adding one from inside the pass keeps the size
    # (no RuntimeError) but makes CPython re-pack the table under the running iterator
    P(0, [["idle", f"i{k}"] for k in range(5)] + [["alarm", "a0", 0], ["alarm", "a1", 2000]], {"i0": [[["rm_idle", "i0"], ["idle", "i5"]]]})
    P(0, [["idle", f"i{k}"] for k in range(5)] + [["alarm", "a0", 0], ["alarm", "a1", 2000]], {"i0": [[], [["rm_idle", "i0"], ["idle", "i5"]]]})
    for kind in ("boom", "exit"):
        # an idle callback raises; a callback that runs later raises something else
        for lists in ([[["raise", kind]]], [[], [["raise", kind]]]):
            P(0, [["idle", "i0"], ["alarm", "a0", 0], ["alarm", "a1", 2000]], {"i0": lists, "a1": [[["raise", "boom"]]]})
            P(0, [["idle", "i0"], ["alarm", "a0", 0], ["alarm", "a1", 2000]], {"i0": lists, "a1": [[["raise", "exit"]]]})
    for first in (0, 1):
        cbs = {f"w{first}": [[["rm_watch", f"w{1 - first}"]]]}
        P(2, [["watch", "w0", 0], ["watch", "w1", 1], ["write", 0, 1], ["write", 1, 1]], cbs)
        cbs = {f"w{first}": [[["rm_watch", f"w{1 - first}"], ["rm_watch", f"w{first}"]]]}
        P(2, [["watch", "w0", 0], ["watch", "w1", 1], ["write", 0, 2], ["write", 1, 2], ["alarm", "a0", 1000]], cbs)
    P(3, [["watch", "w0", 0], ["watch", "w1", 1], ["watch", "w2", 2], ["write", 0, 1], ["write", 1, 1], ["write", 2, 1]], {"w0": [[["rm_watch", "w1"], ["rm_watch", "w2"]]], "w2": [[["rm_watch", "w0"], ["rm_watch", "w1"]]]})
    P(1, [["watch", "w0", 0], ["alarm", "a0", 0], ["write", 0, 1]], {"a0": [[["rm_watch", "w0"]]]})
    P(1, [["watch", "w0", 0], ["alarm", "a0", 0], ["write", 0, 1]], {"w0": [[["rm_alarm", "a0"], ["rm_alarm", "a0"]]]})
    P(1, [["alarm", "a0", 1000], ["alarm", "a1", 1000], ["alarm", "a2", 1000]], {"a0": [[["rm_alarm", "a1"], ["rm_alarm", "a2"]]], "a1": [[["rm_alarm", "a0"]]], "a2": [[["rm_alarm", "a1"], ["rm_alarm", "a1"]]]})
    P(1, [["alarm", "a0", 5000], ["rm_alarm", "a0"], ["rm_alarm", "a0"], ["watch", "w0", 0], ["write", 0, 1], ["rm_watch", "w0"], ["rm_watch", "w0"], ["idle", "i0"], ["rm_idle", "i0"], ["rm_idle", "i0"], ["alarm", "a1", 1000]], {})
    P(0, [["alarm", "a0", 0], ["alarm", "a1", 1000], ["alarm", "a2", 2000], ["alarm", "a3", 3000], ["alarm", "a4", 4000]], {"a0": [[["busy", 6000]]]})
    P(0, [["alarm", "a4", 4000], ["alarm", "a3", 3000], ["alarm", "a2", 2000], ["alarm", "a1", 1000], ["alarm", "a0", 0]], {"a0": [[["busy", 6000]]]})
    P(0, [["idle", "i0"], ["alarm", "a0", 0]], {"i0": [[], [["alarm", "a1", 1000]]], "a1": [[["alarm", "a2", 0]]]})
    P(1, [["idle", "i0"], ["alarm", "a0", 0]], {"i0": [[], [["watch", "w0", 0], ["write", 0, 1]]]})
    P(1, [["alarm", "a0", 0]], {"a0": [[["watch", "w0", 0], ["write", 0, 2]]], "w0": [[], [["rm_watch", "w0"], ["watch", "w1", 0], ["write", 0, 1]]]})
    for d in (300, 900, 1500, 20900):
        P(0, [["alarm", "a0", d]], {})
        P(1, [["alarm", "a0", d], ["watch", "w0", 0]], {})
    P(1, [["watch", "w0", 0], ["write", 0, 1]], {"w0": [[], [], [["rm_watch", "w0"]]]}, nodrain=["w0"])

    # --- two and three run() calls on the same loop object.  The first run is ended by the final alarm, by
    # ExitMainLoop or by an exception raised from an alarm / watch / idle callback; then new alarms, watches and
    # idle callbacks are registered and run() is called again.  Idle callback i0 is registered before the FIRST run.
    if loop in RESTARTABLE:
        # the raising callback is the LAST thing that happens in the first run (a1 at 1 ms, a0 at 5 ms; the watched
        # descriptor becomes readable only when a0 writes to it), so nothing is left over for the next run
        enders = {
            "final": {},
            "alarm-exit": {"a0": [[["raise", "exit"]]]},
            "alarm-boom": {"a0": [[["raise", "boom"]]]},
            "watch-exit": {"a0": [[["write", 0, 1]]], "w0": [[["raise", "exit"]]]},
            "watch-boom": {"a0": [[["write", 0, 1]]], "w0": [[["raise", "boom"]]]},
            "idle-exit": {"i0": [[], [], [["raise", "exit"]]]},
            "idle-boom": {"i0": [[], [], [["raise", "boom"]]]},
            "idle-boom-first": {"i0": [[["raise", "boom"]]]},
        }
        seconds = [
            [["alarm", "b0", 0], ["alarm", "b1", 2000]],
            [["alarm", "b0", 1000], ["watch", "v0", 1], ["write", 1, 2]],
            [["idle", "j0"], ["alarm", "b0", 0], ["alarm", "b1", 20000], ["write", 0, 1]],
            [["rm_idle", "i0"], ["idle", "j0"], ["alarm", "b0", 2000]],
            [["alarm", "b0", 20000]],  # nothing due for a while: the run begins with a long wait
            [],  # nothing but the sentinel and exit alarms
        ]
        for ender in enders.values():
            for k, second in enumerate(seconds):
                pre = [["idle", "i0"], ["watch", "w0", 0], ["alarm", "a1", 1000], ["alarm", "a0", 5000]]
                more = [{"pre": second, "exit_us": 20000 + TAIL_US}]
                if k % 2 == 0:
                    more.append({"pre": [["alarm", "c0", 0], ["alarm", "c1", 1000]], "exit_us": 1000 + TAIL_US})
                cbs = dict(ender)
                if k == 1:
                    cbs["b0"] = [[["raise", "boom"]]]  # the second run ends by an exception, too
                P(2, pre, cbs)
                out[-1]["more"] = more
    # every exception class of EXC_KINDS raised from an alarm, a watch and an idle callback; then a second run()
    n_plain = len(out)
    for kind in EXC_KINDS:
        if kind == "boom":
            continue
        for cbk in ("alarm", "watch", "idle"):
            k = safe_kind(loop, cbk, kind)
            if k == "boom":
                continue
            cbs = {"alarm": {"a0": [[["raise", k]]]}, "watch": {"w0": [[["raise", k]]]}, "idle": {"i0": [[], [["raise", k]]]}}[cbk]
            pre = [["idle", "i0"], ["alarm", "a0", 1000], ["alarm", "a1", 3000], ["watch", "w0", 0]] + ([["write", 0, 1]] if cbk == "watch" else [])
            P(1, pre, cbs)
            if loop in RESTARTABLE:
                out[-1]["more"] = [{"pre": [["alarm", "b0", 0]], "exit_us": 5000}]
    # handle churn: register -> remove -> remove again -> drop the handle -> loop tick, many rounds, so that handle
    # objects are freed and later handles are allocated at the same addresses
    for kind, rounds in (("alarm", 120), ("watch", 80), ("idle", 80)):
        P(1, [["idle", "i0"], ["churn", kind, rounds]], {})
        P(2, [["watch", "w0", 0], ["alarm", "a0", 1000], ["write", 0, 1]], {"a0": [[["churn", kind, rounds]]]})
    # every callable shape and every return value for alarm, watch and idle callbacks (the watch callback must keep
    # being called: 3 bytes, one read per call)
    for shape in SHAPES:
        pre = [["idle", "i0"], ["alarm", "a0", 0], ["alarm", "a1", 2000], ["watch", "w0", 0], ["write", 0, 3]]
        P(1, pre, {"a1": [[["alarm", "a2", 1000]]]})
        out[-1]["shapes"] = {"i0": shape, "a0": shape, "a1": shape, "a2": shape, "w0": shape}
        P(1, pre, {"a1": [[["raise", "boom"]]]})
        out[-1]["shapes"] = {"i0": shape, "a0": shape, "a1": shape, "w0": shape}
    for r in RETURN_VALUES:
        pre = [["idle", "i0"], ["alarm", "a0", 0], ["alarm", "a1", 2000], ["watch", "w0", 0], ["write", 0, 3]]
        P(1, pre, {"a1": [[["alarm", "a2", 1000], ["write", 0, 1]]]})
        out[-1]["rets"] = {"i0": r, "a0": r, "a1": r, "a2": r, "w0": r}
        P(1, pre, {})
        out[-1]["rets"] = {"w0": r}
        out[-1]["shapes"] = {"w0": "partial"}
    kinds_progs = out[n_plain:]
    del out[n_plain:]
    # the same programs with descriptor key 0 being file descriptor 0 (stdin, the descriptor urwid's raw display
    # watches; also the only falsy descriptor / handle value)
    import copy

    for prog in list(out):
        if prog["nfd"]:
            p0 = copy.deepcopy(prog)
            p0["fd0"] = True
            out.append(p0)
    return out + kinds_progs


# ------------------------------------------------------------------------------ enumerated schedules (virtual)


def weak_orderings(n):
    """all rank vectors r[0..n-1] whose set of values is {0..m-1} for some m (Fubini(n) of them)"""
    if n == 0:
        yield ()
        return
    for m in range(1, n + 1):
        for r in itertools.product(range(m), repeat=n):
            if len(set(r)) == m:
                yield r


ACTIONS_BASIC = ("none", "rm_self", "rearm", "exit", "boom", "busy")


def enum_actions(n_events):
    """(actor, action, target) triples: exactly one event's callback acts"""
    yield (None, "none", None)
    for actor in range(n_events):
        for act in ACTIONS_BASIC[1:]:
            yield (actor, act, None)
        for tgt in range(n_events):
            if tgt != actor:
                yield (actor, "rm", tgt)
                yield (actor, "rm_twice", tgt)


IDLE_VARIANTS = ("plain", "rm_self", "rm_sibling", "add", "boom", "exit", "none")


def build_enum(loop, n_a, n_f, ranks, action, order, unit_us, idle_variant="plain", second=None, fd0=False):
    """n_a alarms and n_f descriptor arrivals at times rank*unit; one actor"""
    n = n_a + n_f
    ids = [f"a{j}" for j in range(n_a)] + [f"w{j}" for j in range(n_f)]
    pre = []
    arrivals = []
    for j in range(n_a):
        pre.append(["alarm", ids[j], ranks[j] * unit_us])
    for j in range(n_f):
        pre.append(["watch", ids[n_a + j], j])
        arrivals.append([ranks[n_a + j] * unit_us, j, 1])
    cbs = {}
    actor, act, tgt = action

    def rm(j):
        return ["rm_alarm", ids[j]] if j < n_a else ["rm_watch", ids[j]]

    if actor is not None:
        me = ids[actor]
        if act == "rm_self":
            ops = [rm(actor)]
        elif act == "rearm":
            ops = [["alarm", "r0", unit_us]]
        elif act == "exit":
            ops = [["raise", "exit"]]
        elif act == "boom":
            ops = [["raise", "boom"]]
        elif act == "busy":
            ops = [["busy", unit_us + unit_us // 2]]
        elif act == "rm":
            ops = [rm(tgt)]
        elif act == "rm_twice":
            ops = [rm(tgt), rm(tgt)]
        else:
            raise AssertionError(act)
        cbs[me] = [ops]
    if idle_variant != "none":
        pre.append(["idle", "i0"])
    if idle_variant == "rm_self":
        cbs["i0"] = [[["rm_idle", "i0"]]]
    elif idle_variant == "rm_sibling":
        pre.append(["idle", "i1"])
        cbs["i0"] = [[["rm_idle", "i1"]]]
    elif idle_variant == "add":
        cbs["i0"] = [[["idle", "i1"]]]
    elif idle_variant == "boom":
        cbs["i0"] = [[], [["raise", "boom"]]]
    elif idle_variant == "exit":
        cbs["i0"] = [[], [["raise", "exit"]]]
    prog = {
        "loop": loop,
        "mode": "virtual",
        "nfd": n_f,
        "pre": pre,
        "cbs": cbs,
        "nodrain": [],
        "arrivals": arrivals,
        "order": order,
        "restart": False,
    }
    prog["exit_us"] = (max(ranks) + 4) * unit_us + TAIL_US
    if fd0 and n_f:
        prog["fd0"] = True
    if second == "alarms":
        prog["more"] = [{"pre": [["alarm", "b0", 0], ["alarm", "b1", 2 * unit_us]], "exit_us": 2 * unit_us + TAIL_US}]
    elif second == "watch":
        prog["nfd"] = n_f + 1
        prog["more"] = [{"pre": [["alarm", "b0", unit_us], ["watch", "v0", n_f], ["write", n_f, 2]], "exit_us": unit_us + TAIL_US}]
    return prog


# ------------------------------------------------------------------------------ shrinking


def shrink_candidates(prog):
    """smaller variants of prog, most aggressive first"""
    import copy

    def clone():
        return copy.deepcopy(prog)

    if prog.get("restart"):
        p = clone()
        p["restart"] = False
        yield p
    if prog.get("fd0"):
        p = clone()
        del p["fd0"]
        yield p
    for key in ("shapes", "rets"):
        if prog.get(key):
            p = clone()
            del p[key]
            yield p
            for c in list(prog[key]):
                p = clone()
                del p[key][c]
                yield p
    for k in range(len(prog.get("more", ())) - 1, -1, -1):
        if k == len(prog["more"]) - 1:
            p = clone()
            del p["more"][k]
            yield p
        for i in range(len(prog["more"][k]["pre"])):
            p = clone()
            del p["more"][k]["pre"][i]
            yield p
    for cbid in list(prog.get("cbs", {})):
        p = clone()
        del p["cbs"][cbid]
        yield p
    for i in range(len(prog.get("pre", ()))):
        p = clone()
        del p["pre"][i]
        yield p
    for i in range(len(prog.get("arrivals", ()))):
        p = clone()
        del p["arrivals"][i]
        yield p
    for cbid, lists in prog.get("cbs", {}).items():
        for li, ops in enumerate(lists):
            for oi in range(len(ops)):
                p = clone()
                del p["cbs"][cbid][li][oi]
                yield p
            if li > 0 and ops and not lists[li - 1]:
                p = clone()
                del p["cbs"][cbid][li - 1]
                yield p
    if prog.get("nodrain"):
        p = clone()
        p["nodrain"] = []
        yield p
    # smaller delays
    def all_ops(p):
        yield from p["pre"]
        for lists in p["cbs"].values():
            for ops in lists:
                yield from ops

    n_al = sum(1 for op in all_ops(prog) if op[0] == "alarm")
    for k in range(n_al):
        for new in (0, 1000, 2000):
            p = clone()
            al = [op for op in all_ops(p) if op[0] == "alarm"]
            if al[k][2] > new:
                al[k][2] = new
                yield p
    for i, a in enumerate(prog.get("arrivals", ())):
        if a[0] > 0:
            p = clone()
            p["arrivals"][i][0] = 0
            yield p
    for op_i, op in enumerate(list(all_ops(prog))):
        if op[0] == "write" and op[2] > 1:
            p = clone()
            list(all_ops(p))[op_i][2] = 1
            yield p


def used_fds(prog):
    s = set()
    for op in prog.get("pre", ()):
        if op[0] in ("watch",):
            s.add(op[2])
        elif op[0] == "write":
            s.add(op[1])
    for lists in prog.get("cbs", {}).values():
        for ops in lists:
            for op in ops:
                if op[0] == "watch":
                    s.add(op[2])
                elif op[0] == "write":
                    s.add(op[1])
    for a in prog.get("arrivals", ()):
        s.add(a[1])
    return s


def terminates(prog):
    """validity filter for shrink candidates: a watch callback that does not read its descriptor must
    still remove its own watch, otherwise the descriptor stays readable for ever"""
    for cbid in prog.get("nodrain", ()):
        lists = prog.get("cbs", {}).get(cbid, ())
        if not any(op == ["rm_watch", cbid] for ops in lists for op in ops):
            return False
    return True


def shrink(prog, reproduces, max_tries=400):
    """greedy delta-debugging: keep a candidate when reproduces(candidate) is true"""
    tries = 0
    changed = True
    while changed and tries < max_tries:
        changed = False
        for cand in shrink_candidates(prog):
            tries += 1
            if tries > max_tries:
                break
            if not terminates(cand):
                continue
            if prog["mode"] == "real":
                finish(cand)
            if reproduces(cand):
                prog = cand
                changed = True
                break
    return prog
