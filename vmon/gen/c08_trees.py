"""C08 generators: JSON recipes for container trees over spy leaves (no urwid import here).

A recipe node is a dict.  Every node has "k" (kind), "mode" ("flow" | "box" = how its parent
sizes it) and optionally "wrap" (a decoration placed around it: "attrmap" | "padding" keep the
mode, "filler" turns a flow node into a box widget, ["boxadapter", n] turns a box node into a
flow widget of n rows).

  leaf     {"k":"leaf","sid":int,"sel":bool,"keys":[str],"rows":int}
  pile     {"k":"pile","cid":int,"ch":[[node,opt]...],"focus":int|None}   opt = ["pack"]|["weight",w]|["given",n]
  cols     {"k":"cols","cid":int,"ch":[[node,opt]...],"div":int,"focus":int|None}  opt = ["weight",w]|["given",n]
  grid     {"k":"grid","cid":int,"ch":[[node,None]...],"cw":int,"hs":int,"vs":int,"align":str,"focus":int|None}
  frame    {"k":"frame","cid":int,"body":node,"header":node|None,"footer":node|None,"fp":str}
  overlay  {"k":"overlay","cid":int,"top":node,"bottom":node,"w":..,"h":..,"align":str,"valign":str}
  list     {"k":"list","cid":int,"ch":[[node,None]...],"walker":"sflw"|"slw"|"plain","focus":int|None}
"""

from __future__ import annotations

MAX_SID = 160

LEAF_KEYS = ["x", "x", "q", "up", "down", "left", "right", "tab", "home", "end", "page down", "page up", "enter", "j"]
NAV_KEYS = ["up", "down", "left", "right", "page up", "page down", "home", "end", "tab", "shift tab"]
DECOR_UNSEL = ["disable", "disable", "disable_attrmap", "force_unsel", "wwrap_unsel"]
XLATE_PAIRS = [
    ("right", "ctrl g"), ("left", "ctrl g"), ("up", "f8"), ("down", "f8"), ("right", "f8"), ("left", "q"),
    ("tab", "right"), ("shift tab", "left"), ("tab", "down"), ("shift tab", "up"), ("enter", "down"), ("enter", "right"),
    ("x", "up"), ("z", "left"), ("q", "right"), ("up", "left"), ("down", "right"), ("right", "down"), ("page down", "f8"),
    ("home", "left"), ("end", "right"), ("j", "f8"), ("l", "ctrl g"),
]  # fmt: skip
CHAR_KEYS = ["x", "q", "z", "enter", " ", "j", "k", "h", "l", "f5", "esc"]


class Gen:
    def __init__(self, rng, sid=0, cid=0, max_depth=4, cap=60):
        self.rng = rng
        self.cap = cap
        self.sid = sid
        self.cid = cid
        self.max_depth = max_depth
        self.navbias = None
        self.script = None
        self.directed = None

    def room(self, n=6) -> bool:
        return self.sid + n < min(self.cap, MAX_SID)

    # ---------------------------------------------------------------- leaves
    def leaf(self, mode):
        r = self.rng
        sid = self.sid
        self.sid += 1
        keys = []
        if r.random() < 0.45:
            keys = sorted({r.choice(LEAF_KEYS) for _ in range(r.randint(1, 3))})
        node = {"k": "leaf", "mode": mode, "sid": sid, "sel": r.random() < 0.6, "keys": keys, "rows": r.choice([1, 1, 1, 2, 3])}
        if r.random() < 0.22:
            # key translation: given k the leaf returns k' (k' != k, k' not None), e.g. the 'tab' -> 'right' form idiom
            node["xlate"] = dict(r.choice(XLATE_PAIRS) for _ in range(r.randint(1, 3)))
            node["xlate"] = {k: v for k, v in node["xlate"].items() if k not in keys}
            if not node["xlate"]:
                del node["xlate"]
        x = r.random()
        if node["sel"] and x < 0.16:
            # unselectable only because of what is wrapped around a selectable widget
            node["wrap"] = r.choice(DECOR_UNSEL)
            return node
        if not node["sel"] and x < 0.08:
            node["wrap"] = r.choice(["force_sel", "wwrap_sel"])
            return node
        return self._wrap(node)

    def disabled_leaf(self, mode):
        """a selectable spy made unselectable by its decoration"""
        n = self.leaf(mode)
        n["sel"] = True
        n["wrap"] = self.rng.choice(DECOR_UNSEL)
        return n

    def _wrap(self, node):
        x = self.rng.random()
        if x < 0.12:
            node["wrap"] = self.rng.choice(["attrmap", "padding"])
        elif x < 0.15 and node["k"] != "leaf":
            node["wrap"] = self.rng.choice(["disable", "force_unsel", "force_sel"])
        return node

    def _entry_row_decor(self, ch, mode_of):
        """now and then put an unselectable-by-decoration leaf on the first / last position (the row a parent enters)"""
        r = self.rng
        if len(ch) >= 2 and self.room(2) and r.random() < 0.3:
            i = r.choice([0, -1])
            ch[i] = [self.disabled_leaf(mode_of(ch[i])), ch[i][1]]

    def _newcid(self):
        c = self.cid
        self.cid += 1
        return c

    # ---------------------------------------------------------------- nodes
    def node(self, mode, depth):
        """a node usable where the parent expects `mode`; depth = container levels still allowed"""
        r = self.rng
        if depth <= 0 or not self.room() or r.random() < (0.18 if depth >= 3 else 0.35):
            return self.leaf(mode)
        if mode == "flow":
            kind = r.choice(["pile", "pile", "cols", "cols", "grid", "grid", "adapt"])
        else:
            kind = r.choice(["pile", "pile", "cols", "frame", "frame", "overlay", "list", "list", "adapt"])
        if kind == "adapt":
            if mode == "flow":
                inner = self.node("box", depth)
                if "wrap" in inner:
                    return inner if inner["mode"] == "flow" else self.leaf(mode)
                inner["wrap"] = ["boxadapter", r.randint(2, 5)]
                inner["mode"] = "flow"
                return inner
            inner = self.node("flow", depth)
            if "wrap" in inner:
                return inner if inner["mode"] == "box" else self.leaf(mode)
            inner["wrap"] = "filler"
            inner["mode"] = "box"
            return inner
        return self._wrap(getattr(self, "_" + kind)(mode, depth - 1))

    def _nchildren(self):
        return self.rng.choice([0, 1, 2, 2, 3, 3, 4, 5])

    def _focus_arg(self, n):
        if n and self.rng.random() < 0.3:
            return self.rng.randrange(n)
        return None

    def pile_item(self, mode, depth):
        """one [node, opt] valid inside a Pile sized as `mode`"""
        r = self.rng
        if mode == "flow":
            return [self.node("flow", depth), r.choice([["pack"], ["pack"], ["weight", r.randint(1, 3)]])]
        c = r.random()
        if c < 0.4:
            return [self.node("flow", depth), ["pack"]]
        if c < 0.85:
            return [self.node("box", depth), ["weight", r.randint(1, 3)]]
        return [self.node("box", depth), ["given", r.randint(1, 3)]]

    def cols_item(self, mode, depth):
        r = self.rng
        opt = ["weight", r.randint(1, 3)] if r.random() < 0.7 else ["given", r.randint(2, 6)]
        return [self.node(mode, depth), opt]

    def grid_item(self, depth):
        r = self.rng
        if r.random() < 0.8:
            return [self.leaf("flow"), None]
        return [self.node("flow", min(depth, 1)), None]

    def list_item(self, depth):
        return [self.node("flow", depth), None]

    def item_for(self, kind, mode, depth):
        if kind == "pile":
            return self.pile_item(mode, depth)
        if kind == "cols":
            return self.cols_item(mode, depth)
        if kind == "grid":
            return self.grid_item(depth)
        return self.list_item(depth)

    def _pile(self, mode, depth):
        n = self._nchildren()
        ch = [self.pile_item(mode, depth) for _ in range(n)]
        if mode == "box" and ch and not any(o[0] == "weight" for _, o in ch):
            ch.append([self.node("box", depth), ["weight", 1]])
        self._entry_row_decor(ch, lambda it: "flow" if (mode == "flow" or it[1][0] == "pack") else "box")
        return {"k": "pile", "mode": mode, "cid": self._newcid(), "ch": ch, "focus": self._focus_arg(len(ch))}

    def _cols(self, mode, depth):
        n = self._nchildren()
        ch = [self.cols_item(mode, depth) for _ in range(n)]
        self._entry_row_decor(ch, lambda it: mode)
        return {"k": "cols", "mode": mode, "cid": self._newcid(), "ch": ch, "div": self.rng.choice([0, 1]), "focus": self._focus_arg(n)}

    def _grid(self, mode, depth):
        r = self.rng
        n = r.choice([0, 1, 2, 3, 4, 5, 6, 7])
        ch = [self.grid_item(depth) for _ in range(n)]
        return {
            "k": "grid",
            "mode": "flow",
            "cid": self._newcid(),
            "ch": ch,
            "cw": r.randint(2, 4),
            "hs": r.randint(0, 2),
            "vs": r.randint(0, 1),
            "align": r.choice(["left", "center", "right"]),
            "focus": self._focus_arg(n),
        }

    def _frame(self, mode, depth):
        r = self.rng
        body = self.node("box", depth)
        header = self.node("flow", depth) if r.random() < 0.6 else None
        footer = self.node("flow", depth) if r.random() < 0.6 else None
        parts = ["body"] + (["header"] if header else []) + (["footer"] if footer else [])
        return {"k": "frame", "mode": "box", "cid": self._newcid(), "body": body, "header": header, "footer": footer, "fp": r.choice(parts) if r.random() < 0.4 else "body"}

    def overlay_top(self, depth):
        """-> (node, height spec)"""
        r = self.rng
        if r.random() < 0.5:
            return self.node("flow", depth), "pack"
        return self.node("box", depth), r.choice([2, 3, 4, ["relative", 50], ["relative", 80]])

    def _overlay(self, mode, depth):
        r = self.rng
        top, h = self.overlay_top(depth)
        bottom = self.node("box", depth)
        return {
            "k": "overlay",
            "mode": "box",
            "cid": self._newcid(),
            "top": top,
            "bottom": bottom,
            "w": r.choice([["relative", 50], ["relative", 80], ["relative", 100], 6, 8]),
            "h": h,
            "align": r.choice(["left", "center", "right"]),
            "valign": r.choice(["top", "middle", "bottom"]),
        }

    def _list(self, mode, depth):
        r = self.rng
        n = r.choice([0, 1, 2, 3, 4, 5, 6, 8])
        ch = [self.list_item(depth) for _ in range(n)]
        self._entry_row_decor(ch, lambda it: "flow")
        return {"k": "list", "mode": "box", "cid": self._newcid(), "ch": ch, "walker": r.choice(["sflw", "sflw", "slw", "plain"]), "focus": self._focus_arg(n)}

    # ---------------------------------------------------------------- roots
    def _form(self):
        """directed shape: [selectable, nested group, selectable] in a Pile / ListBox (axis up/down) or Columns
        (axis left/right); the group's first and/or last child is unselectable only because of its decoration"""
        r = self.rng
        outer = r.choice(["pile", "pile", "list", "cols"])
        inner = "cols" if outer == "cols" else r.choice(["pile", "pile", "pile", "cols", "grid"])

        def sel_leaf(mode):
            n = self.leaf(mode)
            n["sel"] = True
            n.pop("wrap", None)
            if r.random() < 0.5:
                n["keys"] = []
            return n

        def group_children(mode):
            k = r.randint(2, 4)
            out = [sel_leaf(mode) if r.random() < 0.75 else self.leaf(mode) for _ in range(k)]
            ends = r.choice([[0], [-1], [0, -1]])
            for i in ends:
                out[i] = self.disabled_leaf(mode)
            if not any(c["sel"] and c.get("wrap") not in DECOR_UNSEL for c in out):
                out.insert(1, sel_leaf(mode))
            return out

        if outer == "cols":
            mode = "box"
            g = {"k": "cols", "mode": mode, "cid": self._newcid(), "ch": [[c, ["weight", 1]] for c in group_children(mode)], "div": r.choice([0, 1]), "focus": None}
            items = [[sel_leaf(mode), ["weight", 1]], [g, ["weight", 3]], [sel_leaf(mode), ["weight", 1]]]
            return {"k": "cols", "mode": "box", "cid": self._newcid(), "ch": items, "div": 1, "focus": r.choice([None, 0, 2])}
        kids = group_children("flow")
        if inner == "pile":
            g = {"k": "pile", "mode": "flow", "cid": self._newcid(), "ch": [[c, ["pack"]] for c in kids], "focus": r.choice([None, None, len(kids) - 1, 1])}
        elif inner == "cols":
            g = {"k": "cols", "mode": "flow", "cid": self._newcid(), "ch": [[c, ["weight", 1]] for c in kids], "div": 1, "focus": None}
        else:
            g = {"k": "grid", "mode": "flow", "cid": self._newcid(), "ch": [[c, None] for c in kids], "cw": 4, "hs": 1, "vs": r.choice([0, 1]), "align": "left", "focus": None}
        if r.random() < 0.2:
            g["wrap"] = r.choice(["attrmap", "padding"])
        seq = [sel_leaf("flow"), g, sel_leaf("flow")]
        if r.random() < 0.4:
            seq.insert(r.choice([0, 1, 3]), self.leaf("flow"))
        if outer == "list":
            return {"k": "list", "mode": "box", "cid": self._newcid(), "ch": [[c, None] for c in seq], "walker": r.choice(["sflw", "slw", "plain"]), "focus": r.choice([None, 0, len(seq) - 1])}
        ch = [[c, ["pack"]] for c in seq]
        if r.random() < 0.5:
            n = {"k": "pile", "mode": "flow", "cid": self._newcid(), "ch": ch, "focus": r.choice([None, 0, len(seq) - 1]), "wrap": "filler"}
            n["mode"] = "box"
            return n
        ch.append([self.leaf("box"), ["weight", 1]])
        return {"k": "pile", "mode": "box", "cid": self._newcid(), "ch": ch, "focus": r.choice([None, 0, len(seq) - 1])}

    # ---------------------------------------------------------------- directed regressions of recorded fixes
    def _plain(self, mode, sel, rows=1):
        n = self.leaf(mode)
        n.pop("wrap", None)
        n.pop("xlate", None)
        n.update(sel=sel, keys=[], rows=rows)
        return n

    def _regression(self):
        """shapes + scripted first ops taken from the `fixed: property=C08` lines (each line's named cases)"""
        r = self.rng
        which = r.choice(
            ["frame-empty-part", "pile-unselectable-any-key", "cache-lost-dependency", "grid-focus-on-empty-cell", "overlay-top-replaced", "grid-selectable-after-edit"]
            + ["listbox-emptied-after-set-focus"] * 2
            + ["slice-assign-from-iterator"] * 2
        )
        self.directed = which
        if which == "listbox-emptied-after-set-focus":
            # f5c5690: set_focus() is deferred; the walker is emptied (or loses the old focus item) before the next
            # render / keypress / mouse_event, at several sizes, every walker flavour, with and without a first render
            k = r.randint(2, 5)
            items = [self._plain("flow", r.random() < 0.6, r.choice([1, 1, 2])) for _ in range(k)]
            start = r.choice([None, 0, k - 1])
            lb = {"k": "list", "mode": "box", "cid": self._newcid(), "ch": [[c, None] for c in items], "walker": r.choice(["sflw", "slw", "plain"]), "focus": start}
            cur = start or 0
            new = r.choice([i for i in range(k) if i != cur])
            sc = [["render", r.randrange(4)]] if r.random() < 0.6 else []
            sc.append(["focus", lb["cid"], new, r.choice(["prop", "set_focus", "walker"])])
            if r.random() < 0.7:
                sc.append(["clear", lb["cid"], r.choice(["clear", "delall", "assign"])])
            else:
                sc.append(["del", lb["cid"], cur, r.choice(["del", "pop", "remove"])])
            tail = [["render", r.randrange(4)], ["key", r.choice(["x", "up", "down", "page down", "home"])], ["mouse", r.randrange(20), r.randrange(8)]]
            r.shuffle(tail)
            sc += tail + [["render", r.randrange(4)], ["key", "x"]]
            self.script = sc
            wrapk = r.random()
            if wrapk < 0.5:
                return lb
            if wrapk < 0.75:
                return {"k": "frame", "mode": "box", "cid": self._newcid(), "body": lb, "header": self._plain("flow", False), "footer": None, "fp": "body"}
            return {"k": "pile", "mode": "box", "cid": self._newcid(), "ch": [[self._plain("flow", True), ["pack"]], [lb, ["weight", 1]]], "focus": 1}
        if which == "slice-assign-from-iterator":
            # c77b924: slice assignment / extend from one-shot iterators at every slice position relative to the focus
            kind = r.choice(["pile", "cols", "grid", "list"])
            k = r.randint(3, 5)
            fpos = r.choice([0, k - 1, k // 2])
            its = ["gen", "iter", "map", "reversed"]
            if kind == "list":
                c = {"k": "list", "mode": "box", "cid": self._newcid(), "ch": [[self._plain("flow", True), None] for _ in range(k)], "walker": r.choice(["sflw", "sflw", "slw"]), "focus": fpos}
                opt = None
            elif kind == "grid":
                c = {"k": "grid", "mode": "box", "cid": self._newcid(), "ch": [[self._plain("flow", True), None] for _ in range(k)], "cw": 3, "hs": 1, "vs": 0, "align": "left", "focus": fpos, "wrap": "filler"}
                opt = None
            elif kind == "cols":
                c = {"k": "cols", "mode": "box", "cid": self._newcid(), "ch": [[self._plain("box", True), ["weight", 1]] for _ in range(k)], "div": 0, "focus": fpos}
                opt = ["weight", 1]
            else:
                c = {"k": "pile", "mode": "box", "cid": self._newcid(), "ch": [[self._plain("box", True), ["weight", 1]] for _ in range(k)], "focus": fpos}
                opt = ["weight", 1]
            lm = "flow" if kind in ("list", "grid") else "box"
            where = r.choice(["before", "contains", "after", "append", "all"])
            if where == "before" and fpos > 0:
                a = r.randrange(0, fpos)
                b = r.randint(a, fpos)
            elif where == "after" and fpos < k - 1:
                a = r.randint(fpos + 1, k)
                b = r.randint(a, k)
            elif where == "append":
                a = b = k
            elif where == "all":
                a, b = 0, k
            else:
                a = r.randint(0, fpos)
                b = r.randint(fpos + 1, k)
            new = [[self._plain(lm, r.random() < 0.7), opt] for _ in range(r.randint(1, 3))]
            sc = [["render", 0]] if r.random() < 0.5 else []
            sc.append(["slice", c["cid"], a, b, new, "set", r.choice(its)])
            sc += [["render", 0], ["key", r.choice(["down", "right", "x"])]]
            sc.append(["ins", c["cid"], 0, [self._plain(lm, True), opt], r.choice(["extend", "iadd"]), r.choice(its)])
            sc.append(["assign", c["cid"], [[self._plain(lm, True), opt] for _ in range(2)], r.choice(["slice", "setter"]), r.choice(its)])
            sc.append(["render", 0])
            self.script = sc
            return c
        ec = lambda: r.choice([  # noqa: E731  an empty flow container
            {"k": "pile", "mode": "flow", "cid": self._newcid(), "ch": [], "focus": None},
            {"k": "cols", "mode": "flow", "cid": self._newcid(), "ch": [], "div": 0, "focus": None},
            {"k": "grid", "mode": "flow", "cid": self._newcid(), "ch": [], "cw": 3, "hs": 1, "vs": 0, "align": "left", "focus": None},
        ])
        if which == "frame-empty-part":
            # 1189b2d: header/footer that is an EMPTY container, reached at build / by emptying it / by assignment
            part = r.choice(["header", "footer"])
            how = r.choice(["build", "edit", "assign"])
            if how == "edit":
                cid = self._newcid()
                partw = {"k": r.choice(["pile", "grid"]), "mode": "flow", "cid": cid, "ch": [[self._plain("flow", True), ["pack"]]], "focus": None}
                if partw["k"] == "grid":
                    partw.update(ch=[[partw["ch"][0][0], None]], cw=3, hs=0, vs=1, align="left")
            else:
                partw = ec()
            t = {"k": "frame", "mode": "box", "cid": self._newcid(), "body": self._plain("box", r.random() < 0.5), "header": None, "footer": None, "fp": part if how != "assign" else "body"}
            t[part] = partw
            other = "footer" if part == "header" else "header"
            if r.random() < 0.5:
                t[other] = self._plain("flow", True)
            self.script = {"build": [["render", 0]], "edit": [["clear", partw["cid"], r.choice(["clear", "delall", "assign", "prop"])], ["render", 0]], "assign": [["focus", t["cid"], part], ["key", "x"]]}[how]
            return t
        if which == "pile-unselectable-any-key":
            # eb8ae90: a Pile whose selectable() is (stale) False must hand every non up/down key back
            p1 = {"k": "pile", "mode": "flow", "cid": self._newcid(), "ch": [[self._plain("flow", False), ["pack"]], [self._plain("flow", False), ["pack"]]], "focus": None}
            p2 = {"k": "pile", "mode": "flow", "cid": self._newcid(), "ch": [[self._plain("flow", False), ["pack"]], [p1, ["pack"]]], "focus": None}
            t = {"k": "pile", "mode": "box", "cid": self._newcid(), "ch": [[self._plain("flow", True), ["pack"]], [p2, ["pack"]], [self._plain("box", False), ["weight", 1]]], "focus": 1}
            new = self._plain("flow", True)
            self.script = [["setitem", p1["cid"], r.choice([0, 1]), [new, ["pack"]]]] + [["key", k] for k in r.sample(["l", "x", "enter", "left", "tab", "f5", "home"], 3)]
            return t
        if which == "cache-lost-dependency":
            # c7a76a5: resize, old frame dropped, a sibling at the new size is not cacheable, then the focus moves
            inner = {"k": "cols", "mode": "flow", "cid": self._newcid(), "ch": [[self._plain("flow", False), ["weight", 1]], [dict({"k": "pile", "mode": "flow", "cid": self._newcid(), "ch": [], "focus": None}, wrap="padding"), ["weight", 1]], [self._plain("flow", False), ["weight", 1]], [self._plain("flow", r.random() < 0.5), ["weight", 1]]], "div": 0, "focus": None}
            t = {"k": "cols", "mode": "box", "cid": self._newcid(), "ch": [[self._plain("flow", True), ["given", 6]], [self._plain("flow", r.random() < 0.5), ["given", 5]], [inner, ["given", 4]]], "div": 1, "focus": None, "wrap": "filler"}
            self.script = [["render", 2], ["render", 0], ["focus", t["cid"], 1], ["render", 0]]
            return t
        if which == "grid-focus-on-empty-cell":
            # 5672901: GridFlow focus on an empty-container cell; move_cursor_to_coords / mouse / handled key must not rewrite it
            g = {"k": "grid", "mode": "flow", "cid": self._newcid(), "ch": [[self._plain("flow", False, 3), None], [ec(), None]], "cw": 2, "hs": 1, "vs": 1, "align": "center", "focus": 1}
            top = {"k": "pile", "mode": "flow", "cid": self._newcid(), "ch": [[self._plain("flow", True), ["weight", 1]]], "focus": None}
            g1 = {"k": "grid", "mode": "flow", "cid": self._newcid(), "ch": [[self._plain("flow", True, 3), None]], "cw": 2, "hs": 1, "vs": 0, "align": "left", "focus": None}
            ep = {"k": "pile", "mode": "flow", "cid": self._newcid(), "ch": [], "focus": None, "wrap": ["boxadapter", 3]}
            eg = {"k": "grid", "mode": "flow", "cid": self._newcid(), "ch": [], "cw": 2, "hs": 1, "vs": 1, "align": "left", "focus": None}
            ip = {"k": "pile", "mode": "flow", "cid": self._newcid(), "ch": [[self._plain("flow", False), ["pack"]], [self._plain("flow", True, 3), ["pack"]]], "focus": None}
            last = {"k": "grid", "mode": "flow", "cid": self._newcid(), "ch": [[ip, None]], "cw": 3, "hs": 2, "vs": 1, "align": "right", "focus": None}
            items = [top, g1, g, ep, eg, last]
            t = {"k": "list", "mode": "box", "cid": self._newcid(), "ch": [[c, None] for c in items], "walker": r.choice(["sflw", "sflw", "slw"]), "focus": None}
            # (witness of the thorough alarm: no render first, focus the empty item below the group, then 'up')
            self.script = [["path", [4]], ["key", "up"], ["key", "up"], ["render", 0], ["mouse", 9, 5], ["mouse", 2, 4]]
            return t
        if which == "overlay-top-replaced":
            # 6ed656a: contents[1] = (w, opts) and contents = [...] must replace the top widget
            t = {"k": "overlay", "mode": "box", "cid": self._newcid(), "top": self._plain("box", True), "bottom": self._plain("box", r.random() < 0.5), "w": ["relative", 50], "h": 3, "align": "center", "valign": "top"}
            self.script = [["overlay", t["cid"], 1, self._plain("box", True), r.choice(["item", "assign"])], ["key", "x"], ["render", 0]]
            return t
        # 56487e0: GridFlow.selectable() right after an edit, both directions
        gain = r.random() < 0.5
        g = {"k": "grid", "mode": "flow", "cid": self._newcid(), "ch": [[self._plain("flow", not gain), None]], "cw": 3, "hs": 1, "vs": 1, "align": "left", "focus": None, "wrap": "filler"}
        g["mode"] = "box"
        if gain:
            self.script = [["ins", g["cid"], r.choice([0, 1]), [self._plain("flow", True), None], r.choice(["append", "extend", "insert", "iadd"])], ["key", "x"]]
        else:
            self.script = [["del", g["cid"], 0, r.choice(["del", "pop", "pop()", "remove"])], ["key", "x"]]
        return g

    def root(self):
        """the root is always sized as a box widget (as MainLoop does)"""
        r = self.rng
        self.navbias = None
        self.script = None
        self.directed = None
        if r.random() < 0.12:
            return self._regression()
        if r.random() < 0.15:
            t = self._form()
            self.navbias = ["left", "right"] if t["k"] == "cols" else ["up", "down"]
            return t
        kind = r.choice(["pile", "cols", "frame", "overlay", "list", "flowpile", "flowcols", "grid"])
        d = self.max_depth - 1
        if kind in ("pile", "cols", "frame", "overlay", "list"):
            return getattr(self, "_" + kind)("box", d)
        n = {"flowpile": self._pile, "flowcols": self._cols, "grid": self._grid}[kind]("flow", d)
        n["wrap"] = "filler"
        n["mode"] = "box"
        return n


def iter_nodes(node):
    """all recipe nodes, depth first"""
    if node is None:
        return
    yield node
    k = node["k"]
    if k in ("pile", "cols", "grid", "list"):
        for c, _ in node["ch"]:
            yield from iter_nodes(c)
    elif k == "frame":
        for p in ("header", "body", "footer"):
            yield from iter_nodes(node[p])
    elif k == "overlay":
        yield from iter_nodes(node["bottom"])
        yield from iter_nodes(node["top"])


def depth_of(node) -> int:
    if node is None or node["k"] == "leaf":
        return 0
    k = node["k"]
    if k in ("pile", "cols", "grid", "list"):
        subs = [c for c, _ in node["ch"]]
    elif k == "frame":
        subs = [node[p] for p in ("header", "body", "footer")]
    else:
        subs = [node["bottom"], node["top"]]
    return 1 + max([depth_of(s) for s in subs] or [0])
