"""Seeded generator of C20 cases (JSON descriptors only; imports nothing from urwid).

case = {"content": recipe, "wrap": {...}, "size": [w, h], "focus": bool, "ops": [op, ...]}

content recipes
  ["text", [line, ...], wrap, align]            urwid.Text (flow); every word is unique
  ["edit", caption, text, multiline]            urwid.Edit (flow, selectable, has a cursor)
  ["rowspy", base, n, sel, keys, buttons]       flow spy, n rows at any width
  ["cursorspy", base, n, keys, buttons]         flow spy with the cursor protocol (up/down move its cursor)
  ["wrapspy", base, n, sel, keys, buttons]      flow spy, n cells laid out row-major
  ["fixedspy", base, cols, n, sel, keys, buttons]
  ["falsyspy", base, n, sel, keys, buttons]     rowspy with __len__ == 0 (falsy although it has rows)
  ["emptypile"] ["emptycolumns"] ["emptygridflow"]  empty containers (falsy; 0 / 1 / 1 rows), ListBox items only
  ["shared", key, recipe]                       the SAME widget object wherever the key occurs again
  ["pile", [item recipe, ...], focus_index]
  ["listbox", [item recipe, ...], focus_index]  (only with wrap kind "LB")
wrap = {"kind": "S" | "SB" | "LB", "side", "bw", "thumb", "trough", "ffk", "deco", "walker",
        "keep": "last" | "per_size"  (which rendered frames the harness keeps alive: the last one / the last per (size, focus))}
ops: see vmon/checks/c20.py Session.apply
"""

from __future__ import annotations

SCROLL_KEYS = ["up", "down", "page up", "page down", "home", "end"]
OTHER_KEYS = ["x", "left", "right", "enter", " ", "backspace"]
THUMBS = ["█", "#", "▓", "@"]
TROUGHS = [" ", "░", ".", ":"]
HUGE = [10**9, -(10**9), 2**63, -(2**63), 2**31 - 1, -(2**31)]


class Gen:
    def __init__(self, rng):
        self.rng = rng
        self.word = 0
        self.base = 0

    # ---- content pieces
    def words(self, n):
        out = []
        for _ in range(n):
            k = self.word
            self.word += 1
            w = f"{chr(65 + k % 26)}{k}"
            if self.rng.random() < 0.12:
                k2 = self.word
                self.word += 1
                w += f"{chr(65 + k2 % 26)}{k2}" * 1 + f"{chr(97 + k2 % 26)}{k2}q"
            out.append(w)
        return out

    def lines(self, nlines, maxwords=6):
        rng = self.rng
        ls = []
        for _ in range(nlines):
            if rng.random() < 0.08:
                ls.append("")
            else:
                ls.append(" ".join(self.words(rng.randint(1, maxwords))))
        return ls

    def newbase(self, span=46):
        b = self.base
        self.base += span
        return b

    def handled(self):
        rng = self.rng
        keys, buttons = [], []
        if rng.random() < 0.6:
            keys = rng.sample(SCROLL_KEYS + ["x"], rng.randint(1, 4))
        if rng.random() < 0.5:
            buttons = rng.sample([1, 4, 5], rng.randint(1, 2))
        return keys, buttons

    def spy(self, kind, n, cols=None):
        rng = self.rng
        sel = rng.random() < 0.5
        keys, buttons = self.handled() if sel or rng.random() < 0.3 else ([], [])
        if kind == "fixedspy":
            return ["fixedspy", self.newbase(), cols, n, sel, keys, buttons]
        return [kind, self.newbase(), n, sel, keys, buttons]

    def text(self, nlines):
        rng = self.rng
        return ["text", self.lines(nlines), rng.choice(["space", "space", "any", "clip"]), rng.choice(["left", "left", "center", "right"])]

    def edit(self):
        rng = self.rng
        ml = rng.random() < 0.6
        txt = "\n".join(self.lines(rng.randint(1, 4), 3)) if ml else " ".join(self.words(rng.randint(0, 4)))
        return ["edit", " ".join(self.words(rng.randint(0, 2))), txt, ml]

    def tall_cursor_item(self, n):
        """a focusable item with the cursor protocol and n rows: a real multi-line Edit or the cursor spy"""
        rng = self.rng
        if rng.random() < 0.6:
            return ["edit", "", "\n".join(self.words(n)), True]
        keys, buttons = self.handled() if rng.random() < 0.3 else ([], [])
        return ["cursorspy", self.newbase(), n, [k for k in keys if k not in ("up", "down")], buttons]

    def hostile_items(self, items):
        """sometimes: the same widget object at several positions; falsy widgets (empty containers, __len__ == 0)"""
        rng = self.rng
        if rng.random() < 0.25:
            inner = rng.choice([self.spy("rowspy", rng.randint(1, 2)), self.text(1), ["text", [""], "space", "left"]])
            for _ in range(rng.randint(2, 4)):
                items.insert(rng.randint(0, len(items)), ["shared", "D", inner])
        if rng.random() < 0.12 and items:
            # a run of zero-row placeholders just before the last item(s)
            at = max(0, len(items) - rng.randint(1, 2))
            items[at:at] = [["emptypile"]] * rng.randint(2, 6)
        if rng.random() < 0.25:
            for _ in range(rng.randint(1, 3)):
                sp = self.spy("rowspy", rng.randint(1, 3))
                falsy = rng.choice([["emptypile"], ["emptycolumns"], ["emptygridflow"], ["falsyspy", *sp[1:]]])
                items.insert(rng.randint(0, len(items)), falsy)

    def flow_item(self, nmax=5):
        rng = self.rng
        r = rng.random()
        if r < 0.08:
            return self.tall_cursor_item(rng.randint(1, 2 * nmax))
        if r < 0.40:
            return self.spy("rowspy", rng.randint(1, nmax))
        if r < 0.55:
            return self.spy("wrapspy", rng.randint(1, 4 * nmax))
        if r < 0.80:
            return self.text(rng.randint(1, nmax))
        return self.edit()

    def target_rows(self, h):
        """how many content rows to aim for relative to the view height"""
        rng = self.rng
        r = rng.random()
        if r < 0.15:
            return rng.randint(0, max(0, h - 1))
        if r < 0.25:
            return h
        if r < 0.40:
            return h + 1
        if r < 0.55:
            return h + rng.randint(2, 4)
        if r < 0.9:
            return rng.randint(h + 1, 3 * h + 6)
        return rng.randint(3 * h + 1, 45)

    def exact_line(self, n):
        """one unbroken unique word of exactly n columns"""
        k = self.word
        self.word += 1
        head = f"{chr(65 + k % 26)}{k}"
        return (head + "".join(chr(97 + (k + j) % 26) for j in range(max(0, n - len(head)))))[: max(1, n)]

    def content(self, kind, w, h, bw=1):
        rng = self.rng
        t = self.target_rows(h)
        self.flavor = None
        if kind == "LB" and rng.random() < 0.2:
            # relative mode (> 3*h items) with lines whose width sits right at the view width / the width beside the
            # bar: one row at one of the two widths, wrapped at the other
            self.flavor = "exactwidth"
            bar = max(1, bw)
            widths = [x for x in (w - bar - 1, w - bar, w - bar + 1, w - 1, w, w + 1) if x >= 1]
            pick = [rng.choice(widths)] if rng.random() < 0.6 else widths
            n = 3 * h + rng.randint(1, 6)
            items = [["text", [self.exact_line(rng.choice(pick))], rng.choice(["any", "space"]), "left"] for _ in range(n)]
            return ["listbox", items, rng.choice([0, 0, n - 1, rng.randrange(n)])]
        if kind == "LB" and rng.random() < 0.3:
            # few items (row mode), the focus item has a cursor and is taller than (a later, smaller) view
            items = [self.flow_item(3) for _ in range(rng.randint(0, 2))]
            fpos = rng.randint(0, len(items))
            items.insert(fpos, self.tall_cursor_item(rng.randint(h + 1, 2 * h + 6)))
            items += [self.flow_item(3) for _ in range(rng.randint(0, 2))]
            return ["listbox", items, fpos]
        if kind == "LB":
            items = []
            rows = 0
            while rows < t and len(items) < 40:
                it = self.flow_item(4)
                if rng.random() < 0.5:
                    it = self.spy("rowspy", 1)
                items.append(it)
                rows += it[2] if it[0] in ("rowspy", "cursorspy") else 2
            self.hostile_items(items)
            return ["listbox", items, rng.randrange(len(items)) if items else 0]
        r = rng.random()
        if r < 0.22:
            return self.text(max(1, t))
        if r < 0.42:
            return self.spy("rowspy", t)
        if r < 0.52:
            return self.spy("wrapspy", max(1, t * max(1, w - 1) - rng.randint(0, 2)))
        if r < 0.68:
            cols = rng.choice([1, 2, max(1, w - 1), w, w + 1, w + 5, rng.randint(1, 24)])
            return self.spy("fixedspy", t, cols)
        items = []
        rows = 0
        while (rows < t or not items) and len(items) < 12:
            it = self.flow_item(5)
            items.append(it)
            rows += it[2] if it[0] == "rowspy" else 2
        return ["pile", items, rng.randrange(len(items))]

    # ---- ops
    def size(self):
        rng = self.rng
        w = rng.choice([2, 3, 4, 5, 8, rng.randint(2, 20), rng.randint(2, 20)])
        h = rng.choice([1, 2, 3, rng.randint(1, 10), rng.randint(1, 10), rng.randint(1, 10)])
        return [w, h]

    def op(self, case_kind, ckind, w, h):
        rng = self.rng
        r = rng.random()
        if r < 0.30:
            return ["key", rng.choice(SCROLL_KEYS * 5 + OTHER_KEYS)]
        if r < 0.42:
            b = rng.choice([4, 5, 4, 5, 4, 5, 1, 1, 2, 0])
            ev = "mouse release" if b == 0 else rng.choice(["mouse press"] * 5 + ["mouse drag", "meta mouse press"])
            return ["mouse", ev, b, rng.randrange(w), rng.randrange(h)]
        if r < 0.58 and case_kind != "LB":
            c = rng.random()
            if c < 0.5:
                v = rng.randint(-4, 3 * h + 8)
            elif c < 0.75:
                v = rng.randint(-50, 50)
            else:
                v = rng.choice(HUGE)
            return ["setpos", v]
        if r < 0.63:
            return ["resize", *self.size()]
        if r < 0.66:
            return ["dive", rng.randint(1, 9), rng.randint(2, 20), rng.choice([1, 2, 2, 3, 3, 4, 5])]
        if r < 0.69:
            return ["focus", rng.random() < 0.6]
        if r < 0.73 and case_kind != "S":
            return ["bar", rng.choice(["left", "right"]), rng.randint(-3, 4)]
        if r < 0.77:
            return ["sweep", rng.choice(["pos", "keys", "wheel"]) if case_kind != "LB" else rng.choice(["keys", "wheel"])]
        if r < 0.83 and ckind in ("pile", "listbox"):
            if ckind == "listbox" and rng.random() < 0.3:
                return ["valign", rng.choice(["top", "middle", "bottom"])]
            return ["setfocus", rng.choice([rng.randrange(64), -1])]
        # content change
        if ckind == "text":
            return ["settext", -1, self.lines(rng.choice([1, 2, h, h + 1, rng.randint(1, 3 * h + 4)]))]
        if ckind in ("rowspy", "wrapspy"):
            return ["setrows", -1, rng.choice([0, 1, h - 1, h, h + 1, h + 2, rng.randint(0, 45)])]
        if ckind == "fixedspy":
            if rng.random() < 0.4:
                return ["setcols", rng.choice([1, w - 1, w, w + 1, rng.randint(1, 24)])]
            return ["setrows", -1, rng.choice([0, 1, h - 1, h, h + 1, h + 2, rng.randint(0, 45)])]
        c = rng.random()
        if c < 0.35:
            it = self.flow_item(4)
            return ["add", rng.randrange(64), it]
        if c < 0.6:
            return ["del", rng.randrange(64)]
        if c < 0.8:
            return ["setrows", rng.randrange(64), rng.randint(1, 6)]
        return ["settext", rng.randrange(64), self.lines(rng.randint(1, 5), 4)]

    def case(self, nops):
        rng = self.rng
        self.word = 0
        self.base = 0
        kind = rng.choice(["S", "S", "S", "SB", "SB", "SB", "SB", "LB", "LB"])
        w, h = self.size()
        wrap = {"kind": kind, "keep": rng.choice(["last", "last", "per_size"])}
        if kind != "S":
            wrap.update(
                side=rng.choice(["left", "right"]),
                bw=rng.choice([1, 1, 1, 2, 2, 3, 0, -1]),
                thumb=rng.choice(THUMBS),
                trough=rng.choice(TROUGHS),
                deco=rng.random() < 0.15,
            )
        if kind != "LB":
            wrap["ffk"] = rng.random() < 0.15
        else:
            wrap["walker"] = rng.choice(["focus", "focus", "simple", "offset1", "offset1000", "negative", "stride10", "str", "tuple"])
        content = self.content(kind, w, h, wrap.get("bw", 1))
        ops = [self.op(kind, content[0], w, h) for _ in range(nops)]
        if self.flavor == "exactwidth":  # drive it to the end first
            head = [["key", "page down"]] * rng.randint(1, 8) + [rng.choice([["key", "end"], ["setfocus", -1], ["key", "page down"]])]
            ops = head + ops[len(head) :]
        # keep w, h arguments of later ops in step with resizes (only used for biasing values)
        return {"content": content, "wrap": wrap, "size": [w, h], "focus": rng.random() < 0.7, "ops": ops}
