"""C09: JSON tree recipes -> real urwid widget trees around spy leaves; seeded recipe generator.

A recipe is a JSON-serialisable dict; `build(recipe, log)` constructs a fresh tree (no deepcopy) and
returns a Node tree that mirrors it (the harness's own record of the structure -- urwid is never
asked "who is your child", except `.focus` for the focus chain).
"""

from __future__ import annotations

import urwid

from vmon.monitors import c09_spies as S

# kinds whose move_cursor_to_coords exists (directly or by delegation): clause 3 applies only when
# the whole path root..leaf is made of these
CURSOR_MOVERS = {"Pile", "Columns", "Filler", "Padding", "BoxAdapter", "GridFlow", "AttrMap", "LineBox"}
LEAF_KINDS = {"spy", "Edit", "Icon", "Button", "CheckBox", "Empty", "same"}
MAX_LEAVES = 40


class Node:
    __slots__ = ("kind", "w", "children", "role", "recipe", "parent", "sid", "glyph", "target", "occurrences")

    def __init__(self, kind, w, recipe, children=(), role=None):
        self.kind = kind
        self.w = w
        self.recipe = recipe
        self.children = list(children)
        self.role = role
        self.parent = None
        self.sid = None
        self.glyph = None
        self.target = None  # for kind "same": the sibling Node whose widget object this position holds too
        self.occurrences = 1  # how many positions of the parent hold this node's widget object
        for c in self.children:
            c.parent = self

    def multiplicity(self):
        """how often the widget of this node is drawn: product of the occurrences of itself and of its ancestors"""
        m, n = 1, self
        while n is not None:
            m *= n.occurrences
            n = n.parent
        return m

    def is_leaf(self):
        return self.kind in LEAF_KINDS

    def walk(self):
        yield self
        for c in self.children:
            yield from c.walk()

    def leaves(self):
        # "Empty" (a Text("") that takes no room by design) draws nothing and is not a judged leaf
        # "same" is another occurrence of a sibling's widget OBJECT: its leaves are those of the sibling, counted once
        return [n for n in self.walk() if n.is_leaf() and n.kind not in ("Empty", "same")]

    def path_kinds(self):
        """kinds of the ancestors, root first (excluding self)"""
        out = []
        n = self.parent
        while n is not None:
            out.append(n)
            n = n.parent
        return out[::-1]


def _placeholder(w):
    """a non-selectable widget of the same sizing kind, to be replaced by assigning original_widget"""
    sz = w.sizing()
    if urwid.FLOW in sz or urwid.FIXED in sz:
        return urwid.Text("")
    return urwid.SolidFill(" ")


def _t(x):
    """JSON lists back to the tuples urwid's option parsers expect"""
    return tuple(x) if isinstance(x, list) else x


class Builder:
    def __init__(self, log):
        self.log = log
        self.n = 0

    def glyph(self):
        if self.n >= len(S.GLYPHS):
            raise ValueError("glyph pool exhausted")
        g = S.GLYPHS[self.n]
        self.n += 1
        return self.n - 1, g

    def build(self, r, role=None):
        k = r["k"]
        fn = getattr(self, "b_" + k)
        node = fn(r)
        node.role = role
        return node

    # ---- leaves
    def _leaf(self, r, w, sid, g):
        n = Node(r["k"], w, r)
        n.sid = sid
        n.glyph = g
        return n

    def b_spy(self, r):
        sid, g = self.glyph()
        cls = S.SPY_CLASSES[(r["mode"], bool(r.get("cp", True)))]
        w = cls(
            sid,
            g,
            self.log,
            selectable=r.get("sel", True),
            accept=r.get("acc", "all"),
            cursor=r.get("cur", (0, 0)),
            mret=r.get("mret", True),
            rows=r.get("rows", 1),
            cols=r.get("cols", 1),
            frows=r.get("frows", 0),
            fcols=r.get("fcols", 0),
            packw=r.get("packw", 0),
            fpackw=r.get("fpackw", 0),
        )
        return self._leaf(r, w, sid, g)

    def b_Edit(self, r):
        sid, g = self.glyph()
        text, mask, as_bytes = edit_text_of(r, g)
        w = S.SpyEdit(sid, g, self.log, r.get("cap", 0), r["len"], r.get("pos", 0), r.get("wrap", "any"), bool(r.get("capsp")), text, mask, as_bytes)
        return self._leaf(r, w, sid, g)

    def b_Empty(self, r):
        # an empty status field: packs to 0 columns, so a ('pack', ...) column holding it is hidden
        return Node("Empty", urwid.Text(""), r)

    def b_Icon(self, r):
        sid, g = self.glyph()
        return self._leaf(r, S.SpyIcon(sid, g, self.log, r["len"], r.get("cpos", 0)), sid, g)

    def b_Button(self, r):
        sid, g = self.glyph()
        return self._leaf(r, S.SpyButton(sid, g, self.log, r["len"]), sid, g)

    def b_CheckBox(self, r):
        sid, g = self.glyph()
        return self._leaf(r, S.SpyCheckBox(sid, g, self.log, r["len"], r.get("state", False)), sid, g)

    # ---- containers
    def _children(self, recipes):
        """build a list of sibling recipes; {"k": "same", "of": i} puts the widget OBJECT of sibling i at this position too"""
        nodes = [None if cr["k"] == "same" else self.build(cr) for cr in recipes]
        for i, cr in enumerate(recipes):
            if cr["k"] == "same":
                t = nodes[cr["of"]]
                a = Node("same", t.w, cr)
                a.target = t
                t.occurrences += 1
                nodes[i] = a
        return nodes

    def _items(self, items):
        nodes, args = [], []
        built = self._children([cr for _o, cr in items])
        for (opt, _cr), c in zip(items, built):
            nodes.append(c)
            if opt[0] == "plain":
                args.append(c.w)
            elif opt[0] == "pack":
                args.append(("pack", c.w))
            else:
                args.append((opt[0], opt[1], c.w))
        return nodes, args

    def b_Pile(self, r):
        nodes, args = self._items(r["items"])
        w = urwid.Pile(args, focus_item=r.get("focus"))
        return Node("Pile", w, r, nodes)

    def b_Columns(self, r):
        nodes, args = self._items(r["items"])
        w = urwid.Columns(
            args, dividechars=r.get("div", 0), focus_column=r.get("focus"), min_width=r.get("minw", 1), box_columns=r.get("box") or None
        )
        return Node("Columns", w, r, nodes)

    def b_Frame(self, r):
        body = self.build(r["body"], "body")
        kids = [body]
        hdr = ftr = None
        if r.get("header") is not None:
            hdr = self.build(r["header"], "header")
            kids.append(hdr)
        if r.get("footer") is not None:
            if r["footer"]["k"] == "same" and hdr is not None:
                ftr = Node("same", hdr.w, r["footer"])
                ftr.target = hdr
                ftr.role = "footer"
                hdr.occurrences += 1
            else:
                ftr = self.build(r["footer"], "footer")
            kids.append(ftr)
        w = urwid.Frame(body.w, hdr.w if hdr else None, ftr.w if ftr else None, focus_part=r.get("fp", "body"))
        return Node("Frame", w, r, kids)

    def b_Filler(self, r):
        c = self.build(r["c"])
        w = urwid.Filler(c.w, _t(r.get("valign", "middle")), _t(r.get("height", "pack")), r.get("minh"), r.get("top", 0), r.get("bottom", 0))
        return Node("Filler", w, r, [c])

    def b_Padding(self, r):
        c = self.build(r["c"])
        w = urwid.Padding(c.w, _t(r.get("align", "left")), _t(r.get("width", ["relative", 100])), r.get("minw"), r.get("left", 0), r.get("right", 0))
        return Node("Padding", w, r, [c])

    def b_Overlay(self, r):
        top = self.build(r["top"], "top")
        bot = self.build(r["bottom"], "bottom")
        w = urwid.Overlay(
            top.w,
            bot.w,
            _t(r["align"]),
            _t(r["width"]),
            _t(r["valign"]),
            _t(r["height"]),
            r.get("minw"),
            r.get("minh"),
            r.get("l", 0),
            r.get("r", 0),
            r.get("t", 0),
            r.get("b", 0),
        )
        return Node("Overlay", w, r, [top, bot])

    def b_BoxAdapter(self, r):
        c = self.build(r["c"])
        return Node("BoxAdapter", urwid.BoxAdapter(c.w, r["h"]), r, [c])

    def b_LineBox(self, r):
        c = self.build(r["c"])
        sides = r.get("sides", "tlrb")
        kw = {}
        if "t" not in sides:
            kw.update(tline="", tlcorner="", trcorner="")
        if "b" not in sides:
            kw.update(bline="", blcorner="", brcorner="")
        if "l" not in sides:
            kw.update(lline="", tlcorner="", blcorner="")
        if "r" not in sides:
            kw.update(rline="", trcorner="", brcorner="")
        if r.get("swap"):
            w = urwid.LineBox(_placeholder(c.w), title=r.get("title", ""), **kw)
            w.original_widget = c.w
        else:
            w = urwid.LineBox(c.w, title=r.get("title", ""), **kw)
        return Node("LineBox", w, r, [c])

    def b_AttrMap(self, r):
        c = self.build(r["c"])
        if r.get("swap"):
            w = urwid.AttrMap(_placeholder(c.w), "a", "f")
            w.original_widget = c.w
        else:
            w = urwid.AttrMap(c.w, "a", "f")
        return Node("AttrMap", w, r, [c])

    def b_GridFlow(self, r):
        cells = self._children(r["cells"])
        w = urwid.GridFlow([c.w for c in cells], r["cw"], r.get("hs", 0), r.get("vs", 0), _t(r.get("align", "left")))
        if r.get("focus") is not None and cells:
            w.focus_position = r["focus"]
        return Node("GridFlow", w, r, cells)

    def b_ListBox(self, r):
        items = self._children(r["items"])
        walker = (urwid.SimpleFocusListWalker if r.get("walker", "focus") == "focus" else urwid.SimpleListWalker)([c.w for c in items])
        w = urwid.ListBox(walker)
        if r.get("focus") is not None and items:
            w.set_focus(r["focus"])
        return Node("ListBox", w, r, items)

    def b_Scrollable(self, r):
        c = self.build(r["c"])
        return Node("Scrollable", urwid.Scrollable(c.w), r, [c])

    def b_ScrollBar(self, r):
        c = self.build(r["c"])
        return Node("ScrollBar", urwid.ScrollBar(c.w, side=r.get("side", "right"), width=r.get("w", 1)), r, [c])


TXT_PATTERNS = {
    "comb": ["e", "\u0301"],  # every second code point is zero-width
    "wide": ["\u6f22"],  # double-width characters
    "mixed": ["a", "\u0301", "\u6f22", "b", "\u0308", "\u0327"],
    "plain": ["x", "y", "z"],
}


def edit_text_of(r, glyph):
    """(real text | None, mask | None, bytes?) of an Edit recipe.  r['len'] is always the number of cells the edit text
    occupies on the canvas: code points (bytes for a bytes Edit) when masked, glyph characters otherwise."""
    as_bytes = bool(r.get("bytes")) and ord(glyph) < 128
    if r.get("mask"):
        pat = TXT_PATTERNS[r.get("txt", "plain")]
        n = r["len"]
        text = ""
        i = 0
        while True:
            ch = pat[i % len(pat)]
            if (len((text + ch).encode("utf-8")) if as_bytes else len(text + ch)) > n:
                break
            text += ch
            i += 1
        while (len(text.encode("utf-8")) if as_bytes else len(text)) < n:
            text += "q"
        return text, glyph, as_bytes
    if r.get("nl") is not None and r["len"] >= 2:
        k = max(1, min(r["len"] - 1, r["nl"]))
        return glyph * k + "\n" + glyph * (r["len"] - k), None, as_bytes
    return None, None, as_bytes


def build(recipe, log):
    return Builder(log).build(recipe)


def count_leaves(r) -> int:
    if r["k"] in LEAF_KINDS:
        return 1
    return sum(count_leaves(c) for c in children_of(r))


def children_of(r):
    k = r["k"]
    if k in ("Pile", "Columns"):
        return [c for _o, c in r["items"]]
    if k == "Frame":
        return [x for x in (r["body"], r.get("header"), r.get("footer")) if x is not None]
    if k == "Overlay":
        return [r["top"], r["bottom"]]
    if k == "GridFlow":
        return list(r["cells"])
    if k == "ListBox":
        return list(r["items"])
    if k in LEAF_KINDS:
        return []
    return [r["c"]]


def depth_of(r) -> int:
    cs = children_of(r)
    return 1 + max((depth_of(c) for c in cs), default=0) if cs else 0


def kinds_of(r, out=None):
    out = set() if out is None else out
    if r["k"] == "same":
        out.add("shared-widget-object")
        return out
    out.add(r["k"] if r["k"] != "spy" else "spy-" + r["mode"])
    if r["k"] == "spy":
        if r.get("frows"):
            out.add("focus-dependent-rows")
        if r.get("fcols") or r.get("fpackw"):
            out.add("focus-dependent-width")
    if r["k"] == "Edit":
        if r.get("mask"):
            out.add("Edit-masked-" + r.get("txt", "plain"))
        if r.get("nl") is not None:
            out.add("Edit-multiline")
        if r.get("bytes"):
            out.add("Edit-bytes")
        if r.get("cap", 0) >= 3:
            out.add("Edit-long-caption")
    if r["k"] in ("Pile", "Columns") and any(o[0] == "weight" and o[1] == 0 for o, _c in r["items"]):
        out.add(r["k"] + "-weight0")
    if r["k"] == "Padding" and isinstance(r.get("width"), int):
        out.add("Padding-given-width")
        if r.get("fixedw"):
            out.add("Padding-given-width-as-fixed")
    if r.get("swap"):
        out.add("decoration-child-replaced")
    if r["k"] == "Columns":
        z = [i for i, (_o, c) in enumerate(r["items"]) if c["k"] == "Empty"]
        if z:
            out.add("Columns-zero-width-column")
            if any(0 < i < len(r["items"]) - 1 for i in z) and r.get("div", 0) > 0:
                out.add("Columns-interior-zero-width-column-with-dividers")
    for c in children_of(r):
        kinds_of(c, out)
    return out


# ----------------------------------------------------------------------------- size estimate
def _ceil_div(a, b):
    return -(-a // b)


def _resolved(r):
    """shallow copy of a container recipe with its {"k": "same"} children replaced by the sibling recipes they repeat"""
    k = r["k"]
    if k in ("Pile", "Columns") and any(c["k"] == "same" for _o, c in r["items"]):
        sib = [c for _o, c in r["items"]]
        return dict(r, items=[[o, sib[c["of"]] if c["k"] == "same" else c] for o, c in r["items"]])
    if k == "GridFlow" and any(c["k"] == "same" for c in r["cells"]):
        return dict(r, cells=[r["cells"][c["of"]] if c["k"] == "same" else c for c in r["cells"]])
    if k == "ListBox" and any(c["k"] == "same" for c in r["items"]):
        return dict(r, items=[r["items"][c["of"]] if c["k"] == "same" else c for c in r["items"]])
    if k == "Frame" and (r.get("footer") or {}).get("k") == "same":
        return dict(r, footer=r.get("header"))
    return r


def need(r):
    """rough (cols, rows) at which the tree has a chance to satisfy the fit precondition; the
    precondition itself is established by observation, this only steers size choice"""
    r = _resolved(r)
    k = r["k"]
    if k == "spy":
        if r["mode"] == "flow":
            return max(1, r.get("packw", 0) + r.get("fpackw", 0)), r.get("rows", 1) + r.get("frows", 0)
        if r["mode"] == "fixed":
            return r.get("cols", 1) + r.get("fcols", 0), r.get("rows", 1) + r.get("frows", 0)
        return 1, 1
    if k == "Edit":
        total = r.get("cap", 0) + r["len"] + 2
        if r.get("wh"):
            return r["wh"], _ceil_div(total, r["wh"]) + 1
        return total - 1, 1
    if k == "Empty":
        return 0, 1
    if k == "Icon":
        return max(1, r["len"]), 1
    if k in ("Button", "CheckBox"):
        return r["len"] + 4, 1
    if k == "Pile":
        cols = rows = 0
        nw = 0
        wmax = 0
        for opt, c in r["items"]:
            cc, cr = need(c)
            cols = max(cols, cc)
            if opt[0] == "given":
                rows += opt[1]
            elif opt[0] == "weight" and c_is_box(c):
                nw += 1
                wmax = max(wmax, cr)
            else:
                rows += cr
        return cols, rows + nw * wmax
    if k == "Columns":
        cols = rows = 0
        nw = 0
        wmax = 0
        for opt, c in r["items"]:
            cc, cr = need(c)
            rows = max(rows, cr)
            if opt[0] == "given":
                cols += opt[1]
            elif opt[0] == "pack":
                cols += cc
            else:
                nw += 1
                wmax = max(wmax, cc)
        n = len(r["items"])
        return cols + nw * wmax + r.get("div", 0) * (n - 1), rows
    if k == "Frame":
        cols = rows = 0
        for c in children_of(r):
            cc, cr = need(c)
            cols = max(cols, cc)
            rows += cr
        return cols, rows
    if k == "Filler":
        cc, cr = need(r["c"])
        h = r.get("height", "pack")
        if isinstance(h, int):
            cr = h
        elif isinstance(h, list):
            cr = _ceil_div(cr * 100, max(1, h[1]))
        return cc, max(cr, r.get("minh") or 0) + r.get("top", 0) + r.get("bottom", 0)
    if k == "Padding":
        cc, cr = need(r["c"])
        wd = r.get("width", ["relative", 100])
        if isinstance(wd, int):
            cc = wd
        elif isinstance(wd, list):
            cc = _ceil_div(cc * 100, max(1, wd[1]))
        return max(cc, r.get("minw") or 0) + r.get("left", 0) + r.get("right", 0), cr
    if k == "Overlay":
        tc, tr = need(r["top"])
        bc, br = need(r["bottom"])
        if isinstance(r["width"], int):
            tc = r["width"]
        elif isinstance(r["width"], list):
            tc = _ceil_div(tc * 100, max(1, r["width"][1]))
        if isinstance(r["height"], int):
            tr = r["height"]
        elif isinstance(r["height"], list):
            tr = _ceil_div(tr * 100, max(1, r["height"][1]))
        return max(tc + r.get("l", 0) + r.get("r", 0) + 2, bc), max(tr + r.get("t", 0) + r.get("b", 0) + 2, br)
    if k == "BoxAdapter":
        return need(r["c"])[0], r["h"]
    if k == "LineBox":
        cc, cr = need(r["c"])
        s = r.get("sides", "tlrb")
        return cc + ("l" in s) + ("r" in s), cr + ("t" in s) + ("b" in s)
    if k == "AttrMap":
        return need(r["c"])
    if k == "GridFlow":
        n = max(1, len(r["cells"]))
        per = r.get("per_row", n)
        cols = r["cw"] * per + r.get("hs", 0) * (per - 1)
        rows_each = max((need(c)[1] for c in r["cells"]), default=1)
        nrows = _ceil_div(n, per)
        return cols, rows_each * nrows + r.get("vs", 0) * (nrows - 1)
    if k == "ListBox":
        cols = rows = 0
        for c in r["items"]:
            cc, cr = need(c)
            cols = max(cols, cc)
            rows += cr
        return cols, max(1, rows)
    if k == "Scrollable":
        return need(r["c"])
    if k == "ScrollBar":
        cc, cr = need(r["c"])
        return cc + r.get("w", 1), cr
    raise ValueError(k)


BOX_KINDS = {"Filler", "Frame", "Overlay", "ListBox", "Scrollable", "ScrollBar"}


def c_is_box(r) -> bool:
    """does the recipe describe a widget used as a box widget (only a steering hint)"""
    k = r["k"]
    if k == "spy":
        return r["mode"] == "box"
    if k in BOX_KINDS:
        return True
    return bool(r.get("_box"))


# ----------------------------------------------------------------------------- generator
class Gen:
    def __init__(self, rng, max_depth, scroll=True):
        self.rng = rng
        self.max_depth = max_depth
        self.leaves = 0
        self.scroll = scroll

    # -- leaves
    def spy(self, mode):
        rng = self.rng
        cp = rng.random() < 0.8
        r = {
            "k": "spy",
            "mode": mode,
            "cp": cp,
            "sel": rng.random() < (0.85 if cp else 0.5),
            "acc": rng.choice(S.ACCEPT_KINDS) if rng.random() < 0.6 else "all",
            "cur": None if rng.random() < 0.15 else [rng.randint(0, 3), rng.randint(0, 2)],
            "mret": rng.random() < 0.6,
        }
        if mode == "flow":
            r["rows"] = rng.choice([1, 1, 2, 2, 3, 4])
        elif mode == "fixed":
            r["rows"] = rng.choice([1, 1, 2, 3])
            r["cols"] = rng.choice([1, 2, 3, 4, 6])
        # geometry that depends on the focus ARGUMENT (rows(size, focus) / pack(size, focus) may legitimately do so)
        x = rng.random()
        if mode == "flow" and x < 0.22:
            r["frows"] = rng.choice([1, 1, 2, 3])
            r["sel"] = True
        elif mode == "flow" and x < 0.30:
            r["packw"] = rng.randint(1, 5)
            r["fpackw"] = rng.choice([1, 2, 3])
            r["sel"] = True
        elif mode == "fixed" and x < 0.30:
            r["fcols"] = rng.choice([0, 1, 2])
            r["frows"] = rng.choice([0, 1]) if r["fcols"] else 1
            r["sel"] = True
        return r

    def leaf(self, mode):
        self.leaves += 1
        rng = self.rng
        if mode != "flow" or rng.random() < 0.55:
            return self.spy(mode)
        x = rng.random()
        if x < 0.4:
            n = rng.randint(0, 7)
            cap = rng.choice([0, 0, 1, 2, 3, 5, 7, 9, 12, 16])
            r = {"k": "Edit", "cap": cap, "len": n, "pos": rng.randint(0, n), "wrap": rng.choice(["any", "any", "clip", "space", "space"])}
            y = rng.random()
            if y < 0.3 and n >= 2:
                # masked: the real text (combining marks / wide characters) is hidden behind mask == glyph
                r["mask"] = True
                r["txt"] = rng.choice(["comb", "comb", "wide", "mixed", "plain"])
                r["len"] = n = rng.randint(2, 14)
                r["pos"] = rng.choice([0, n])
                r["wh"] = rng.choice([n + cap + 2, max(2, n // 2), max(2, n // 3), 3, 4, 5])
            elif y < 0.42 and n >= 2:
                r["nl"] = rng.randint(1, n - 1)  # explicit newline inside the (unmasked) text
            if rng.random() < 0.15:
                r["bytes"] = True
                r["pos"] = rng.choice([0, n])
            if cap >= 3 and "wh" not in r:
                # captions that wrap at the width the Edit gets: longer than the line, exactly filling it, one short of it
                r["capsp"] = rng.random() < 0.5  # caption ends in a blank (word wrapping then leaves caption-only rows)
                r["wh"] = rng.choice([cap + n + 2, cap + 1, cap, cap, cap - 1, max(2, cap // 2), max(2, cap // 3)])
            return r
        if x < 0.6:
            n = rng.randint(1, 5)
            return {"k": "Icon", "len": n, "cpos": rng.randint(0, n)}
        if x < 0.8:
            return {"k": "Button", "len": rng.randint(1, 4)}
        return {"k": "CheckBox", "len": rng.randint(1, 4), "state": rng.random() < 0.5}

    # -- option helpers
    def valign(self):
        rng = self.rng
        return rng.choice(["top", "middle", "bottom", ["relative", rng.choice([0, 25, 50, 70, 100])]])

    def align(self):
        rng = self.rng
        return rng.choice(["left", "center", "right", ["relative", rng.choice([0, 30, 50, 80, 100])]])

    # -- trees
    def tree(self, mode, depth=None):
        depth = self.max_depth if depth is None else depth
        rng = self.rng
        if depth <= 0 or self.leaves >= MAX_LEAVES - 4 or rng.random() < 0.12:
            return self.leaf(mode)
        if mode == "box":
            kinds = ["Filler", "Filler", "Pile", "Columns", "Frame", "Overlay", "ListBox", "Padding", "LineBox", "AttrMap"]
            if self.scroll:
                kinds += ["ScrollBar", "Scrollable"]
        elif mode == "flow":
            kinds = ["Pile", "Pile", "Columns", "Columns", "Padding", "LineBox", "AttrMap", "BoxAdapter", "GridFlow", "Filler", "Overlay"]
        else:
            kinds = ["AttrMap", "Pile", "Columns", "Padding", "Overlay"]
        k = rng.choice(kinds)
        r = getattr(self, "g_" + k)(mode, depth - 1)
        if mode == "box":
            r["_box"] = True
        return r

    def swap(self, r):
        # the decoration is first built around a non-selectable placeholder, then original_widget is assigned (a mutation)
        if self.rng.random() < 0.15:
            r["swap"] = True
        return r

    def g_AttrMap(self, mode, d):
        return self.swap({"k": "AttrMap", "c": self.tree(mode, d)})

    def g_LineBox(self, mode, d):
        rng = self.rng
        sides = "tlrb" if rng.random() < 0.6 else "".join(s for s in "tlrb" if rng.random() < 0.6)
        return self.swap({"k": "LineBox", "c": self.tree(mode, d), "sides": sides, "title": rng.choice(["", "", "X", "XX"]) if "t" in sides else ""})

    def g_Filler(self, mode, d):
        rng = self.rng
        r = {"k": "Filler", "valign": self.valign(), "top": rng.choice([0, 0, 1, 2]), "bottom": rng.choice([0, 0, 1, 3])}
        x = rng.random()
        if mode == "flow":
            # a Filler is also a flow widget when its height is 'pack' or given
            x = 0.0 if x < 0.6 else 0.7
        if x < 0.55:
            r["c"] = self.tree("flow", d)
            r["height"] = "pack"
        elif x < 0.8:
            r["c"] = self.tree("box", d)
            r["height"] = rng.randint(1, 6)
        else:
            r["c"] = self.tree("box", d)
            r["height"] = ["relative", rng.choice([30, 50, 75, 100])]
            if rng.random() < 0.4:
                r["minh"] = rng.randint(1, 4)
        return r

    def g_Padding(self, mode, d):
        rng = self.rng
        r = {"k": "Padding", "align": self.align(), "left": rng.choice([0, 0, 1, 2]), "right": rng.choice([0, 0, 1, 3])}
        x = rng.random()
        if mode == "fixed":
            if x < 0.4:
                # a given width makes the Padding a fixed widget around a flow child rendered at (width,)
                r["c"] = self.tree("flow", d)
                r["width"] = max(need(r["c"])[0], rng.randint(1, 10))
                r["fixedw"] = True  # marker only: this Padding is meant to be used at size ()
            else:
                r["c"] = self.tree("fixed", d)
                r["width"] = "pack"
            return r
        if mode == "flow" and x < 0.12:
            r["c"] = self.tree("fixed", d)
            r["width"] = rng.choice(["pack", "clip"])
            return r
        r["c"] = self.tree(mode, d)
        if x < 0.45:
            r["width"] = ["relative", rng.choice([40, 60, 80, 100])]
            if rng.random() < 0.3:
                r["minw"] = rng.randint(1, 5)
        elif x < 0.8:
            r["width"] = rng.randint(1, 12)
        else:
            r["width"] = "pack"
        return r

    def g_BoxAdapter(self, mode, d):
        return {"k": "BoxAdapter", "c": self.tree("box", d), "h": self.rng.randint(1, 6)}

    def g_Pile(self, mode, d):
        rng = self.rng
        n = rng.randint(1, 4)
        items = []
        for _ in range(n):
            x = rng.random()
            if mode == "fixed":
                items.append([["pack"], self.tree("fixed", d)])
            elif mode == "flow":
                if x < 0.2:
                    items.append([["given", rng.randint(1, 4)], self.tree("box", d)])
                elif x < 0.6:
                    items.append([["pack"], self.tree("flow", d)])
                elif x < 0.8:
                    items.append([["plain"], self.tree("flow", d)])
                else:
                    items.append([["weight", rng.choice([0, 0, 1, 1, 2, 3])], self.tree("flow", d)])  # weight 0 is documented; a flow item keeps its natural height
            else:
                if x < 0.25:
                    items.append([["given", rng.randint(1, 4)], self.tree("box", d)])
                elif x < 0.55:
                    items.append([["pack"], self.tree("flow", d)])
                elif x < 0.8:
                    items.append([["weight", rng.choice([0, 1, 1, 1, 2, 2, 3, 3])], self.tree("box", d)])
                else:
                    items.append([["plain"], self.tree("box", d)])
        if mode == "box" and not any(o[0] in ("weight", "plain") for o, _c in items):
            items.append([["weight", 1], self.tree("box", d)])
        self.share(items, mode)
        return {"k": "Pile", "items": items, "focus": rng.randrange(len(items)) if rng.random() < 0.7 else None}

    def share(self, items, mode, p=0.12):
        """with probability p put the widget OBJECT of one of the items at one or two further positions (same option)"""
        rng = self.rng
        cand = [i for i, (_o, c) in enumerate(items) if c["k"] not in ("Empty", "same")]
        if not cand or rng.random() >= p:
            return
        t = rng.choice(cand)
        for _ in range(rng.choice([1, 1, 2])):
            items.append([list(items[t][0]), {"k": "same", "of": t}])
            if rng.random() < 0.3 and mode != "fixed":
                # and sometimes something else in between / after
                items.append([["pack"] if mode != "box" else ["given", 1], self.leaf("flow" if mode != "box" else "box")])

    def g_Columns(self, mode, d):
        rng = self.rng
        n = rng.randint(1, 4)
        items = []
        box = []
        for i in range(n):
            x = rng.random()
            if mode == "fixed":
                items.append([["pack"], self.tree("fixed", d)])
                continue
            if x < 0.25:
                opt = ["given", rng.randint(1, 10)]
            elif x < 0.65:
                opt = ["weight", rng.choice([0, 1, 1, 1, 1, 2, 2, 2, 3, 3, 3])]
            elif x < 0.8:
                opt = ["plain"]
            else:
                opt = ["pack"]
            y = rng.random()
            if opt[0] == "pack":
                child = self.tree("fixed" if y < 0.5 else "flow", d)
            elif mode == "box":
                child = self.tree("box" if y < 0.7 else "flow", d)
            elif y < 0.2:
                child = self.tree("box", d)
                box.append(i)
            else:
                child = self.tree("flow", d)
            items.append([opt, child])
        if mode == "flow" and len(box) == len(items):
            items.append([["weight", 1], self.tree("flow", d)])
        if mode != "fixed" and rng.random() < 0.22:
            # zero-width columns (an empty status field that packs to nothing, or ('given', 0)) at any position
            for _ in range(rng.choice([1, 1, 2])):
                at = rng.randint(0, len(items))
                items.insert(at, [rng.choice([["pack"], ["pack"], ["given", 0]]), {"k": "Empty"}])
                box = [b + 1 if b >= at else b for b in box]
        self.share(items, mode)
        box = box + [i for i, (_o, c) in enumerate(items) if c["k"] == "same" and c["of"] in box]
        return {
            "k": "Columns",
            "items": items,
            "div": rng.choice([0, 0, 1, 1, 2, 3]),
            "focus": rng.choice([i for i, (_o, c) in enumerate(items) if c["k"] != "Empty"]) if rng.random() < 0.7 else None,
            "box": box,
            "minw": rng.choice([1, 1, 1, 2, 3]),
        }

    def g_Frame(self, mode, d):
        rng = self.rng
        r = {"k": "Frame", "body": self.tree("box", d), "header": None, "footer": None}
        parts = ["body"]
        if rng.random() < 0.6:
            r["header"] = self.tree("flow", d)
            parts.append("header")
        if r["header"] is not None and rng.random() < 0.12:
            r["footer"] = {"k": "same", "of": "header"}  # Frame(header=w, footer=w): the same object twice
            parts.append("footer")
        elif rng.random() < 0.6:
            r["footer"] = self.tree("flow", d)
            parts.append("footer")
        r["fp"] = rng.choice(parts)
        return r

    def g_Overlay(self, mode, d):
        rng = self.rng
        r = {
            "k": "Overlay",
            "bottom": self.tree("box", d),
            "align": self.align(),
            "valign": self.valign(),
            "l": rng.choice([0, 0, 1]),
            "r": rng.choice([0, 0, 2]),
            "t": rng.choice([0, 0, 1]),
            "b": rng.choice([0, 0, 2]),
        }
        x = rng.random()
        if mode == "flow":
            # an Overlay is a flow widget when its height follows from the top widget: flow top + 'pack', or box top + given height
            if x < 0.65:
                r["top"] = self.tree("flow", d)
                r["width"] = rng.choice([rng.randint(1, 10), ["relative", rng.choice([40, 60, 90])]])
                r["height"] = "pack"
            else:
                r["top"] = self.tree("box", d)
                r["width"] = rng.choice([rng.randint(1, 10), ["relative", rng.choice([40, 60, 90])]])
                r["height"] = rng.randint(1, 5)
            if rng.random() < 0.2:
                r["minw"] = rng.randint(1, 6)
            return r
        if mode == "fixed":
            # ... and a fixed widget when its width follows too: fixed top + 'pack'/'pack', or a given width
            if x < 0.4:
                r["top"] = self.tree("fixed", d)
                r["width"] = "pack"
                r["height"] = "pack"
            elif x < 0.75:
                r["top"] = self.tree("flow", d)
                r["width"] = rng.randint(2, 10)
                r["height"] = "pack"
            else:
                r["top"] = self.tree("box", d)
                r["width"] = rng.randint(2, 10)
                r["height"] = rng.randint(1, 5)
            return r
        if x < 0.4:
            r["top"] = self.tree("box", d)
            r["width"] = rng.choice([rng.randint(1, 10), ["relative", rng.choice([40, 60, 90])]])
            r["height"] = rng.choice([rng.randint(1, 6), ["relative", rng.choice([40, 60, 90])]])
        elif x < 0.8:
            r["top"] = self.tree("flow", d)
            r["width"] = rng.choice([rng.randint(1, 10), ["relative", rng.choice([40, 60, 90])]])
            r["height"] = "pack"
        else:
            r["top"] = self.tree("fixed", d)
            r["width"] = "pack"
            r["height"] = "pack"
        if rng.random() < 0.2 and r["width"] != "pack":
            r["minw"] = rng.randint(1, 6)
        if rng.random() < 0.2 and r["height"] != "pack":
            r["minh"] = rng.randint(1, 4)
        return r

    def g_GridFlow(self, mode, d):
        rng = self.rng
        n = rng.randint(1, 6)
        cells = [self.tree("flow", min(d, 1)) for _ in range(n)]
        cw = max([need(c)[0] for c in cells] + [rng.randint(1, 8)])
        if rng.random() < 0.15:
            t = rng.randrange(n)
            for _ in range(rng.choice([1, 2])):
                cells.append({"k": "same", "of": t})
            n = len(cells)
        return {
            "k": "GridFlow",
            "cells": cells,
            "cw": cw,
            "hs": rng.choice([0, 1, 2]),
            "vs": rng.choice([0, 0, 1]),
            "align": self.align(),
            "focus": rng.randrange(n) if rng.random() < 0.6 else None,
            "per_row": rng.randint(1, n),
        }

    def g_ListBox(self, mode, d):
        rng = self.rng
        n = rng.randint(1, 5)
        items = [self.tree("flow", d) for _ in range(n)]
        if rng.random() < 0.12:
            t = rng.randrange(n)
            for _ in range(rng.choice([1, 2])):
                items.append({"k": "same", "of": t})
            n = len(items)
        return {"k": "ListBox", "items": items, "focus": rng.randrange(n) if rng.random() < 0.6 else None, "walker": rng.choice(["focus", "simple"])}

    def g_Scrollable(self, mode, d):
        return {"k": "Scrollable", "c": self.tree("flow" if self.rng.random() < 0.85 else "fixed", d)}

    def g_ScrollBar(self, mode, d):
        rng = self.rng
        inner = self.g_Scrollable(mode, d) if rng.random() < 0.7 else self.g_ListBox(mode, d)
        inner["_box"] = True
        return {"k": "ScrollBar", "c": inner, "side": rng.choice(["left", "right"]), "w": rng.choice([1, 1, 2])}


def root_size(rng, recipe, mode):
    """a size for the root: estimate + slack (the precondition is then established by observation)"""
    c, r = need(recipe)
    slack_c = rng.choice([0, 0, 1, 2, 3, 5, 8])
    slack_r = rng.choice([0, 0, 1, 2, 3, 5])
    c = min(max(1, c + slack_c), 60)
    r = min(max(1, r + slack_r), 40)
    if mode == "box":
        return [c, r]
    if mode == "flow":
        return [c]
    return []
