"""Widget-tree recipes with public mutators, for the C06 cache-invisibility histories.

A recipe is a JSON-serialisable dict; build(recipe) makes a fresh urwid widget tree (trees are
always rebuilt from recipes, never deep-copied).  children(widget) walks a live tree;
mutations(rng, widget) proposes one public-mutator call for that widget as a JSON op and
apply_mutation(widget, op) performs it.
"""

from __future__ import annotations

WORDS = ["alpha", "be", "gamma delta", "x", "lorem ipsum dolor", "漢字 kanji", "né", "a\nb", "", "0123456789012345678901234567", "\n".join(f"line {i}" for i in range(12))]
ATTRS = [None, "a", "b", "hi"]
ALIGN = ["left", "center", "right"]
WRAP = ["space", "any", "clip", "ellipsis"]
VALIGN = ["top", "middle", "bottom"]


def text_of(rng):
    return rng.choice(WORDS) + (" " + rng.choice(WORDS) if rng.random() < 0.4 else "")


def gen_flow_leaf(rng):
    r = rng.random()
    if r < 0.3:
        return {"t": "Text", "text": text_of(rng), "align": rng.choice(ALIGN), "wrap": rng.choice(WRAP)}
    if r < 0.55:
        return {
            "t": "Edit",
            "caption": rng.choice(["", "c:", "Name "]),
            "text": text_of(rng).replace("\n", ""),
            "multiline": rng.random() < 0.3,
            "align": rng.choice(ALIGN),
            "wrap": rng.choice(WRAP[:3]),
            "pos": rng.choice([None, 0, 1, 3]),
        }
    if r < 0.65:
        return {"t": "CheckBox", "label": text_of(rng).replace("\n", " "), "state": rng.random() < 0.5}
    if r < 0.72:
        return {"t": "Button", "label": rng.choice(["ok", "cancel", "a longer label"])}
    if r < 0.8:
        return {"t": "ProgressBar", "cur": rng.randint(0, 100)}
    if r < 0.86:
        return {"t": "Divider", "ch": rng.choice([" ", "-", "─"])}
    if r < 0.93:
        return {"t": "SelectableIcon", "text": rng.choice(["*", "icon", "[x]"]), "cpos": rng.choice([0, 1])}
    if r < 0.95:
        return {"t": "IntEdit", "caption": "n=", "val": rng.choice([0, 7, 123])}
    if r < 0.98:
        return {"t": "Expander", "title": rng.choice(["item", "more"]), "details": rng.choice([["d1"], ["d1", "d2"], []])}
    return {"t": "NoCacheText", "text": text_of(rng)}


_NOCACHE = {}
_LAYOUTS = {}


def layout_object(kind):
    """"std": a fresh StandardTextLayout; "mirror": a layout that lays left-aligned text out right-aligned and
    vice versa (a user-defined TextLayout in the documented sense: same interface, different result)"""
    from urwid import text_layout

    if kind == "std":
        return text_layout.StandardTextLayout()
    if "mirror" not in _LAYOUTS:

        class MirrorLayout(text_layout.StandardTextLayout):
            def layout(self, text, width, align, wrap):
                flip = {"left": "right", "right": "left"}
                a = getattr(align, "value", align)
                return super().layout(text, width, flip.get(a, a), wrap)

        _LAYOUTS["mirror"] = MirrorLayout
    return _LAYOUTS["mirror"]()


def expander_class():
    """a user flow widget that shows its detail lines only while it has the focus (rows() depends on focus)"""
    import urwid

    if "exp" not in _NOCACHE:

        class Expander(urwid.Widget):
            _sizing = frozenset([urwid.FLOW])
            _selectable = True

            def __init__(self, title, details):
                super().__init__()
                self.title = title
                self.details = list(details)

            def _lines(self, focus):
                return [self.title, *self.details] if focus else [self.title]

            def rows(self, size, focus=False):
                return len(self._lines(focus))

            def render(self, size, focus=False):
                (maxcol,) = size
                lines = [line.encode("ascii", "replace")[:maxcol].ljust(maxcol) for line in self._lines(focus)]
                return urwid.TextCanvas(lines, maxcol=maxcol)

            def keypress(self, size, key):
                return key

            def set_details(self, details):
                self.details = list(details)
                self._invalidate()

            def set_title(self, title):
                self.title = title
                self._invalidate()

        _NOCACHE["exp"] = Expander
    return _NOCACHE["exp"]


def nocache_text_class():
    """a user-style widget whose render is never cached (documented `no_cache` class attribute)"""
    if "cls" not in _NOCACHE:
        import urwid

        class NoCacheText(urwid.Text):
            no_cache = ["render"]  # noqa: RUF012

            def render(self, size, focus=False):
                return urwid.Text.render.original_fn(self, size, focus)

        _NOCACHE["cls"] = NoCacheText
    return _NOCACHE["cls"]


def gen_flow(rng, depth):
    if depth <= 0 or rng.random() < 0.3:
        return gen_flow_leaf(rng)
    r = rng.random()
    d = depth - 1
    if r < 0.25:
        items = []
        for _ in range(rng.randint(1, 4)):
            if rng.random() < 0.15:
                items.append(["given", rng.randint(1, 3), gen_box(rng, d)])
            elif rng.random() < 0.08:
                items.append(["pack", None, {"t": "Pile", "items": [], "focus": 0}])  # empty: 0 rows
            else:
                items.append(["pack", None, gen_flow(rng, d)])
        return {"t": "Pile", "items": items, "focus": rng.randrange(len(items))}
    if r < 0.45:
        items = []
        n = rng.randint(1, 3)
        for _ in range(n):
            k = rng.random()
            if k < 0.6:
                items.append(["weight", rng.randint(1, 3), gen_flow(rng, d)])
            elif k < 0.85:
                items.append(["given", rng.randint(3, 9), gen_flow(rng, d)])
            else:
                items.append(["pack", None, {"t": "Text", "text": rng.choice(["ab", "x", "pack"]), "align": "left", "wrap": "space"}])
        return {"t": "Columns", "items": items, "div": rng.randint(0, 2), "focus": rng.randrange(n), "min_width": rng.randint(1, 2)}
    if r < 0.55:
        cells = [gen_flow_leaf(rng) for _ in range(rng.randint(1, 5))]
        return {"t": "GridFlow", "cells": cells, "cw": rng.randint(3, 9), "hs": rng.randint(0, 2), "vs": rng.randint(0, 1), "align": rng.choice(ALIGN)}
    if r < 0.68:
        return {"t": rng.choice(["AttrMap", "AttrMap", "AttrWrap"]), "w": gen_flow(rng, d), "am": rng.choice(ATTRS), "fm": rng.choice(ATTRS)}
    if r < 0.8:
        width = rng.choice([["relative", rng.choice([50, 80, 100])], ["relative", 100], rng.randint(4, 12)])
        return {"t": "Padding", "w": gen_flow(rng, d), "align": rng.choice(ALIGN), "width": width, "left": rng.randint(0, 2), "right": rng.randint(0, 2)}
    if r < 0.9:
        return {"t": "LineBox", "w": gen_flow(rng, d), "title": rng.choice(["", "T", "title"])}
    if r < 0.95:
        return {"t": "BoxAdapter", "w": gen_box(rng, d), "h": rng.randint(1, 4)}
    return {"t": "WidgetPlaceholder", "w": gen_flow(rng, d)}


def gen_box(rng, depth):
    if depth <= 0 or rng.random() < 0.2:
        if rng.random() < 0.3:
            return {"t": "SolidFill", "ch": rng.choice(["#", ".", " "])}
        return {"t": "Filler", "w": gen_flow_leaf(rng), "valign": rng.choice(VALIGN)}
    r = rng.random()
    d = depth - 1
    if r < 0.25:
        items = [gen_flow(rng, d) for _ in range(rng.randint(0, 6))]
        return {"t": "ListBox", "items": items, "walker": rng.choice(["simple", "focus"]), "focus": rng.randrange(len(items)) if items else None}
    if r < 0.4:
        return {
            "t": "Frame",
            "body": gen_box(rng, d),
            "header": gen_flow(rng, 0) if rng.random() < 0.6 else None,
            "footer": gen_flow(rng, 0) if rng.random() < 0.6 else None,
            "focus": rng.choice(["body", "body", "header", "footer"]),
        }
    if r < 0.5:
        topflow = rng.random() < 0.5
        return {
            "t": "Overlay",
            "top": gen_flow(rng, d) if topflow else gen_box(rng, d),
            "bottom": gen_box(rng, d),
            "align": rng.choice(ALIGN),
            "width": rng.choice([["relative", 60], rng.randint(4, 10)]),
            "valign": rng.choice(VALIGN),
            "height": "pack" if topflow else rng.choice([["relative", 50], rng.randint(1, 4)]),
        }
    if r < 0.65:
        items = []
        for _ in range(rng.randint(1, 4)):
            if rng.random() < 0.5:
                items.append(["weight", rng.randint(1, 2), gen_box(rng, d)])
            else:
                items.append(["pack", None, gen_flow(rng, d)])
        if not any(i[0] == "weight" for i in items):
            items.append(["weight", 1, gen_box(rng, d)])
        return {"t": "Pile", "items": items, "focus": rng.randrange(len(items))}
    if r < 0.75:
        n = rng.randint(1, 3)
        items = [[rng.choice(["weight", "weight", "given"]), rng.randint(2, 8), gen_box(rng, d)] for _ in range(n)]
        return {"t": "Columns", "items": items, "div": rng.randint(0, 1), "focus": rng.randrange(n), "min_width": 1}
    if r < 0.82:
        return {"t": rng.choice(["AttrMap", "AttrMap", "AttrWrap"]), "w": gen_box(rng, d), "am": rng.choice(ATTRS), "fm": rng.choice(ATTRS)}
    if r < 0.88:
        return {"t": "Padding", "w": gen_box(rng, d), "align": rng.choice(ALIGN), "width": ["relative", rng.choice([60, 100])], "left": rng.randint(0, 1), "right": rng.randint(0, 1)}
    if r < 0.93:
        return {"t": "LineBox", "w": gen_box(rng, d), "title": rng.choice(["", "box"])}
    if r < 0.97:
        return {"t": "Scrollable", "w": gen_flow(rng, d), "pos": rng.randint(0, 3)}
    return {"t": "Filler", "w": gen_flow(rng, d), "valign": rng.choice(VALIGN)}


def gen_tree(rng, kind, depth):
    return gen_flow(rng, depth) if kind == "flow" else gen_box(rng, depth)


# ---------------------------------------------------------------- build


def _opt(kind, n):
    return (kind, n)


def build(r):
    import urwid

    t = r["t"]
    if t == "Text":
        return urwid.Text(r["text"], align=r["align"], wrap=r["wrap"])
    if t == "NoCacheText":
        return nocache_text_class()(r["text"])
    if t == "Expander":
        return expander_class()(r["title"], r["details"])
    if t == "Edit":
        w = urwid.Edit(r["caption"], r["text"], multiline=r["multiline"], align=r["align"], wrap=r["wrap"])
        if r.get("pos") is not None:
            w.set_edit_pos(r["pos"])
        return w
    if t == "IntEdit":
        return urwid.IntEdit(r["caption"], r["val"])
    if t == "CheckBox":
        return urwid.CheckBox(r["label"], r["state"])
    if t == "Button":
        return urwid.Button(r["label"])
    if t == "ProgressBar":
        return urwid.ProgressBar("pn", "pc", r["cur"], 100)
    if t == "Divider":
        return urwid.Divider(r["ch"])
    if t == "SelectableIcon":
        return urwid.SelectableIcon(r["text"], r["cpos"])
    if t == "SolidFill":
        return urwid.SolidFill(r["ch"])
    if t == "Pile":
        items = [((k, n, build(w)) if k == "weight" else ((n, build(w)) if k == "given" else ("pack", build(w)))) for k, n, w in r["items"]]
        return urwid.Pile(items, focus_item=r.get("focus") or 0)
    if t == "Columns":
        items = [((k, n, build(w)) if k == "weight" else ((n, build(w)) if k == "given" else ("pack", build(w)))) for k, n, w in r["items"]]
        return urwid.Columns(items, dividechars=r["div"], focus_column=r.get("focus") or 0, min_width=r.get("min_width", 1))
    if t == "GridFlow":
        return urwid.GridFlow([build(c) for c in r["cells"]], r["cw"], r["hs"], r["vs"], r["align"])
    if t == "AttrMap":
        return urwid.AttrMap(build(r["w"]), r["am"], r["fm"])
    if t == "AttrWrap":
        # the older interface to the same widget (attr / focus_attr / w setters)
        return urwid.AttrWrap(build(r["w"]), r["am"], r["fm"])
    if t == "Padding":
        width = tuple(r["width"]) if isinstance(r["width"], list) else r["width"]
        return urwid.Padding(build(r["w"]), align=r["align"], width=width, left=r["left"], right=r["right"])
    if t == "LineBox":
        return urwid.LineBox(build(r["w"]), title=r["title"])
    if t == "BoxAdapter":
        return urwid.BoxAdapter(build(r["w"]), r["h"])
    if t == "WidgetPlaceholder":
        return urwid.WidgetPlaceholder(build(r["w"]))
    if t == "Filler":
        return urwid.Filler(build(r["w"]), valign=r["valign"])
    if t == "ListBox":
        items = [build(i) for i in r["items"]]
        walker = urwid.SimpleFocusListWalker(items) if r["walker"] == "focus" else urwid.SimpleListWalker(items)
        lb = urwid.ListBox(walker)
        if r.get("focus") is not None and items:
            lb.set_focus(r["focus"])
        return lb
    if t == "Frame":
        return urwid.Frame(
            build(r["body"]),
            header=build(r["header"]) if r["header"] else None,
            footer=build(r["footer"]) if r["footer"] else None,
            focus_part=r["focus"] if (r["focus"] == "body" or r[r["focus"]]) else "body",
        )
    if t == "Overlay":
        width = tuple(r["width"]) if isinstance(r["width"], list) else r["width"]
        height = tuple(r["height"]) if isinstance(r["height"], list) else r["height"]
        return urwid.Overlay(build(r["top"]), build(r["bottom"]), r["align"], width, r["valign"], height)
    if t == "Scrollable":
        w = urwid.Scrollable(build(r["w"]))
        w.set_scrollpos(r["pos"])
        return w
    raise AssertionError(t)


# ---------------------------------------------------------------- walking a live tree


def children(w):
    import urwid

    if isinstance(w, (urwid.Pile, urwid.Columns, urwid.GridFlow)):
        return [c[0] for c in w.contents]
    if isinstance(w, urwid.Frame):
        return [x for x in (w.header, w.body, w.footer) if x is not None]
    if isinstance(w, urwid.Overlay):
        return [w.top_w, w.bottom_w]
    if isinstance(w, urwid.ListBox):
        try:
            return list(w.body)
        except TypeError:
            return []
    if isinstance(w, (urwid.Button, urwid.CheckBox)):
        return []
    if isinstance(w, urwid.WidgetDecoration):
        return [w.original_widget]
    return []


def walk(w, out=None):
    out = [] if out is None else out
    out.append(w)
    for c in children(w):
        walk(c, out)
    return out


def all_widgets(w, out=None):
    """every widget object of a live tree including the internals of composite leaves (Button, CheckBox, LineBox ...)"""
    out = {} if out is None else out
    if id(w) in out:
        return out
    out[id(w)] = w
    for c in children(w):
        all_widgets(c, out)
    for attr in ("_w", "_original_widget", "_wrapped_widget"):
        c = getattr(w, attr, None)
        if c is not None and hasattr(c, "render"):
            all_widgets(c, out)
    return out


def kind_of(w):
    import urwid

    s = w.sizing()
    if urwid.FLOW in s:
        return "flow"
    return "box"


# ---------------------------------------------------------------- mutations


def propose(rng, w):
    """one public-mutator call for live widget w as a JSON op [name, args...] or None"""
    import urwid

    c = []
    if isinstance(w, urwid.Edit) and not isinstance(w, urwid.IntEdit):
        c += [
            ["set_edit_text", text_of(rng).replace("\n", "")],
            ["set_edit_pos", rng.randint(0, 12)],
            ["set_caption", rng.choice(["", "cap ", "漢:"])],
            ["insert_text", rng.choice(["z", "漢", "qq"])],
            ["keypress", rng.choice(["a", "B", "backspace", "delete", "left", "right", "home", "end", "up", "down", "enter"])],
            # the same changes through the property setters / the mask
            ["setprop", "edit_text", text_of(rng).replace("\n", "")],
            ["setprop", "edit_pos", rng.randint(0, 12)],
            ["set_mask", rng.choice([None, "*", "漢"])],
            # a change whose signal handler raises (the caller catches it and carries on)
            ["raising", "postchange/set_edit_text", ["set_edit_text", rng.choice(["Q", "other text", "漢字"])]],
            ["raising", "postchange/insert_text", ["insert_text", rng.choice(["z", "漢"])]],
            ["raising", "postchange/keypress", ["keypress", rng.choice(["a", "backspace"])]],
            ["raising", "change/set_edit_text", ["set_edit_text", rng.choice(["Q", "other text"])]],
        ]
    elif isinstance(w, urwid.IntEdit):
        c += [["keypress", rng.choice(["1", "9", "backspace", "left"])], ["set_edit_text", str(rng.randint(0, 9999))]]
    elif type(w).__name__ == "Expander":
        c += [["set_details", rng.choice([[], ["d1"], ["d1", "d2", "d3"]])], ["set_title", rng.choice(["t", "title"])]]
    elif isinstance(w, urwid.SelectableIcon):
        c += [["set_text", rng.choice(["*", "ic", "[ ]"])]]
    elif isinstance(w, urwid.Text):
        c += [
            ["set_text", text_of(rng)],
            ["set_align_mode", rng.choice(ALIGN)],
            ["set_wrap_mode", rng.choice(WRAP)],
            # same or different align / wrap, standard or mirrored layout object
            ["set_layout", rng.choice(["same", "same", *ALIGN]), rng.choice(["same", "same", *WRAP[:3]]), rng.choice(["std", "mirror", "mirror"])],
        ]
    elif isinstance(w, urwid.CheckBox):
        c += [["set_state", rng.random() < 0.5], ["toggle_state"], ["set_label", text_of(rng).replace("\n", " ")], ["keypress", " "]]
        c += [["setprop", "state", rng.random() < 0.5], ["raising", "postchange/toggle_state", ["toggle_state"]], ["raising", "change/toggle_state", ["toggle_state"]]]
    elif isinstance(w, urwid.Button):
        c += [["set_label", rng.choice(["ok", "go", "a much longer label"])]]
    elif isinstance(w, urwid.ProgressBar):
        c += [["set_completion", rng.randint(0, 100)], ["setprop", "current", rng.randint(0, 100)], ["setprop", "done", rng.choice([50, 100, 200])]]
    elif isinstance(w, urwid.AttrWrap):
        c += [["set_attr", rng.choice(ATTRS[1:])], ["set_focus_attr", rng.choice(ATTRS[1:])], ["setprop", "attr", rng.choice(ATTRS[1:])], ["setprop", "focus_attr", rng.choice(ATTRS[1:])]]
        c += [["set_attr_map", rng.choice(ATTRS[1:])], ["set_focus_map", rng.choice(ATTRS[1:])], ["set_w"]]
    elif isinstance(w, urwid.AttrMap):
        c += [["attr_map_multi", rng.choice(ATTRS[1:]), rng.choice(ATTRS[1:])]]
        c += [["set_attr_map", rng.choice(ATTRS[1:])], ["set_focus_map", rng.choice(ATTRS[1:])], ["replace_child", "same"]]
    elif isinstance(w, urwid.Padding):
        c += [["set_align", rng.choice(ALIGN)], ["set_width", rng.choice([["relative", 50], ["relative", 100], rng.randint(4, 12)])], ["replace_child", "same"]]
    elif isinstance(w, urwid.LineBox):
        c += [["set_title", rng.choice(["", "t", "new title"])]]
    elif isinstance(w, urwid.BoxAdapter):
        c += [["replace_child", "box"]]
    elif isinstance(w, urwid.Scrollable):
        c += [["set_scrollpos", rng.randint(0, 6)]]
    elif isinstance(w, urwid.Filler):
        c += [["replace_child", "same"], ["filler_set_body"]]
    elif isinstance(w, urwid.WidgetPlaceholder):
        c += [["replace_child", "same"]]
    elif isinstance(w, (urwid.Pile, urwid.Columns, urwid.GridFlow)):
        n = len(w.contents)
        c += [["contents_insert", rng.randint(0, n)], ["contents_append"]]
        if n:
            c += [["focus_position", rng.randrange(n)], ["contents_set", rng.randrange(n)], ["child_mutation", rng.randrange(n)]]
        if n > 1:
            c += [["contents_del", rng.randrange(n)], ["contents_swap", rng.randrange(n), rng.randrange(n)]]
        if n == 1 and not isinstance(w, urwid.Columns):
            # down to an empty Pile / GridFlow (0 rows: the parent does not render it at all)
            c += [["contents_del", 0], ["contents_clear"]]
        elif n and not isinstance(w, urwid.Columns):
            c += [["contents_clear"]]
        if isinstance(w, urwid.GridFlow):
            c += [["set_cell_width", rng.randint(3, 9)]]
            if n:
                c += [["setprop", "focus_cell_index", rng.randrange(n)], ["set_focus_legacy", rng.randrange(n)]]
        elif n:
            # the older focus / list interfaces
            c += [["set_focus_legacy", rng.randrange(n)], ["setprop", "focus_item" if isinstance(w, urwid.Pile) else "focus_col", rng.randrange(n)], ["widget_list_set", rng.randrange(n)]]
    elif isinstance(w, urwid.Frame):
        c += [["set_header", rng.random() < 0.8], ["set_footer", rng.random() < 0.8], ["set_body"], ["frame_focus", rng.choice(["header", "body", "footer"])]]
    elif isinstance(w, urwid.Overlay):
        c += [
            ["set_overlay_parameters", rng.choice(ALIGN), rng.choice([["relative", 40], ["relative", 80], rng.randint(3, 9)]), rng.choice(VALIGN)],
            ["set_top"],
            ["set_bottom"],
        ]
    elif isinstance(w, urwid.ListBox):
        n = len(w.body)
        c += [["walker_insert", rng.randint(0, n)], ["walker_append"], ["lb_valign", rng.choice(VALIGN)]]
        if n:
            c += [["lb_set_focus", rng.randrange(n), rng.choice([None, "above", "below"])], ["walker_set", rng.randrange(n)]]
        if n > 1:
            c += [["walker_del", rng.randrange(n)]]
    if not c:
        return None
    op = rng.choice(c)
    # ops that need a fresh child carry its recipe
    if op[0] in ("replace_child", "contents_insert", "contents_append", "contents_set", "set_body", "set_top", "set_bottom", "set_header", "set_footer", "walker_insert", "walker_append", "walker_set", "set_w", "filler_set_body", "widget_list_set"):
        op.append(rng.randint(0, 10**9))
    return op


def _fresh(seed, kind, depth=1):
    import random

    return build(gen_tree(random.Random(seed), kind, depth))


def apply_mutation(w, op, size):
    """perform op on live widget w.  size = a flow size tuple usable for keypress on leaves"""
    import urwid

    name = op[0]
    a = op[1:]
    if name in ("set_edit_text", "set_edit_pos", "set_caption", "insert_text", "set_text", "set_align_mode", "set_wrap_mode", "set_state", "set_label", "set_completion", "set_title", "set_scrollpos", "set_details"):
        getattr(w, name)(a[0])
    elif name == "set_layout":
        align = w.align if a[0] == "same" else a[0]
        wrap = w.wrap if a[1] == "same" else a[1]
        w.set_layout(align, wrap, layout_object(a[2]))
    elif name == "toggle_state":
        w.toggle_state()
    elif name == "setprop":
        if a[0] == "focus_cell_index":
            w.focus_cell = w.contents[a[1]][0]
        else:
            setattr(w, a[0], a[1])
    elif name in ("set_mask", "set_attr", "set_focus_attr"):
        getattr(w, name)(a[0])
    elif name == "raising":
        # a handler connected to the named signal raises; the caller catches that and carries on with
        # the widget in whatever state the mutator left it
        sig = a[0].split("/")[0]

        class HandlerRaised(Exception):
            pass

        def handler(*_a):
            raise HandlerRaised

        key = urwid.connect_signal(w, sig, handler)
        try:
            apply_mutation(w, a[1], size)
        except HandlerRaised:
            pass
        finally:
            urwid.disconnect_signal_by_key(w, sig, key)
    elif name == "attr_map_multi":
        w.attr_map = {None: a[0], "a": a[1], "hi": a[0]}
    elif name == "set_w":
        w.set_w(_fresh(a[-1], kind_of(w.original_widget)))
    elif name == "filler_set_body":
        w.body = _fresh(a[-1], kind_of(w.original_widget))
    elif name == "set_focus_legacy":
        w.set_focus(a[0])
    elif name == "widget_list_set":
        old = w.widget_list[a[0]]
        w.widget_list[a[0]] = _fresh(a[-1], kind_of(old), 0)
    elif name == "keypress":
        w.keypress((max(1, size[0]),), a[0])
    elif name == "set_attr_map":
        w.set_attr_map({None: a[0]})
    elif name == "set_focus_map":
        w.set_focus_map({None: a[0]})
    elif name == "set_align":
        w.align = a[0]
    elif name == "set_width":
        w.width = tuple(a[0]) if isinstance(a[0], list) else a[0]
    elif name == "set_height":
        w.height = a[0]
    elif name == "set_cell_width":
        w.cell_width = a[0]
    elif name == "replace_child":
        kind = kind_of(w.original_widget) if a[0] == "same" else a[0]
        w.original_widget = _fresh(a[1], kind)
    elif name in ("contents_insert", "contents_append", "contents_set"):
        if isinstance(w, urwid.Pile):
            item = (_fresh(a[-1], "flow"), w.options("pack"))
        elif isinstance(w, urwid.Columns):
            boxy = bool(w.contents) and all(urwid.FLOW not in c.sizing() for c, o in w.contents)
            item = (_fresh(a[-1], "box" if boxy else "flow"), w.options("weight", 1))
        else:
            item = (_fresh(a[-1], "flow", 0), w.options())
        if name == "contents_insert":
            w.contents.insert(a[0], item)
        elif name == "contents_append":
            w.contents.append(item)
        else:
            w.contents[a[0]] = item
    elif name == "contents_del":
        del w.contents[a[0]]
    elif name == "contents_clear":
        del w.contents[:]
    elif name == "contents_swap":
        i, j = a
        ci, cj = w.contents[i], w.contents[j]
        w.contents[i], w.contents[j] = cj, ci
    elif name == "child_mutation":
        pass
    elif name == "focus_position":
        w.focus_position = a[0]
    elif name == "set_header":
        w.header = _fresh(a[-1], "flow", 0) if a[0] else None
    elif name == "set_footer":
        w.footer = _fresh(a[-1], "flow", 0) if a[0] else None
    elif name == "set_body":
        w.body = _fresh(a[-1], "box")
    elif name == "frame_focus":
        if a[0] == "body" or getattr(w, a[0]) is not None:
            w.focus_position = a[0]
    elif name == "set_overlay_parameters":
        width = tuple(a[1]) if isinstance(a[1], list) else a[1]
        height = "pack" if urwid.FLOW in w.top_w.sizing() and urwid.BOX not in w.top_w.sizing() else ("relative", 50)
        w.set_overlay_parameters(a[0], width, a[2], height)
    elif name == "set_top":
        w.contents[1] = (_fresh(a[-1], kind_of(w.top_w)), w.contents[1][1])
    elif name == "set_bottom":
        w.contents[0] = (_fresh(a[-1], "box"), w.contents[0][1])
    elif name == "walker_insert":
        w.body.insert(a[0], _fresh(a[-1], "flow"))
    elif name == "walker_append":
        w.body.append(_fresh(a[-1], "flow"))
    elif name == "walker_set":
        w.body[a[0]] = _fresh(a[-1], "flow")
    elif name == "walker_del":
        del w.body[a[0]]
    elif name == "lb_set_focus":
        w.set_focus(a[0], a[1])
    elif name == "lb_valign":
        w.set_focus_valign(a[0])
    else:
        raise AssertionError(op)
