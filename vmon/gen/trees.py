"""Shared seeded generator of widget-tree RECIPES (owner: C01 builder).

A recipe is a plain JSON-serialisable dict ``{"t": <class name>, <options...>, "c": [child recipes]}``.
A tree is never copied: it is always rebuilt from its recipe with :func:`build`.

Public API
----------
gen_tree(rng, kind, depth, mode) -> recipe
    kind  in {"box", "flow", "fixed"}: a sizing mode the built widget must support (per the rules
          documented in each class's ``sizing()`` docstring -- generation is "by kind needed", so only
          documented-valid child/option combinations are emitted);
    depth 0..5: maximum nesting below this node (0 = a leaf);
    mode  in {"utf8", "wide", "narrow"}: text alphabet (the caller selects the matching urwid encoding,
          see ENCODINGS, *before* build()).
gen_rooted(rng, cls, mode, depth=2, kind=None) -> recipe whose root is class `cls`;  gen_leaf(rng, kind, mode, cls=None)
gen_text(rng, mode, maxlen=10, newline=True, as_bytes=None) -> str | {"bytes": latin-1 str}
build(recipe, registry=None) -> urwid widget
    registry (optional dict) is filled with id(widget) -> (path, recipe_node, widget) for every widget
    that corresponds to a recipe node (path = tuple of child indexes from the root).
describe(recipe, depth=3, detail=True) -> abstract shape string, e.g. "Pile[pack:BigText,pack:Text]"
children(recipe) -> list of child recipes;  node_at(recipe, path);  replace_at(recipe, path, new) -> new recipe
simple_leaf(kind) -> smallest recipe of that kind (used by shrinkers)
kinds_of(recipe) -> set of kinds the documented rules promise for this recipe (static, no urwid)
all_widgets(widget) -> iterator over (widget, internal: bool) of a built tree, including the widgets
    that WidgetWrap classes build internally
count_nodes(recipe), classes_in(recipe)
to_code(recipe) -> Python expression string (using `urwid`) building the same tree, for standalone witnesses

Text values inside recipes are either ``str`` or ``{"bytes": <latin-1 decoded bytes>}`` (the wrapper
vmon.core.jsonable/unjson_bytes uses); build() also accepts real ``bytes``.
"""

from __future__ import annotations

import json

ENCODINGS = {"utf8": "utf-8", "wide": "euc-jp", "narrow": "ascii"}
KINDS = ("box", "flow", "fixed")

ASCII = "abcxyzABC019 .-_|/<>[]()*"
LATIN1 = "éßñÀ"
CJK = "漢字あ語ア"  # euc-jp: two bytes each, display width two
COMBINING = "́̀̈"
EMOJI = "😀🎉"
DEC = "─│┌┐└┘├┤┬┴┼◆▒°±·"
FONTS = ["Thin3x3Font", "Thin4x3Font", "HalfBlock5x4Font", "Thin6x6Font", "Sextant2x2Font", "HalfBlock7x7Font"]
ATTRS = [None, "a", "b", "hl"]
WRAPS = ["space", "any", "clip", "ellipsis"]
ALIGNS = ["left", "center", "right"]
VALIGNS = ["top", "middle", "bottom"]


# ---------------------------------------------------------------- texts


def gen_str(rng, mode, maxlen=10, newline=True, dec=True):
    n = rng.choice([0, 1, 1, 2, 3, 5, 8, maxlen]) if maxlen > 0 else 0
    n = min(n, maxlen)
    out = []
    for _ in range(n):
        r = rng.random()
        if newline and r < 0.06:
            out.append("\n")
        elif r < 0.12:
            out.append(" ")
        elif mode == "utf8":
            if r < 0.30:
                out.append(rng.choice(CJK))
            elif r < 0.38:
                out.append(rng.choice(LATIN1))
            elif r < 0.46 and out and out[-1] != "\n":
                out.append(rng.choice(COMBINING))
            elif r < 0.48:
                out.append(rng.choice(COMBINING))
            elif r < 0.53:
                out.append(rng.choice(EMOJI))
            elif r < 0.62 and dec:
                out.append(rng.choice(DEC))
            else:
                out.append(rng.choice(ASCII))
        elif mode == "wide":
            out.append(rng.choice(CJK) if r < 0.4 else rng.choice(ASCII))
        else:
            out.append(rng.choice(DEC) if (r < 0.3 and dec) else rng.choice(ASCII))
    return "".join(out)


def gen_text(rng, mode, maxlen=10, newline=True, as_bytes=None):
    """str, or {"bytes": ...} holding the encoded form of a string of the same alphabet"""
    if as_bytes is None:
        as_bytes = rng.random() < 0.2
    if not as_bytes:
        return gen_str(rng, mode, maxlen, newline)
    s = gen_str(rng, mode, maxlen, newline, dec=(mode == "utf8"))
    return {"bytes": s.encode(ENCODINGS[mode]).decode("latin-1")}


def _txt(v):
    """recipe text value -> str | bytes"""
    if isinstance(v, dict):
        return v["bytes"].encode("latin-1")
    return v


def _is_bytes(v):
    return isinstance(v, (dict, bytes))


def text_classes(v, mode="utf8"):
    """abstract classes of characters present in a recipe text value (for describe())"""
    if v is None:
        return "none"
    if isinstance(v, list):  # markup
        parts = []
        for _a, t in v:
            for c in text_classes(t, mode).split("+"):
                if c not in parts and c != "empty":
                    parts.append(c)
        return "markup:" + ("+".join(parts) if parts else "empty")
    byt = _is_bytes(v)
    s = _txt(v)
    if isinstance(s, bytes):
        try:
            s = s.decode(ENCODINGS.get(mode, "utf-8"))
        except UnicodeDecodeError:
            s = s.decode("latin-1")
    cl = []
    if not s:
        cl.append("empty")
    for name, pred in (
        ("ascii", lambda ch: ch in ASCII and ch != " "),
        ("sp", lambda ch: ch == " "),
        ("nl", lambda ch: ch == "\n"),
        ("latin1", lambda ch: ch in LATIN1),
        ("wide", lambda ch: ch in CJK or ch in EMOJI),
        ("zero", lambda ch: ch in COMBINING),
        ("dec", lambda ch: ch in DEC),
    ):
        if any(pred(ch) for ch in s):
            cl.append(name)
    return ("b:" if byt else "") + "+".join(cl)


# ---------------------------------------------------------------- recipe helpers


def children(r):
    return r.get("c", [])


def node_at(r, path):
    for i in path:
        r = r["c"][i]
    return r


def replace_at(r, path, new):
    """deep copy of r with the node at path replaced by new (path () replaces the root)"""
    if not path:
        return json.loads(json.dumps(new))
    r = json.loads(json.dumps(r))
    n = r
    for i in path[:-1]:
        n = n["c"][i]
    n["c"][path[-1]] = json.loads(json.dumps(new))
    return r


def count_nodes(r):
    return 1 + sum(count_nodes(c) for c in children(r))


def classes_in(r, out=None):
    out = set() if out is None else out
    out.add(r["t"])
    for c in children(r):
        classes_in(c, out)
    return out


def simple_leaf(kind):
    if kind == "box":
        return {"t": "SolidFill", "ch": "x"}
    return {"t": "Text", "text": "ab", "align": "left", "wrap": "space"}


# ---------------------------------------------------------------- static kinds (documented rules, no urwid)

_LEAF_KINDS = {
    "Text": {"flow", "fixed"},
    "SelectableIcon": {"flow", "fixed"},
    "Button": {"flow", "fixed"},
    "CheckBox": {"flow", "fixed"},
    "RadioButton": {"flow", "fixed"},
    "Edit": {"flow"},
    "IntEdit": {"flow"},
    "IntegerEdit": {"flow"},
    "FloatEdit": {"flow"},
    "Divider": {"flow"},
    "ProgressBar": {"flow"},
    "SolidFill": {"box"},
    "BarGraph": {"box"},
    "GraphVScale": {"box"},
    "BigText": {"fixed"},
}


def kinds_of(r):
    """kinds promised by the documented sizing rules for this recipe"""
    t = r["t"]
    if t in _LEAF_KINDS:
        return set(_LEAF_KINDS[t])
    cs = children(r)
    if t in ("AttrMap", "AttrWrap", "WidgetPlaceholder", "WidgetDisable", "PopUpLauncher", "LineBox", "PopUpTarget"):
        # (PopUpTarget declares _sizing = BOX but inherits WidgetDecoration.sizing(), i.e. the child's)
        return kinds_of(cs[0])
    if t in ("Scrollable", "ScrollBar", "ListBox", "Frame"):
        return {"box"}
    if t == "BoxAdapter":
        return {"flow"}
    if t == "Padding":
        if r["width"] == "clip":
            return {"flow"}
        k = kinds_of(cs[0])
        if isinstance(r["width"], int) and "flow" in k:
            k.add("fixed")
        return k
    if t == "Filler":
        return {"box", "flow"} if (r["height"] == "pack" or isinstance(r["height"], int)) else {"box"}
    if t == "GridFlow":
        return {"flow", "fixed"} if cs else {"flow"}
    if t == "Overlay":
        k = {"box"}
        tk = kinds_of(cs[0])
        wt, ht = r["width"], r["height"]
        w_ok = isinstance(wt, int) or (isinstance(wt, list) and r.get("min_width"))
        if wt == "pack":
            if "fixed" in tk:
                k.add("fixed")
        elif ht == "pack":
            if "flow" in tk:
                k.add("flow")
                if w_ok:
                    k.add("fixed")
        elif isinstance(ht, int) or (isinstance(ht, list) and r.get("min_height")):
            if "box" in tk:
                k.add("flow")
                if w_ok:
                    k.add("fixed")
        return k
    if t == "Pile":
        if not cs:
            return {"box", "flow"}
        sup, has_flow, has_fixed = set(), False, False
        for c, (sk, _amt) in zip(cs, r["items"]):
            ck = kinds_of(c)
            box = flow = fixed = False
            if sk == "weight":
                box, flow = "box" in ck, "flow" in ck
                fixed = "fixed" in ck and bool(ck & {"box", "flow"})
            elif sk == "given":
                box = flow = "box" in ck
            else:
                flow, fixed = "flow" in ck, "fixed" in ck
            if box:
                sup.add("box")
                if not (flow or fixed):
                    return sup
            has_flow |= flow
            has_fixed |= fixed
        if has_flow:
            sup.add("flow")
        if has_fixed:
            sup.add("fixed")
        return sup
    if t == "Columns":
        if not cs:
            return {"box", "flow"}
        sup = set()
        strict_box = has_flow = has_fixed = block_fixed = False
        all_box = True
        bc = set(r.get("box_columns") or ())
        for i, (c, (sk, _amt)) in enumerate(zip(cs, r["items"])):
            ck = kinds_of(c)
            box = flow = fixed = False
            if sk == "weight":
                box, flow = "box" in ck, "flow" in ck
                fixed = "fixed" in ck and bool(ck & {"box", "flow"})
            elif sk == "given":
                box = "box" in ck
                flow = fixed = "flow" in ck
            else:
                flow, fixed = "flow" in ck, "fixed" in ck
            if box and not (i in bc or flow or fixed):
                strict_box = True
            has_flow |= flow
            if fixed:
                has_fixed = True
            elif not (box and sk == "given"):
                block_fixed = True
            all_box &= box
        if all_box:
            sup.add("box")
        if not strict_box:
            if has_flow:
                sup.add("flow")
            if has_fixed and not block_fixed:
                sup.update(("flow", "fixed"))
        return sup
    raise ValueError(f"unknown recipe class {t}")


# ---------------------------------------------------------------- generator


class _Gen:
    def __init__(self, rng, mode):
        self.rng = rng
        self.mode = mode

    # ---- small option helpers
    def text(self, maxlen=10, newline=True, as_bytes=None):
        return gen_text(self.rng, self.mode, maxlen, newline, as_bytes)

    def markup_or_text(self, maxlen=10):
        rng = self.rng
        if rng.random() < 0.15:
            by = rng.random() < 0.2
            return [[rng.choice(ATTRS), self.text(max(1, maxlen // 2), True, by)] for _ in range(rng.randint(1, 3))]
        return self.text(maxlen)

    def align(self):
        rng = self.rng
        return rng.choice(ALIGNS) if rng.random() < 0.8 else ["relative", rng.choice([0, 25, 50, 75, 100])]

    def valign(self):
        rng = self.rng
        return rng.choice(VALIGNS) if rng.random() < 0.8 else ["relative", rng.choice([0, 25, 50, 75, 100])]

    def small(self, lo=0, hi=3):
        return self.rng.choice([lo, lo, lo + 1, hi]) if self.rng.random() < 0.5 else lo

    # ---- leaves
    def leaf(self, kind):
        rng = self.rng
        if kind == "box":
            t = rng.choice(["SolidFill", "SolidFill", "BarGraph", "GraphVScale"])
        elif kind == "flow":
            t = rng.choice(
                ["Text", "Text", "Edit", "Edit", "IntEdit", "IntegerEdit", "FloatEdit", "SelectableIcon", "Button", "CheckBox", "RadioButton", "Divider", "ProgressBar"]
            )
        else:
            t = rng.choice(["Text", "Text", "SelectableIcon", "Button", "CheckBox", "RadioButton", "BigText", "BigText"])
        return getattr(self, "leaf_" + t)()

    def leaf_SolidFill(self):
        rng = self.rng
        if self.mode == "utf8":
            ch = rng.choice(["x", " ", "#", "é", "─", "▒"])
        elif self.mode == "narrow":
            ch = rng.choice(["x", " ", "#", "─", "▒"])
        else:
            ch = rng.choice(["x", " ", "#"])
        return {"t": "SolidFill", "ch": ch}

    def leaf_BarGraph(self):
        rng = self.rng
        nb = rng.randint(0, 5)
        nseg = rng.choice([1, 1, 2])
        top = rng.choice([1, 5, 10, 100])
        data = [[rng.choice([0, 1, top // 2, top, rng.randint(0, top)]) for _ in range(nseg)] for _ in range(nb)]
        for row in data:
            row.sort(reverse=True)
        hl = sorted({rng.randint(1, top) for _ in range(rng.choice([0, 0, 1, 2]))}, reverse=True)
        r = {"t": "BarGraph", "nseg": nseg, "data": data, "top": top, "hlines": hl, "satt": rng.random() < 0.3 and self.mode == "utf8"}
        r["bar_width"] = rng.choice([None, None, 1, 2, 3])
        return r

    def leaf_GraphVScale(self):
        rng = self.rng
        top = rng.choice([1, 5, 10, 100])
        labels = sorted({rng.randint(0, top) for _ in range(rng.randint(0, 3))}, reverse=True)
        return {"t": "GraphVScale", "labels": [[v, gen_str(rng, self.mode, 3, False)] for v in labels], "top": top}

    def leaf_Text(self):
        rng = self.rng
        return {"t": "Text", "text": self.markup_or_text(rng.choice([4, 10, 25])), "align": rng.choice(ALIGNS), "wrap": rng.choice(WRAPS)}

    def leaf_Edit(self):
        rng = self.rng
        by = rng.random() < 0.15
        cap = self.text(6, True, by)
        et = self.text(rng.choice([3, 8, 16]), rng.random() < 0.3, by)
        n = len(_txt(et))
        r = {"t": "Edit", "caption": cap, "edit_text": et, "multiline": rng.random() < 0.3, "align": rng.choice(ALIGNS), "wrap": rng.choice(WRAPS)}
        r["edit_pos"] = None if by else rng.choice([None, 0, n, rng.randint(0, n)])
        r["mask"] = None if by else rng.choice([None, None, None, "*"])  # a str mask cannot be mixed with bytes text
        return r

    def leaf_IntEdit(self):
        rng = self.rng
        return {"t": "IntEdit", "caption": self.text(5, False, False), "default": rng.choice([None, 0, 7, 42, 123456789])}

    def leaf_IntegerEdit(self):
        rng = self.rng
        base = rng.choice([10, 10, 16, 8])
        return {"t": "IntegerEdit", "caption": self.text(5, False, False), "default": rng.choice([None, 0, 7, 42, 1234567]), "base": base}

    def leaf_FloatEdit(self):
        rng = self.rng
        sep = rng.choice([".", ".", ","])
        d = rng.choice([None, "0", "3.14", "1234.5", 42])  # the constructor only accepts "." in a str default
        return {"t": "FloatEdit", "caption": self.text(5, False, False), "default": d, "sep": sep, "preserve": rng.random() < 0.7}

    def leaf_SelectableIcon(self):
        rng = self.rng
        tx = self.text(8)
        return {"t": "SelectableIcon", "text": tx, "cursor_position": rng.choice([0, 0, 1, 5]), "align": rng.choice(ALIGNS), "wrap": rng.choice(WRAPS)}

    def leaf_Button(self):
        rng = self.rng
        return {"t": "Button", "label": self.text(8, True, False), "align": rng.choice(ALIGNS), "wrap": rng.choice(WRAPS)}

    def leaf_CheckBox(self):
        rng = self.rng
        mixed = rng.random() < 0.3
        return {"t": "CheckBox", "label": self.text(8, True, False), "state": rng.choice([True, False, "mixed"] if mixed else [True, False]), "has_mixed": mixed}

    def leaf_RadioButton(self):
        rng = self.rng
        return {"t": "RadioButton", "label": self.text(8, True, False), "state": rng.choice([True, False])}

    def leaf_Divider(self):
        rng = self.rng
        if self.mode == "utf8":
            ch = rng.choice([" ", "-", "─", "é", "·"])
        elif self.mode == "narrow":
            ch = rng.choice([" ", "-", "─"])
        else:
            ch = rng.choice([" ", "-", "="])
        return {"t": "Divider", "ch": ch, "top": self.small(0, 2), "bottom": self.small(0, 2)}

    def leaf_ProgressBar(self):
        rng = self.rng
        done = rng.choice([100, 100, 7, 1])
        return {"t": "ProgressBar", "current": rng.choice([0, done // 2, done, rng.randint(0, done), done + 5, -3]), "done": done, "satt": rng.random() < 0.5}

    def leaf_BigText(self):
        rng = self.rng
        s = "".join(rng.choice("0123456789:., ab") for _ in range(rng.choice([0, 1, 1, 2, 3])))
        return {"t": "BigText", "text": s, "font": rng.choice(FONTS)}

    # ---- generic node
    def node(self, kind, depth):
        rng = self.rng
        if depth <= 0 or rng.random() < 0.12:
            return self.leaf(kind)
        prods = self.PRODS[kind]
        name = rng.choice(prods)
        return getattr(self, "mk_" + name)(kind, depth - 1)

    PRODS = {
        "box": [
            "AttrMap", "AttrWrap", "WidgetPlaceholder", "WidgetDisable", "PopUpLauncher", "PopUpTarget",
            "Padding", "Padding", "Filler", "Filler", "Filler", "LineBox", "LineBox", "Scrollable", "Scrollable", "ScrollBar", "ScrollBar",
            "Pile", "Pile", "Pile", "Columns", "Columns", "Columns", "Frame", "Frame", "Overlay", "Overlay", "ListBox", "ListBox",
        ],
        "flow": [
            "AttrMap", "AttrWrap", "WidgetPlaceholder", "WidgetDisable", "PopUpLauncher",
            "Padding", "Padding", "Padding", "Filler", "LineBox", "LineBox", "BoxAdapter", "BoxAdapter",
            "Pile", "Pile", "Pile", "Columns", "Columns", "Columns", "GridFlow", "GridFlow", "Overlay",
        ],
        "fixed": [
            "AttrMap", "AttrWrap", "WidgetPlaceholder", "WidgetDisable", "PopUpLauncher",
            "Padding", "Padding", "LineBox", "LineBox", "Pile", "Pile", "Pile", "Columns", "Columns", "Columns", "GridFlow", "Overlay",
        ],
    }

    # ---- decorations
    def mk_AttrMap(self, kind, d):
        rng = self.rng
        return {"t": "AttrMap", "attr": rng.choice(["a", None, {"a": "b", "None": "hl"}]), "focus": rng.choice([None, "hl", {"a": "hl"}]), "c": [self.node(kind, d)]}

    def mk_AttrWrap(self, kind, d):
        rng = self.rng
        return {"t": "AttrWrap", "attr": rng.choice(["a", None]), "focus": rng.choice([None, "hl"]), "c": [self.node(kind, d)]}

    def mk_WidgetPlaceholder(self, kind, d):
        return {"t": "WidgetPlaceholder", "c": [self.node(kind, d)]}

    def mk_WidgetDisable(self, kind, d):
        return {"t": "WidgetDisable", "c": [self.node(kind, d)]}

    def mk_PopUpLauncher(self, kind, d):
        return {"t": "PopUpLauncher", "c": [self.node(kind, d)]}

    def mk_PopUpTarget(self, kind, d):
        return {"t": "PopUpTarget", "c": [self.node("box", d)]}

    def mk_Padding(self, kind, d):
        rng = self.rng
        r = {"t": "Padding", "align": self.align(), "left": self.small(0, 3), "right": self.small(0, 3), "min_width": rng.choice([None, None, 1, 3, 6])}
        choice = rng.random()
        if kind == "flow" and choice < 0.2:
            r["width"] = "clip"
            r["c"] = [self.node("fixed", d)]
        elif choice < 0.45:
            r["width"] = rng.choice([1, 2, 3, 5, 9])
            r["c"] = [self.node("flow" if kind == "fixed" else kind, d)]
        elif choice < 0.7:
            r["width"] = "pack"
            r["c"] = [self.node(kind, d)]
        else:
            r["width"] = ["relative", rng.choice([100, 100, 50, 30, 80, 10])]
            r["c"] = [self.node(kind, d)]
        return r

    def mk_Filler(self, kind, d):
        rng = self.rng
        r = {"t": "Filler", "valign": self.valign(), "top": self.small(0, 2), "bottom": self.small(0, 2), "min_height": None}
        choice = rng.random()
        if choice < 0.5:
            r["height"] = "pack"
            r["c"] = [self.node("flow", d)]
        elif choice < 0.75 or kind == "flow":
            r["height"] = rng.choice([1, 2, 3, 5])
            r["c"] = [self.node("box", d)]
        else:
            r["height"] = ["relative", rng.choice([100, 100, 50, 30, 80])]
            r["min_height"] = rng.choice([None, None, 1, 2, 4])
            r["c"] = [self.node("box", d)]
        return r

    def mk_LineBox(self, kind, d):
        rng = self.rng
        r = {"t": "LineBox", "title": "" if rng.random() < 0.5 else gen_str(rng, self.mode, 6, False), "title_align": rng.choice(ALIGNS), "c": [self.node(kind, d)]}
        # sides switched off by passing "" for the three pieces of a side (as the docstring describes)
        r["off"] = sorted(rng.sample(["t", "b", "l", "r"], rng.choice([0, 0, 0, 1, 2])))
        if "t" in r["off"]:
            r["title"] = ""  # "Cannot have a title when tline is empty string"
        return r

    def mk_BoxAdapter(self, kind, d):
        return {"t": "BoxAdapter", "height": self.rng.choice([1, 2, 3, 5]), "c": [self.node("box", d)]}

    def mk_Scrollable(self, kind, d):
        rng = self.rng
        return {"t": "Scrollable", "c": [self.node(rng.choice(["flow", "flow", "fixed"]), d)], "scrollpos": rng.choice([0, 0, 1, 3])}

    def mk_ScrollBar(self, kind, d):
        rng = self.rng
        inner = self.mk_Scrollable("box", max(0, d - 1)) if rng.random() < 0.6 else self.mk_ListBox("box", max(0, d - 1))
        if rng.random() < 0.2:
            inner = {"t": "AttrMap", "attr": "a", "focus": None, "c": [inner]}
        th = rng.choice(["█", "#", "█"]) if self.mode == "utf8" else "#"
        tr = rng.choice([" ", ".", "│" if self.mode != "wide" else "|"])
        return {"t": "ScrollBar", "thumb": th, "trough": tr, "side": rng.choice(["left", "right"]), "width": rng.choice([1, 1, 2, 3]), "c": [inner]}

    # ---- containers
    def weight(self):
        return self.rng.choice([1, 1, 1, 2, 3, 0.5])

    def mk_Pile(self, kind, d):
        rng = self.rng
        n = rng.choice([1, 2, 2, 3, 4])
        if rng.random() < 0.02 and kind in ("box", "flow"):
            return {"t": "Pile", "items": [], "focus": None, "c": []}
        items, cs = [], []

        def add(sk, amt, ck):
            items.append([sk, amt])
            cs.append(self.node(ck, d))

        if kind == "box":
            opts = [("weight", "box"), ("weight", "box"), ("given", "box"), ("pack", "flow"), ("pack", "flow")]
            need = ("weight", "box")
        elif kind == "flow":
            opts = [("weight", "flow"), ("pack", "flow"), ("pack", "flow"), ("given", "box"), ("pack", "fixed")]
            need = rng.choice([("weight", "flow"), ("pack", "flow"), ("given", "box")])
        else:
            opts = [("pack", "fixed"), ("pack", "fixed"), ("pack", "flow"), ("given", "box"), ("weight", "flow")]
            need = ("pack", "fixed")
        chosen = [need] + [rng.choice(opts) for _ in range(n - 1)]
        rng.shuffle(chosen)
        for sk, ck in chosen:
            amt = self.weight() if sk == "weight" else (rng.choice([1, 1, 2, 3, 5]) if sk == "given" else None)
            add(sk, amt, ck)
        return {"t": "Pile", "items": items, "focus": rng.choice([None, rng.randrange(len(cs))]), "c": cs}

    def mk_Columns(self, kind, d):
        rng = self.rng
        n = rng.choice([1, 2, 2, 3, 4])
        if rng.random() < 0.02 and kind in ("box", "flow"):
            return {"t": "Columns", "items": [], "focus": None, "dividechars": 0, "min_width": 1, "box_columns": [], "c": []}
        # (size kind, child kind, needs box_columns)
        if kind == "box":
            opts = [("weight", "box", False), ("weight", "box", False), ("given", "box", False)]
            need = rng.choice(opts)
        elif kind == "flow":
            opts = [("weight", "flow", False), ("weight", "flow", False), ("given", "flow", False), ("pack", "flow", False), ("pack", "fixed", False), ("weight", "box", True), ("given", "box", True)]
            need = rng.choice([("weight", "flow", False), ("given", "flow", False), ("pack", "flow", False)])
        else:
            opts = [("pack", "fixed", False), ("pack", "fixed", False), ("given", "flow", False), ("given", "box", True)]
            need = rng.choice([("pack", "fixed", False), ("given", "flow", False)])
        chosen = [need] + [rng.choice(opts) for _ in range(n - 1)]
        rng.shuffle(chosen)
        items, cs, bc = [], [], []
        for i, (sk, ck, isbox) in enumerate(chosen):
            amt = self.weight() if sk == "weight" else (rng.choice([1, 2, 3, 4, 6, 9]) if sk == "given" else None)
            items.append([sk, amt])
            cs.append(self.node(ck, d))
            if isbox:
                bc.append(i)
        return {
            "t": "Columns", "items": items, "focus": rng.choice([None, rng.randrange(len(cs))]), "dividechars": rng.choice([0, 0, 1, 2]),
            "min_width": rng.choice([1, 1, 2, 4]), "box_columns": bc, "c": cs,
        }  # fmt: skip

    def mk_GridFlow(self, kind, d):
        rng = self.rng
        n = rng.choice([1, 2, 3, 5]) if (kind == "fixed" or rng.random() < 0.95) else 0
        cs = [self.node("flow", d) for _ in range(n)]
        return {
            "t": "GridFlow", "cell_width": rng.choice([1, 2, 3, 5, 8]), "h_sep": rng.choice([0, 1, 2]), "v_sep": rng.choice([0, 1]),
            "align": self.align(), "focus": rng.randrange(n) if n and rng.random() < 0.5 else None, "c": cs,
        }  # fmt: skip

    def mk_Frame(self, kind, d):
        rng = self.rng
        cs = [self.node("box", d)]
        parts = ["body"]
        for p in ("header", "footer"):
            if rng.random() < 0.6:
                parts.append(p)
                cs.append(self.node("flow", d))
        return {"t": "Frame", "parts": parts, "focus_part": rng.choice(parts), "c": cs}

    def mk_Overlay(self, kind, d):
        rng = self.rng
        r = {
            "t": "Overlay", "align": self.align(), "valign": self.valign(), "min_width": None, "min_height": None,
            "left": self.small(0, 2), "right": self.small(0, 2), "top": self.small(0, 2), "bottom": self.small(0, 2),
        }  # fmt: skip
        given_w = lambda: rng.choice([1, 2, 3, 5, 9])  # noqa: E731
        rel = lambda: ["relative", rng.choice([100, 50, 30, 80])]  # noqa: E731
        choice = rng.random()
        if kind == "fixed":
            variant = rng.choice(["pack", "flowtop", "boxtop"])
        elif kind == "flow":
            variant = rng.choice(["flowtop", "boxtop"])
        else:
            variant = rng.choice(["pack", "flowtop", "boxtop", "boxtop"])
        if variant == "pack":
            r["width"], r["height"] = "pack", "pack"
            top = self.node("fixed", d)
        elif variant == "flowtop":
            r["height"] = "pack"
            if kind == "fixed" or choice < 0.5:
                if rng.random() < 0.6:
                    r["width"] = given_w()
                else:
                    r["width"], r["min_width"] = rel(), rng.choice([1, 3, 6])
            else:
                r["width"] = rel()
                r["min_width"] = rng.choice([None, None, 2])
            top = self.node("flow", d)
        else:
            if kind in ("flow", "fixed") or choice < 0.5:
                if rng.random() < 0.6:
                    r["height"] = rng.choice([1, 2, 3, 5])
                else:
                    r["height"], r["min_height"] = rel(), rng.choice([1, 2, 4])
            else:
                r["height"] = rel()
                r["min_height"] = rng.choice([None, None, 2])
            if kind == "fixed" or rng.random() < 0.5:
                if rng.random() < 0.6:
                    r["width"] = given_w()
                else:
                    r["width"], r["min_width"] = rel(), rng.choice([1, 3, 6])
            else:
                r["width"] = rel()
                r["min_width"] = rng.choice([None, None, 2])
            top = self.node("box", d)
        r["c"] = [top, self.node("box", d)]
        return r

    def mk_ListBox(self, kind, d):
        rng = self.rng
        n = rng.choice([0, 1, 2, 3, 5, 8]) if rng.random() < 0.9 else 0
        cs = [self.node("flow", d) for _ in range(n)]
        return {"t": "ListBox", "walker": rng.choice(["SimpleListWalker", "SimpleFocusListWalker"]), "focus": rng.randrange(n) if n and rng.random() < 0.6 else None, "c": cs}


def gen_tree(rng, kind, depth, mode):
    """seeded recipe of a widget that (per the documented rules) supports sizing mode `kind`"""
    if kind not in KINDS:
        raise ValueError(kind)
    if mode not in ENCODINGS:
        raise ValueError(mode)
    return _Gen(rng, mode).node(kind, min(5, max(0, depth)))


def gen_rooted(rng, cls, mode, depth=2, kind=None):
    """recipe whose ROOT is the given decoration / container class (kind: a sizing mode it should support; default: a
    seeded choice among the kinds the grammar can produce that class for); leaves -> gen_leaf"""
    if cls in _LEAF_KINDS:
        return gen_leaf(rng, kind, mode, cls)
    kinds = [k for k in KINDS if cls in _Gen.PRODS[k]]
    if kind is None:
        kind = rng.choice(kinds)
    elif kind not in kinds:
        raise ValueError(f"{cls} cannot be generated for kind {kind}")
    return getattr(_Gen(rng, mode), "mk_" + cls)(kind, max(0, min(5, depth) - 1))


def gen_leaf(rng, kind, mode, cls=None):
    g = _Gen(rng, mode)
    return getattr(g, "leaf_" + cls)() if cls else g.leaf(kind)


LEAF_CLASSES = sorted(_LEAF_KINDS)
DECORATION_CLASSES = [
    "AttrMap", "AttrWrap", "Padding", "Filler", "LineBox", "BoxAdapter", "WidgetPlaceholder", "WidgetDisable",
    "Scrollable", "ScrollBar", "PopUpLauncher", "PopUpTarget",
]  # fmt: skip
CONTAINER_CLASSES = ["Pile", "Columns", "GridFlow", "Frame", "Overlay", "ListBox"]
ALL_CLASSES = LEAF_CLASSES + DECORATION_CLASSES + CONTAINER_CLASSES


# ---------------------------------------------------------------- build


def _al(v):
    return tuple(v) if isinstance(v, list) else v


def _attrmap(v):
    if isinstance(v, dict):
        return {(None if k == "None" else k): x for k, x in v.items()}
    return v


def _markup(v):
    if isinstance(v, list):
        return [(a, _txt(t)) for a, t in v]
    return _txt(v)


def build(recipe, registry=None, _path=()):
    """rebuild the urwid widget tree described by recipe (the caller has set the encoding)"""
    import urwid
    from urwid import numedit

    r = recipe
    t = r["t"]
    kids = [build(c, registry, (*_path, i)) for i, c in enumerate(children(r))]

    if t == "SolidFill":
        w = urwid.SolidFill(r["ch"])
    elif t == "BarGraph":
        nseg = r["nseg"]
        attlist = ["bg", "c1", "c2"][: nseg + 1]
        hatt = ["line"] if r["hlines"] else None
        satt = {(1, 0): "s10"} if r["satt"] else None
        if nseg == 2 and r["satt"]:
            satt[(2, 0)] = "s20"
            satt[(2, 1)] = "s21"
        w = urwid.BarGraph(attlist, hatt, satt)
        if r.get("bar_width") is not None:
            w.set_bar_width(r["bar_width"])
        w.set_data([tuple(x) for x in r["data"]], r["top"], r["hlines"] or None)
    elif t == "GraphVScale":
        w = urwid.GraphVScale([(v, s) for v, s in r["labels"]], r["top"])
    elif t == "Text":
        w = urwid.Text(_markup(r["text"]), r["align"], r["wrap"])
    elif t == "Edit":
        w = urwid.Edit(_txt(r["caption"]), _txt(r["edit_text"]), r["multiline"], r["align"], r["wrap"], False, r["edit_pos"], None, r["mask"])
    elif t == "IntEdit":
        w = urwid.IntEdit(_txt(r["caption"]), r["default"])
    elif t == "IntegerEdit":
        w = numedit.IntegerEdit(_txt(r["caption"]), r["default"], r["base"])
    elif t == "FloatEdit":
        w = numedit.FloatEdit(_txt(r["caption"]), r["default"], preserve_significance=r["preserve"], decimal_separator=r["sep"])
    elif t == "SelectableIcon":
        w = urwid.SelectableIcon(_txt(r["text"]), r["cursor_position"], r["align"], r["wrap"])
    elif t == "Button":
        w = urwid.Button(_txt(r["label"]), align=r["align"], wrap=r["wrap"])
    elif t == "CheckBox":
        w = urwid.CheckBox(_txt(r["label"]), r["state"], r["has_mixed"])
    elif t == "RadioButton":
        w = urwid.RadioButton([], _txt(r["label"]), r["state"])
    elif t == "Divider":
        w = urwid.Divider(r["ch"], r["top"], r["bottom"])
    elif t == "ProgressBar":
        w = urwid.ProgressBar("pn", "pc", r["current"], r["done"], "ps" if r["satt"] else None)
    elif t == "BigText":
        w = urwid.BigText(r["text"], getattr(urwid, r["font"])())
    elif t == "AttrMap":
        w = urwid.AttrMap(kids[0], _attrmap(r["attr"]), _attrmap(r["focus"]))
    elif t == "AttrWrap":
        import warnings

        with warnings.catch_warnings():
            warnings.simplefilter("ignore", DeprecationWarning)
            warnings.simplefilter("ignore", PendingDeprecationWarning)
            w = urwid.AttrWrap(kids[0], r["attr"], r["focus"])
    elif t == "WidgetPlaceholder":
        w = urwid.WidgetPlaceholder(kids[0])
    elif t == "WidgetDisable":
        w = urwid.WidgetDisable(kids[0])
    elif t == "PopUpLauncher":
        w = urwid.PopUpLauncher(kids[0])
    elif t == "PopUpTarget":
        w = urwid.PopUpTarget(kids[0])
    elif t == "Padding":
        w = urwid.Padding(kids[0], _al(r["align"]), _al(r["width"]), r["min_width"], r["left"], r["right"])
    elif t == "Filler":
        w = urwid.Filler(kids[0], _al(r["valign"]), _al(r["height"]), r["min_height"], r["top"], r["bottom"])
    elif t == "LineBox":
        kw = {}
        off = r.get("off", [])
        if "t" in off:
            kw.update(tlcorner="", tline="", trcorner="")
        if "b" in off:
            kw.update(blcorner="", bline="", brcorner="")
        if "l" in off:
            kw.update(tlcorner="", lline="", blcorner="")
        if "r" in off:
            kw.update(trcorner="", rline="", brcorner="")
        kw.update(r.get("lines") or {})  # optional {"tline": ..., "lline": ...} (directed cases only; the generator never sets it)
        w = urwid.LineBox(kids[0], r["title"], r["title_align"], **kw)
    elif t == "BoxAdapter":
        w = urwid.BoxAdapter(kids[0], r["height"])
    elif t == "Scrollable":
        w = urwid.Scrollable(kids[0])
        if r.get("scrollpos"):
            w.set_scrollpos(r["scrollpos"])
    elif t == "ScrollBar":
        w = urwid.ScrollBar(kids[0], r["thumb"], r["trough"], r["side"], r["width"])
    elif t == "Pile":
        lst = []
        for k, (sk, amt) in zip(kids, r["items"]):
            lst.append((sk, amt, k) if sk in ("weight", "given") else (sk, k))
        w = urwid.Pile(lst, r["focus"])
    elif t == "Columns":
        lst = []
        for k, (sk, amt) in zip(kids, r["items"]):
            lst.append((sk, amt, k) if sk in ("weight", "given") else (sk, k))
        w = urwid.Columns(lst, r["dividechars"], r["focus"], r["min_width"], r["box_columns"] or None)
    elif t == "GridFlow":
        w = urwid.GridFlow(kids, r["cell_width"], r["h_sep"], r["v_sep"], _al(r["align"]), r["focus"])
    elif t == "Frame":
        parts = dict(zip(r["parts"], kids))
        w = urwid.Frame(parts["body"], parts.get("header"), parts.get("footer"), r["focus_part"])
    elif t == "Overlay":
        w = urwid.Overlay(
            kids[0], kids[1], _al(r["align"]), _al(r["width"]), _al(r["valign"]), _al(r["height"]),
            r["min_width"], r["min_height"], r["left"], r["right"], r["top"], r["bottom"],
        )  # fmt: skip
    elif t == "ListBox":
        walker = getattr(urwid, r["walker"])(kids)
        w = urwid.ListBox(walker)
        if r["focus"] is not None and kids:
            w.set_focus(r["focus"])
    else:
        raise ValueError(f"unknown recipe class {t}")
    if registry is not None:
        registry[id(w)] = (_path, r, w)
    return w


# ---------------------------------------------------------------- describe


def _kindof(v):
    """abstract an align/width/height option value"""
    if isinstance(v, (list, tuple)):
        return f"rel{'100' if v[1] == 100 else ('0' if v[1] == 0 else '')}"
    if isinstance(v, bool) or v is None:
        return str(v)
    if isinstance(v, (int, float)):
        return "given"
    return str(v)


def _nz(name, v):
    return f"{name}>0" if v else None


def options(r, mode="utf8"):
    """abstract option shape of one recipe node (no random values: kinds and classes only)"""
    t = r["t"]
    o = []
    if t in ("Text", "SelectableIcon"):
        o += [text_classes(r["text"], mode), r["align"], r["wrap"]]
    elif t == "Edit":
        o += ["cap:" + text_classes(r["caption"], mode), "txt:" + text_classes(r["edit_text"], mode), r["align"], r["wrap"]]
        if r["multiline"]:
            o.append("multiline")
        if r["mask"]:
            o.append("mask")
        if r["edit_pos"] is not None:
            o.append("pos")
    elif t in ("IntEdit", "IntegerEdit", "FloatEdit"):
        o += ["cap:" + text_classes(r["caption"], mode), "default" if r["default"] is not None else "nodefault"]
    elif t == "Button":
        o += [text_classes(r["label"], mode), r["align"], r["wrap"]]
    elif t in ("CheckBox", "RadioButton"):
        o += [text_classes(r["label"], mode)]
    elif t == "Divider":
        o += [text_classes(r["ch"], mode), _nz("top", r["top"]), _nz("bottom", r["bottom"])]
    elif t == "SolidFill":
        o += [text_classes(r["ch"], mode)]
    elif t == "BigText":
        o += [r["font"], "empty" if not r["text"] else "text"]
    elif t == "BarGraph":
        o += [f"bars{'0' if not r['data'] else '+'}", f"seg{r['nseg']}", "hlines" if r["hlines"] else None, "satt" if r["satt"] else None, "bw" if r.get("bar_width") else None]
    elif t == "GraphVScale":
        o += ["labels" if r["labels"] else "nolabels"]
    elif t == "ProgressBar":
        o += ["satt" if r["satt"] else None]
    elif t == "Padding":
        o += ["w:" + _kindof(r["width"]), "a:" + _kindof(r["align"]), _nz("left", r["left"]), _nz("right", r["right"]), "minw" if r["min_width"] else None]
    elif t == "Filler":
        o += ["h:" + _kindof(r["height"]), "va:" + _kindof(r["valign"]), _nz("top", r["top"]), _nz("bottom", r["bottom"]), "minh" if r["min_height"] else None]
    elif t == "LineBox":
        o += ["title" if r["title"] else None, ("off:" + "".join(r["off"])) if r.get("off") else None]
    elif t == "ScrollBar":
        o += [r["side"], "w1" if r["width"] == 1 else "w>1"]
    elif t == "Scrollable":
        o += ["pos>0" if r.get("scrollpos") else None]
    elif t == "Columns":
        o += ["div>0" if r["dividechars"] else None, "minw>1" if r["min_width"] > 1 else None, "boxcols" if r["box_columns"] else None]
    elif t == "GridFlow":
        o += ["a:" + _kindof(r["align"]), "hsep>0" if r["h_sep"] else None, "vsep>0" if r["v_sep"] else None]
    elif t == "Frame":
        o += ["focus:" + r["focus_part"]]
    elif t == "Overlay":
        o += [
            "w:" + _kindof(r["width"]), "h:" + _kindof(r["height"]), "a:" + _kindof(r["align"]), "va:" + _kindof(r["valign"]),
            "minw" if r["min_width"] else None, "minh" if r["min_height"] else None,
            "lr>0" if (r["left"] or r["right"]) else None, "tb>0" if (r["top"] or r["bottom"]) else None,
        ]  # fmt: skip
    elif t == "ListBox":
        o += [r["walker"].replace("Simple", "").replace("Walker", "")]
    return [x for x in o if x]


def describe(recipe, depth=3, detail=True, mode="utf8"):
    """abstract shape, e.g. 'Pile[pack:BigText{Thin3x3Font,text},pack:Text{ascii,left,space}]'"""
    r = recipe
    t = r["t"]
    s = t
    if detail:
        o = options(r, mode)
        if o:
            s += "{" + ",".join(o) + "}"
    cs = children(r)
    if not cs:
        if t in CONTAINER_CLASSES:
            s += "[]"
        return s
    if depth <= 0:
        return s + "[..]"
    parts = []
    for i, c in enumerate(cs):
        tag = ""
        if t in ("Pile", "Columns"):
            tag = r["items"][i][0]
            if t == "Columns" and i in (r.get("box_columns") or []):
                tag += "+box"
            tag += ":"
        elif t == "Frame":
            tag = r["parts"][i] + ":"
        elif t == "Overlay":
            tag = ("top", "bottom")[i] + ":"
        parts.append(tag + describe(c, depth - 1, detail, mode))
    if t in ("Pile", "Columns", "GridFlow", "ListBox") and len(parts) > 1:
        # order-insensitive, duplicate-insensitive shape for list-like containers
        parts = sorted(set(parts))
    return s + "[" + ",".join(parts) + "]"


# ---------------------------------------------------------------- walking built trees


def all_widgets(widget, _internal=False, _seen=None):
    """yield (widget, internal) for every widget of a built tree; internal=True for widgets that
    WidgetWrap-style classes (Button, CheckBox, LineBox, GridFlow, ...) construct themselves"""
    _seen = set() if _seen is None else _seen
    if id(widget) in _seen or widget is None:
        return
    _seen.add(id(widget))
    yield widget, _internal
    import urwid

    subs = []
    if isinstance(widget, urwid.WidgetWrap):
        if hasattr(widget, "contents") and not isinstance(widget, urwid.LineBox):
            for item in widget.contents:
                subs.append((item[0], _internal))
        if isinstance(widget, urwid.WidgetDecoration):
            subs.append((widget.original_widget, _internal))
        subs.append((widget._w, True))
    elif isinstance(widget, urwid.WidgetDecoration):
        subs.append((widget.original_widget, _internal))
    elif isinstance(widget, urwid.Frame):
        for name in ("header", "body", "footer"):
            subs.append((getattr(widget, name), _internal))
    elif isinstance(widget, urwid.ListBox):
        try:
            for w in widget.body:
                subs.append((w, _internal))
        except TypeError:
            pass
    elif hasattr(widget, "contents"):
        for item in widget.contents:
            subs.append((item[0], _internal))
    wrapped = getattr(widget, "_wrapped_widget", None)  # LineBox: WidgetDecoration + delegate mixin, not a WidgetWrap
    if wrapped is not None:
        subs.append((wrapped, True))
    for w, internal in subs:
        yield from all_widgets(w, internal, _seen)


# ---------------------------------------------------------------- recipe -> standalone Python expression


def _lit(v):
    return repr(_markup(v)) if isinstance(v, list) else repr(_txt(v))


def to_code(r):
    """Python expression (using `urwid` and `urwid.numedit`) that builds the same tree as build(r); used for
    standalone witnesses in reports.  Widgets needing a post-construction call use a walrus expression."""
    t = r["t"]
    k = [to_code(c) for c in children(r)]
    u = "urwid."
    if t == "SolidFill":
        return f"{u}SolidFill({r['ch']!r})"
    if t == "BarGraph":
        nseg = r["nseg"]
        attlist = ["bg", "c1", "c2"][: nseg + 1]
        satt = None
        if r["satt"]:
            satt = {(1, 0): "s10"}
            if nseg == 2:
                satt.update({(2, 0): "s20", (2, 1): "s21"})
        bw = f", g.set_bar_width({r['bar_width']})" if r.get("bar_width") is not None else ""
        return (
            f"(g := {u}BarGraph({attlist!r}, {(['line'] if r['hlines'] else None)!r}, {satt!r}){bw}, "
            f"g.set_data({[tuple(x) for x in r['data']]!r}, {r['top']!r}, {(r['hlines'] or None)!r}))[0]"
        )
    if t == "GraphVScale":
        return f"{u}GraphVScale({[(v, s) for v, s in r['labels']]!r}, {r['top']!r})"
    if t == "Text":
        return f"{u}Text({_lit(r['text'])}, {r['align']!r}, {r['wrap']!r})"
    if t == "Edit":
        return (
            f"{u}Edit({_lit(r['caption'])}, {_lit(r['edit_text'])}, multiline={r['multiline']!r}, align={r['align']!r}, "
            f"wrap={r['wrap']!r}, edit_pos={r['edit_pos']!r}, mask={r['mask']!r})"
        )
    if t == "IntEdit":
        return f"{u}IntEdit({_lit(r['caption'])}, {r['default']!r})"
    if t == "IntegerEdit":
        return f"{u}numedit.IntegerEdit({_lit(r['caption'])}, {r['default']!r}, {r['base']!r})"
    if t == "FloatEdit":
        return f"{u}numedit.FloatEdit({_lit(r['caption'])}, {r['default']!r}, preserve_significance={r['preserve']!r}, decimal_separator={r['sep']!r})"
    if t == "SelectableIcon":
        return f"{u}SelectableIcon({_lit(r['text'])}, {r['cursor_position']!r}, {r['align']!r}, {r['wrap']!r})"
    if t == "Button":
        return f"{u}Button({_lit(r['label'])}, align={r['align']!r}, wrap={r['wrap']!r})"
    if t == "CheckBox":
        return f"{u}CheckBox({_lit(r['label'])}, {r['state']!r}, {r['has_mixed']!r})"
    if t == "RadioButton":
        return f"{u}RadioButton([], {_lit(r['label'])}, {r['state']!r})"
    if t == "Divider":
        return f"{u}Divider({r['ch']!r}, {r['top']!r}, {r['bottom']!r})"
    if t == "ProgressBar":
        return f"{u}ProgressBar('pn', 'pc', {r['current']!r}, {r['done']!r}, {('ps' if r['satt'] else None)!r})"
    if t == "BigText":
        return f"{u}BigText({r['text']!r}, {u}{r['font']}())"
    if t in ("AttrMap", "AttrWrap"):
        return f"{u}{t}({k[0]}, {_attrmap(r['attr'])!r}, {_attrmap(r['focus'])!r})"
    if t in ("WidgetPlaceholder", "WidgetDisable", "PopUpLauncher", "PopUpTarget"):
        return f"{u}{t}({k[0]})"
    if t == "Padding":
        return f"{u}Padding({k[0]}, {_al(r['align'])!r}, {_al(r['width'])!r}, {r['min_width']!r}, {r['left']!r}, {r['right']!r})"
    if t == "Filler":
        return f"{u}Filler({k[0]}, {_al(r['valign'])!r}, {_al(r['height'])!r}, {r['min_height']!r}, {r['top']!r}, {r['bottom']!r})"
    if t == "LineBox":
        kw = {}
        off = r.get("off", [])
        if "t" in off:
            kw.update(tlcorner="", tline="", trcorner="")
        if "b" in off:
            kw.update(blcorner="", bline="", brcorner="")
        if "l" in off:
            kw.update(tlcorner="", lline="", blcorner="")
        if "r" in off:
            kw.update(trcorner="", rline="", brcorner="")
        kw.update(r.get("lines") or {})
        extra = "".join(f", {a}={v!r}" for a, v in kw.items())
        return f"{u}LineBox({k[0]}, {r['title']!r}, {r['title_align']!r}{extra})"
    if t == "BoxAdapter":
        return f"{u}BoxAdapter({k[0]}, {r['height']!r})"
    if t == "Scrollable":
        if r.get("scrollpos"):
            return f"(s := {u}Scrollable({k[0]}), s.set_scrollpos({r['scrollpos']}))[0]"
        return f"{u}Scrollable({k[0]})"
    if t == "ScrollBar":
        return f"{u}ScrollBar({k[0]}, {r['thumb']!r}, {r['trough']!r}, {r['side']!r}, {r['width']!r})"
    if t in ("Pile", "Columns"):
        items = []
        for c, (sk, amt) in zip(k, r["items"]):
            items.append(f"({sk!r}, {amt!r}, {c})" if sk in ("weight", "given") else f"({sk!r}, {c})")
        lst = "[" + ", ".join(items) + "]"
        if t == "Pile":
            return f"{u}Pile({lst}, {r['focus']!r})"
        return f"{u}Columns({lst}, {r['dividechars']!r}, {r['focus']!r}, {r['min_width']!r}, {(r['box_columns'] or None)!r})"
    if t == "GridFlow":
        return f"{u}GridFlow([{', '.join(k)}], {r['cell_width']!r}, {r['h_sep']!r}, {r['v_sep']!r}, {_al(r['align'])!r}, {r['focus']!r})"
    if t == "Frame":
        parts = dict(zip(r["parts"], k))
        return f"{u}Frame({parts['body']}, {parts.get('header')}, {parts.get('footer')}, {r['focus_part']!r})"
    if t == "Overlay":
        return (
            f"{u}Overlay({k[0]}, {k[1]}, {_al(r['align'])!r}, {_al(r['width'])!r}, {_al(r['valign'])!r}, {_al(r['height'])!r}, "
            f"{r['min_width']!r}, {r['min_height']!r}, {r['left']!r}, {r['right']!r}, {r['top']!r}, {r['bottom']!r})"
        )
    if t == "ListBox":
        base = f"{u}ListBox({u}{r['walker']}([{', '.join(k)}]))"
        if r["focus"] is not None and k:
            return f"(l := {base}, l.set_focus({r['focus']}))[0]"
        return base
    raise ValueError(t)
