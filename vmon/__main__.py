import sys

from vmon.core import main

sys.exit(main(sys.argv[1:]))
