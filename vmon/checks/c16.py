"""C16 focus-tracking lists: reference-model monitor (built-in list + position shadow).

Every operation is applied to (a) the real monitored list, (b) a built-in list holding the
same objects and (c) a shadow list of old-position markers that tells where each old
position ended up.  The oracle is evaluated after every single operation.
"""

from __future__ import annotations

import itertools

from vmon import reach

PROPERTY = "C16"
LEVEL = "exploration"
SHARDS = {"quick": 8, "thorough": 16}
BUDGET = {"quick": 25.0, "thorough": 420.0}
REQUIRE = {"ops_applied": 20000, "focus_moved_by_mutation": 100, "errors_matched": 100, "large_list_ops_focus_above_256": 300, "large_list_noop_focus_assignments": 20, "twin_items_assigned": 500, "op:set_twin": 500, "empty_then_refill_histories": 3000, "random_histories": 1000}
RULE = (
    "op histories over MonitoredFocusList / MonitoredList / SimpleFocusListWalker / SimpleListWalker / "
    "Pile, Columns, GridFlow .contents; exhaustive depth-1 over every (len 0..5, focus) state x the full op universe "
    "(int idx in [-6,6], slices start/stop in {None,-6..6} x step {None,+-1,+-2,+-3}, assign lengths 0..3 + exact, "
    "insert/append/extend/pop/remove/reverse/sort/+=/*=/clear/focus=, wrong types), exhaustive depth-2 over a reduced "
    "universe (thorough: depth-3), random histories to length 40 on lists to 12; a case = (flavour, len, focus, op "
    "sequence); distinct = distinct such tuples; non-trivial = at least one op executed"
)
ASSUMES = [
    "items assigned by an operation are fresh objects (an assignment that re-inserts the focused object is not judged)",
    "focus-changed callback is judged only between non-empty states (entering/leaving the empty list has no position to report)",
    "'item following the removed ones' = first surviving item after the old focus position, else the last item",
    "after sort() the focus may designate any item EQUAL (==) to the one it designated (equal twins are indistinguishable to list.index)",
    "a non-integer focus assignment must be rejected with TypeError or IndexError (either); list operations must raise exactly what list raises",
]


class Tok:
    __slots__ = ("n",)

    def __init__(self, n):
        self.n = n

    def __lt__(self, o):
        return self.n < o.n

    # value equality: fresh tokens have unique numbers, so equal means identical except for the deliberate
    # "twins" (op set_twin / insert_twin): a distinct object equal to an item already in the list
    def __eq__(self, o):
        return isinstance(o, Tok) and self.n == o.n

    def __ne__(self, o):
        return not self.__eq__(o)

    def __hash__(self):
        return hash(self.n)

    def __repr__(self):
        return f"t{self.n}"


SORT_KEYS = {
    "none": None,
    "neg": lambda t: -t.n,
    "mod3": lambda t: t.n % 3,
    "const": lambda t: 0,
}


def _raising_key(item):
    raise ValueError("key")


class GenOnce:
    """a one-shot iterable that is not a Collection (no len): like a generator, it is exhausted after the
    first pass, so code that iterates its argument twice loses the items the second time"""

    def __init__(self, items):
        self._it = iter(list(items))

    def __iter__(self):
        return self._it


def mkslice(s):
    return slice(*s)


def apply_op(op, lst, new, before, focus_setter=None):
    """apply op to list-like lst; `new` = fresh items for this op; `before` = identity snapshot of
    the contents before the op (used to resolve value-based ops).  Returns exception or None."""
    k = op[0]
    try:
        if k == "set":
            lst[op[1]] = new[0]
        elif k == "set_twin":
            # assign an equal-but-distinct object over the item it equals
            lst[op[1]] = new[0]
        elif k == "insert_twin":
            lst.insert(op[1], new[0])
        elif k == "setslice":
            lst[mkslice(op[1])] = new
        elif k == "setslice_gen":
            lst[mkslice(op[1])] = GenOnce(new)
        elif k == "setslice_nonit":
            lst[mkslice(op[1])] = 5
        elif k == "del":
            del lst[op[1]]
        elif k == "delslice":
            del lst[mkslice(op[1])]
        elif k == "insert":
            lst.insert(op[1], new[0])
        elif k == "append":
            lst.append(new[0])
        elif k == "extend":
            lst.extend(new)
        elif k == "extend_tuple":
            lst.extend(tuple(new))
        elif k == "extend_gen":
            lst.extend(GenOnce(new))
        elif k == "extend_nonit":
            lst.extend(5)
        elif k == "pop":
            if op[1] is None:
                lst.pop()
            else:
                lst.pop(op[1])
        elif k == "remove":
            if op[1] is None or not before:
                lst.remove(Tok(-1))
            else:
                lst.remove(before[op[1] % len(before)])
        elif k == "reverse":
            lst.reverse()
        elif k == "sort":
            lst.sort(key=SORT_KEYS[op[1]], reverse=op[2])
        elif k == "sort_bad":
            # calls a built-in list rejects (whatever the length, for the keyword ones)
            if op[1] == "key_not_callable":
                lst.sort(key=5)
            elif op[1] == "key_raises":
                lst.sort(key=_raising_key)
            elif op[1] == "unknown_kw":
                lst.sort(cmp=None)
            else:
                lst.sort(5)
        elif k == "iadd":
            lst += new
        elif k == "iadd_gen":
            lst += GenOnce(new)
        elif k == "imul":
            lst *= op[1]
        elif k == "clear":
            lst.clear()
        elif k == "focus":
            if focus_setter is not None:
                focus_setter(op[1])
            else:
                lst.focus = op[1]
        else:
            raise AssertionError(op)
    except Exception as e:  # noqa: BLE001
        return e
    return None


def n_new(op, n):
    k = op[0]
    if k in ("set", "insert", "append", "set_twin", "insert_twin"):
        return 1
    if k in ("setslice", "setslice_gen", "extend", "extend_tuple", "extend_gen", "iadd", "iadd_gen"):
        c = op[2] if k.startswith("setslice") else op[1]
        if c == "exact":
            return len(range(*mkslice(op[1]).indices(n)))
        return c
    return 0


def shadow_apply(op, n, before):
    """where does each old position go?  returns list of markers: int = old position, ('n', i) = new item i."""
    sh = list(range(n))
    k = op[0]
    newm = [("n", i) for i in range(n_new(op, n))]
    if k == "remove":
        if op[1] is not None and before:
            tgt = before[op[1] % len(before)]
            for i, b in enumerate(before):
                if b == tgt:  # list.remove removes the first EQUAL item
                    del sh[i]
                    break
        return sh
    if k == "sort":
        key = SORT_KEYS[op[1]]
        kf = (lambda i: before[i]) if key is None else (lambda i: key(before[i]))
        return sorted(sh, key=kf, reverse=op[2])
    if k == "focus":
        return sh
    err = apply_op(op, sh, newm, None)
    if err is not None:
        return None
    return sh


# ------------------------------------------------------------------ flavours


class Flavour:
    name = "?"
    has_focus = True
    focus_none_when_empty = True
    tracks = True  # focus follows item

    def make(self, n, focus):
        raise NotImplementedError

    def item(self, tok):
        return tok

    def get_focus(self, ml):
        return ml.focus


class FMFL(Flavour):
    name = "MonitoredFocusList"

    def make(self, toks, focus, log):
        from urwid.widget.monitored_list import MonitoredFocusList

        ml = MonitoredFocusList(toks, focus=focus or 0)
        ml.set_modified_callback(lambda: log.append(("mod", [id(x) for x in ml])))
        ml.set_focus_changed_callback(lambda f: log.append(("foc", f)))
        return ml, ml


class FML(Flavour):
    name = "MonitoredList"
    has_focus = False

    def make(self, toks, focus, log):
        from urwid.widget.monitored_list import MonitoredList

        ml = MonitoredList(toks)
        ml.set_modified_callback(lambda: log.append(("mod", [id(x) for x in ml])))
        return ml, ml


class FSFLW(Flavour):
    name = "SimpleFocusListWalker"

    def make(self, toks, focus, log):
        import urwid

        ml = urwid.SimpleFocusListWalker(toks)
        if toks and focus:
            ml.focus = focus
        urwid.connect_signal(ml, "modified", lambda: log.append(("mod", [id(x) for x in ml])))
        ml.set_focus_changed_callback(lambda f: log.append(("foc", f)))
        return ml, ml


class FSFLWNoCb(Flavour):
    """the same walker observed through its "modified" signal only: set_focus_changed_callback() replaces the
    walker's own _focus_changed hook, so a session that installs a callback never runs the class's own hook"""

    name = "SimpleFocusListWalker(no-focus-callback)"
    focus_cb = False

    def make(self, toks, focus, log):
        import urwid

        ml = urwid.SimpleFocusListWalker(toks)
        if toks and focus:
            ml.focus = focus
        urwid.connect_signal(ml, "modified", lambda: log.append(("mod", [id(x) for x in ml])))
        return ml, ml


class FMFLSub(Flavour):
    """callbacks supplied by overriding the _modified / _focus_changed hooks in a subclass (the pattern urwid's
    own walkers use) instead of the set_*_callback() setters"""

    name = "MonitoredFocusList(subclass-hooks)"

    def make(self, toks, focus, log):
        from urwid.widget.monitored_list import MonitoredFocusList

        class Sub(MonitoredFocusList):
            def _modified(sub):  # noqa: N805
                log.append(("mod", [id(x) for x in sub]))

            def _focus_changed(sub, new_focus):  # noqa: N805
                log.append(("foc", new_focus))

        ml = Sub(toks, focus=focus if toks else 0)
        return ml, ml


class FSFLWSub(Flavour):
    name = "SimpleFocusListWalker(subclass-hooks)"

    def make(self, toks, focus, log):
        import urwid

        class Sub(urwid.SimpleFocusListWalker):
            def _focus_changed(sub, new_focus):  # noqa: N805
                log.append(("foc", new_focus))

        ml = Sub(toks)
        if toks and focus:
            ml.focus = focus
        urwid.connect_signal(ml, "modified", lambda: log.append(("mod", [id(x) for x in ml])))
        return ml, ml


class FSLW(Flavour):
    name = "SimpleListWalker"
    focus_none_when_empty = False
    tracks = False

    def make(self, toks, focus, log):
        import urwid

        ml = urwid.SimpleListWalker(toks)
        if toks and focus:
            ml.focus = focus
        urwid.connect_signal(ml, "modified", lambda: log.append(("mod", [id(x) for x in ml])))
        return ml, ml


class FContainer(Flavour):
    """Pile/Columns/GridFlow .contents: items are (widget, options) tuples"""

    def __init__(self, kind):
        self.kind = kind
        self.name = f"{kind}.contents"

    def wrap(self, tok):
        import urwid

        w = urwid.Text(str(tok.n))
        if self.kind == "Pile":
            return (w, ("pack", None))
        if self.kind == "Columns":
            return (w, ("weight", 1, False))
        return (w, ("given", 3))

    def make(self, toks, focus, log):
        import urwid

        if self.kind == "Pile":
            c = urwid.Pile([])
        elif self.kind == "Columns":
            c = urwid.Columns([])
        else:
            c = urwid.GridFlow([], 3, 1, 0, "left")
        ml = c.contents
        ml[:] = toks
        if toks and focus:
            ml.focus = focus
        orig_mod = ml._modified
        orig_foc = ml._focus_changed

        def mod():
            log.append(("mod", [id(x) for x in ml]))
            return orig_mod()

        def foc(f):
            log.append(("foc", f))
            return orig_foc(f)

        ml._modified = mod
        ml._focus_changed = foc
        return ml, c


FLAVOURS = {f.name: f for f in [FMFL(), FMFLSub(), FML(), FSFLW(), FSFLWNoCb(), FSFLWSub(), FSLW(), FContainer("Pile"), FContainer("Columns"), FContainer("GridFlow")]}


class CTok(tuple):
    """container item that is also orderable (for sort)"""

    __slots__ = ()

    @property
    def n(self):
        return int(self[0].text)

    def __lt__(self, o):
        return self.n < o.n

    # plain tuple equality: two items are equal when they hold the same widget object and equal options
    # (a "twin" of an item is a new tuple around the same widget)
    __hash__ = tuple.__hash__


# ------------------------------------------------------------------ op universe

IDX = list(range(-6, 7))
BIG = [2**63, -(2**63) - 1, 10**30, 2**31, -(2**31) - 1]
SL_BOUNDS = [None, *range(-6, 7)]
STEPS = [None, 1, -1, 2, -2, 3, -3]


def universe(idx=IDX, bounds=SL_BOUNDS, steps=STEPS, full=True):
    ops = []
    for i in idx:
        ops += [["set", i], ["del", i], ["insert", i], ["pop", i], ["focus", i], ["set_twin", i]]
        if full:
            ops.append(["insert_twin", i])
    if full:
        # indices beyond the machine word, booleans, None: list raises OverflowError / IndexError / TypeError
        for big in BIG:
            ops += [["set", big], ["del", big], ["insert", big], ["pop", big], ["focus", big]]
        ops += [["insert", None], ["pop", None], ["insert", True], ["set", False], ["del", True]]
        ops += [["delslice", [BIG[0], None, None]], ["delslice", [None, BIG[1], None]], ["setslice", [BIG[1], BIG[0], None], 1], ["setslice", [None, None, BIG[0]], 0]]
    for s, e, st in itertools.product(bounds, bounds, steps):
        sl = [s, e, st]
        ops.append(["delslice", sl])
        for k in (0, 1, 2, 3, "exact") if full else (0, 2, "exact"):
            ops.append(["setslice", sl, k])
        if full and st in (None, 2):
            ops.append(["setslice_gen", sl, "exact"])
    ops += [["append"], ["pop", None], ["reverse"], ["clear"], ["remove", None]]
    ops += [["extend", k] for k in (0, 1, 3)] + [["extend_tuple", 2], ["extend_gen", 2], ["iadd", 0], ["iadd", 2], ["iadd_gen", 2]]
    ops += [["remove", p] for p in range(6)]
    ops += [["sort", kk, r] for kk in SORT_KEYS for r in (False, True)]
    ops += [["sort_bad", kind] for kind in ("key_not_callable", "key_raises", "unknown_kw", "positional")]
    ops += [["imul", n] for n in (-1, 0, 1, 2, 3)]
    if full:
        ops += [["set", "a"], ["del", "a"], ["insert", "a"], ["pop", "a"], ["imul", "a"], ["extend_nonit"], ["setslice_nonit", [None, None, None]], ["focus", "a"], ["focus", None]]
    return ops


def rand_op(rng, n):
    r = rng.random()
    span = n + 3

    def ri():
        return rng.randint(-span, span)

    def rb():
        return None if rng.random() < 0.25 else ri()

    if r < 0.02:
        return [rng.choice(["set", "del", "insert", "pop", "focus"]), rng.choice([*BIG, None])]
    if r < 0.03:
        return ["sort_bad", rng.choice(["key_not_callable", "key_raises", "unknown_kw", "positional"])]
    if r < 0.05:
        return [rng.choice(["set_twin", "set_twin", "insert_twin"]), ri()]
    if r < 0.10:
        return ["set", ri()]
    if r < 0.20:
        return ["del", ri()]
    if r < 0.40:
        sl = [rb(), rb(), rng.choice(STEPS)]
        if rng.random() < 0.4:
            return ["delslice", sl]
        return ["setslice", sl, rng.choice([0, 1, 2, 3, "exact", "exact"])]
    if r < 0.50:
        return ["insert", ri()]
    if r < 0.56:
        return ["append"]
    if r < 0.62:
        return [rng.choice(["extend", "iadd", "extend_gen", "extend_tuple"]), rng.randint(0, 3)]
    if r < 0.70:
        return ["pop", rng.choice([None, ri()])]
    if r < 0.76:
        return ["remove", rng.choice([None, rng.randint(0, 12)])]
    if r < 0.80:
        return ["reverse"]
    if r < 0.86:
        return ["sort", rng.choice(list(SORT_KEYS)), rng.random() < 0.5]
    if r < 0.90:
        return ["imul", rng.choice([-1, 0, 1, 2, 2, 3])]
    if r < 0.92:
        return ["clear"]
    return ["focus", ri()]


# ------------------------------------------------------------------ the monitor


class Session:
    """one real list + model, checked after every op"""

    def __init__(self, ctx, flav: Flavour, n, focus):
        self.ctx = ctx
        self.flav = flav
        self.counter = itertools.count(100)
        self.log = []
        self.init = [n, focus]
        toks = [self.fresh(i) for i in range(n)]
        self.ml, self.owner = flav.make(toks, focus, self.log)
        self.model = list(toks)
        self.history = []
        del self.log[:]

    def fresh(self, n=None):
        n = next(self.counter) if n is None else n
        if isinstance(self.flav, FContainer):
            return CTok(self.flav.wrap(Tok(n)))
        return Tok(n)

    def witness(self):
        return {"flavour": self.flav.name, "init": self.init, "ops": self.history}

    def viol(self, kind, msg):
        op = self.history[-1]
        opk = op[0]
        detail = ""
        if opk in ("setslice", "delslice", "setslice_gen"):
            s, e, st = op[1]
            n = self.n_before
            a, b, c = slice(s, e, st).indices(n)
            detail = f"step={'neg' if c < 0 else ('1' if c == 1 else 'ext')},{'start>stop' if (a > b and c > 0) else ('empty' if len(range(a, b, c)) == 0 else 'nonempty')}"
        sig = f"C16|{self.flav.name}|{opk}|{kind}" + (f"|{detail}" if detail else "")
        self.ctx.violation(sig, f"{kind}: {msg} after {op} on len={self.n_before} focus={self.f_before}", self.witness())

    def step(self, op) -> bool:
        """apply op; returns False if the session should be abandoned (state diverged)"""
        ctx, ml, flav = self.ctx, self.ml, self.flav
        self.history.append(op)
        before = list(self.model)
        n = len(before)
        self.n_before = n
        f_before = flav.get_focus(ml) if flav.has_focus else None
        self.f_before = f_before
        if op[0] == "focus" and (not flav.has_focus or (not flav.tracks and n == 0)):
            self.history.pop()
            return True
        new = [self.fresh() for _ in range(n_new(op, n))]
        if op[0] in ("set_twin", "insert_twin") and n and isinstance(op[1], int):
            src = before[op[1] % n] if op[0] == "insert_twin" or -n <= op[1] < n else None
            if src is not None:
                new = [CTok((src[0], tuple(list(src[1])))) if isinstance(src, CTok) else Tok(src.n)]
                ctx.count("twin_items_assigned")
        del self.log[:]
        exc_m = apply_op(op, self.model, new, before) if op[0] != "focus" else self.model_focus_exc(op, n)
        exc_i = apply_op(op, ml, new, before, None if flav.tracks else ml.set_focus)
        ctx.count("ops_applied")
        ctx.count(f"op:{op[0]}")
        after_i = list(ml)
        same = len(after_i) == len(self.model) and all(a is b for a, b in zip(after_i, self.model))
        mods = [e for e in self.log if e[0] == "mod"]
        focs = [e for e in self.log if e[0] == "foc"]
        ok = True
        # --- errors
        if op[0] == "focus" and exc_m is not None and exc_i is not None and not isinstance(op[1], int):
            # assigning a non-integer focus is not a list operation: the statement only asks that an invalid
            # position is rejected; TypeError (list-index style) and IndexError (documented for containers) both are
            if isinstance(exc_i, (TypeError, IndexError)):
                exc_m = exc_i
        if (exc_m is None) != (exc_i is None) or (exc_m is not None and type(exc_m) is not type(exc_i)):
            changed = not (len(after_i) == n and all(a is b for a, b in zip(after_i, before)))
            self.viol(
                f"error-mismatch:list={type(exc_m).__name__ if exc_m else 'ok'},impl={type(exc_i).__name__ if exc_i else 'ok'}{',contents-changed' if changed and exc_i else ''}",
                f"list -> {exc_m!r}, impl -> {exc_i!r}",
            )
            return False
        if exc_m is not None:
            ctx.count("errors_matched")
            if not same:
                self.viol("changed-on-error", f"contents {after_i} != {self.model}")
                ok = False
            if mods:
                self.viol("modified-callback-on-failed-call", f"{len(mods)} calls")
            if focs:
                self.viol("focus-callback-on-failed-call", f"{focs}")
            if flav.has_focus and flav.get_focus(ml) != f_before:
                self.viol("focus-changed-on-error", f"{f_before} -> {flav.get_focus(ml)}")
            return ok
        # --- contents
        if not same:
            self.viol("contents-differ", f"impl {after_i} list {self.model}")
            return False
        changed = not (len(after_i) == n and all(a is b for a, b in zip(after_i, before)))
        if changed:
            ctx.count("content_changes")
            if len(mods) != 1:
                self.viol(f"modified-callback-count={min(len(mods), 2)}-on-change", f"{len(mods)} calls")
            elif mods[0][1] != [id(x) for x in after_i]:
                self.viol("modified-callback-before-change", "callback saw different contents than the final ones")
        elif len(mods) > 1:
            self.viol("modified-callback-twice-on-noop", f"{len(mods)} calls")
        if not flav.has_focus:
            return True
        # --- focus
        f_after = flav.get_focus(ml)
        m = len(after_i)
        if m == 0:
            if flav.focus_none_when_empty and f_after is not None:
                self.viol("focus-not-None-on-empty", f"focus={f_after}")
            return True
        if not isinstance(f_after, int) or not 0 <= f_after < m:
            self.viol("focus-out-of-range", f"focus={f_after} len={m}")
            return False
        if op[0] == "focus":
            if f_after != op[1]:
                self.viol("focus-set-ignored", f"{f_after}")
            exp = op[1]
        elif not flav.tracks or f_before is None or n == 0:
            exp = None
        else:
            exp = self.expected_focus(op, n, f_before, before, after_i)
        if exp is not None:
            if isinstance(exp, set):
                good = f_after in exp
            else:
                good = f_after == exp
            if not good:
                survived = any(x is before[f_before] for x in after_i)
                self.viol(
                    "focus-left-surviving-item" if survived else "focus-after-removal-wrong",
                    f"focus {f_before}->{f_after}, expected {exp}",
                )
                ok = False
            elif f_after != f_before:
                ctx.count("focus_moved_by_mutation" if op[0] != "focus" else "focus_set")
        if f_before is not None and n > 0 and flav.tracks and getattr(flav, "focus_cb", True):
            if (f_after != f_before) != bool(focs):
                self.viol(
                    "focus-callback-missing" if not focs else "focus-callback-spurious", f"focus {f_before}->{f_after}, callbacks {focs}"
                )
            elif focs and focs[-1][1] != f_after:
                self.viol("focus-callback-wrong-arg", f"{focs} vs {f_after}")
        return ok

    def model_focus_exc(self, op, n):
        i = op[1]
        if n == 0:
            return None
        if not isinstance(i, int):
            return TypeError()
        if not 0 <= i < n:
            return IndexError()
        return None

    def expected_focus(self, op, n, f, before, after):
        sh = shadow_apply(op, n, before)
        if sh is None:
            return None
        if len(sh) != len(after):
            return None
        if op[0] == "sort":
            tgt = before[f]
            # "the same item" is read up to ==, the way list.index / list.remove identify items: with an
            # equal twin in the list either occurrence is accepted after a sort
            return {i for i, x in enumerate(after) if x == tgt}
        if op[0] == "imul" and isinstance(op[1], int) and op[1] > 1:
            return f
        if f in sh:
            return sh.index(f)
        # focused item was removed
        k = op[0]
        if k in ("set", "set_twin", "setslice", "setslice_gen"):
            if k in ("set", "set_twin"):
                removed = [op[1] % n] if -n <= op[1] < n else []
            else:
                removed = list(range(*mkslice(op[1]).indices(n)))
                if mkslice(op[1]).indices(n)[2] == 1:
                    removed.sort()
            if f in removed:
                r = removed.index(f)
                if ("n", r) in sh:
                    return sh.index(("n", r))
        for p in range(f + 1, n):
            if p in sh:
                return sh.index(p)
        return len(sh) - 1


def run_history(ctx, flavname, n, focus, ops):
    s = Session(ctx, FLAVOURS[flavname], n, focus)
    done = 0
    for op in ops:
        if not s.step(op):
            break
        done += 1
    ctx.case((flavname, n, focus, ops), nontrivial=done > 0 or bool(ops))
    return s


def run(ctx):
    from urwid.widget import monitored_list as M

    reach.watch(
        M.MonitoredFocusList._adjust_focus_on_contents_modified,
        M.MonitoredFocusList.__setitem__,
        M.MonitoredFocusList.__delitem__,
        M.MonitoredFocusList.focus.fset,
        M.MonitoredFocusList.sort,
        M.MonitoredFocusList.reverse,
    )
    full = universe()
    small = universe(idx=list(range(-3, 4)), bounds=[None, -3, -2, -1, 0, 1, 2, 3], steps=[None, 1, -1, 2, -2], full=False)
    ctx.extra["op_universe_full"] = len(full)
    ctx.extra["op_universe_reduced"] = len(small)
    flavs = list(FLAVOURS)
    idx = 0
    # depth 1: exhaustive, full universe, both core flavours; sampled for walker/container flavours
    for flav in flavs:
        core = flav in ("MonitoredFocusList", "SimpleFocusListWalker")
        for n in range(0, 6):
            for f in range(max(1, n)):
                for op in full:
                    idx += 1
                    if not ctx.mine(idx):
                        continue
                    if not core and ctx.quick and idx % 5:
                        continue
                    run_history(ctx, flav, n, f, [op])
    ctx.sample({"flavour": "MonitoredFocusList", "init": [4, 2], "ops": [full[7], full[300]]})
    # depth 2 (and 3 in thorough): reduced universe on MonitoredFocusList
    depth2_done = True
    for n in range(0, 5):
        for f in range(max(1, n)):
            for op1 in small:
                idx += 1
                if not ctx.mine(idx):
                    continue
                if ctx.quick and (idx // ctx.nshards) % 12:
                    continue
                if not ctx.more(0.6):
                    depth2_done = False
                    break
                for op2 in small:
                    run_history(ctx, "MonitoredFocusList", n, f, [op1, op2])
    ctx.extra["depth2_complete_in_budget"] = depth2_done
    idx = 0  # (the depth-2 loop may stop early: later sections partition from their own origin)
    if not ctx.quick:
        tiny = universe(idx=[-2, -1, 0, 1, 2], bounds=[None, -2, -1, 0, 1, 2], steps=[None, -1, 2, -2], full=False)
        ctx.extra["op_universe_depth3"] = len(tiny)
        for n in range(0, 4):
            for f in range(max(1, n)):
                for op1 in tiny:
                    idx += 1
                    if not ctx.mine(idx) or not ctx.more(0.85):
                        continue
                    for op2 in tiny:
                        for op3 in tiny:
                            run_history(ctx, "MonitoredFocusList", n, f, [op1, op2, op3])
    # directed: empty the list by every means, then refill it by every means (a stale focus index surviving the
    # empty state shows on the refill), then one more op; deterministic, never skipped for time
    idx = 0
    empties = [["clear"], ["delslice", [None, None, None]], ["imul", 0], ["setslice", [None, None, None], 0], ["imul", -1]]
    refills = [["iadd", 2], ["iadd", 1], ["extend", 3], ["extend", 1], ["append"], ["insert", 0], ["insert", 5], ["setslice", [0, 0, None], 2], ["setslice", [None, None, None], 3], ["extend_gen", 2], ["iadd_gen", 2]]
    thirds = [["focus", 0], ["append"], ["reverse"], ["del", 0], ["iadd", 1]]
    for flav in flavs:
        for n in range(1, 5):
            for f in range(n):
                for e_op in empties:
                    for r_op in refills:
                        idx += 1
                        if not ctx.mine(idx):
                            continue
                        run_history(ctx, flav, n, f, [e_op, r_op, thirds[idx // ctx.nshards % len(thirds)]])
                        ctx.count("empty_then_refill_histories")
    # long lists: positions beyond the small-integer range of the interpreter (equal indices are then distinct
    # objects), focus just below / at / above 256 and near the end; one op and two ops relative to the focus
    rng = ctx.rng
    idx = 0
    for flav in ("MonitoredFocusList", "SimpleFocusListWalker", "Pile.contents"):
        if flav not in FLAVOURS:
            continue
        for n in (258, 300, 600):
            for f in sorted({255, 256, 257, n - 2, n - 1, n // 2 + 130}):
                if not 0 <= f < n:
                    continue
                rel = [
                    ["focus", f], ["focus", f - 1], ["focus", f + 1], ["focus", n - 1], ["focus", n],
                    ["set", 0], ["set", f - 1], ["set", f], ["set", f + 1], ["set", -1], ["set", -n - 1], ["set", n],
                    ["setslice", [0, 3, None], 3], ["setslice", [f - 2, f, None], "exact"], ["setslice", [f, f + 2, None], "exact"],
                    ["setslice", [0, f, 2], "exact"], ["setslice", [1, 4, None], 0], ["setslice", [1, 1, None], 2],
                    ["del", 0], ["del", f], ["del", n - 1], ["del", n], ["insert", 0], ["insert", f], ["insert", n], ["append"],
                    ["pop", None], ["pop", 0], ["reverse"], ["sort", next(iter(SORT_KEYS)), False], ["imul", 1], ["extend", 0], ["iadd", 0],
                    ["delslice", [0, 2, None]], ["delslice", [f + 1, None, None]], ["delslice", [5, 5, None]],
                ]
                for j, op in enumerate(rel):
                    idx += 1
                    if not ctx.mine(idx):
                        continue
                    if ctx.quick and flav != "MonitoredFocusList" and (idx // ctx.nshards) % 3:
                        continue
                    second = rel[(j * 7 + f) % len(rel)]
                    for ops in ([op], [op, second]):
                        s = run_history(ctx, flav, n, f, ops)
                        ctx.count("large_list_ops_focus_above_256" if f > 256 else "large_list_ops_focus_up_to_256", len(s.history))
                        if op[0] == "focus" and op[1] == f:
                            ctx.count("large_list_noop_focus_assignments")
    # random histories
    k = 0
    min_random = ctx.pick(150, 2000)  # per shard, whatever the machine load did to the time budget
    while ctx.more(1.0) or k < min_random:
        k += 1
        flav = rng.choice(flavs)
        n = rng.randint(0, 12)
        if k % 25 == 0:
            n = rng.choice([257, 300, 520])
        f = rng.randrange(n) if n else 0
        if n > 256 and rng.random() < 0.7:
            f = rng.randrange(256, n)
        s = Session(ctx, FLAVOURS[flav], n, f)
        for _ in range(rng.randint(3, 40)):
            op = rand_op(rng, max(len(s.model), 1))
            if op[0] == "imul" and len(s.model) > 30:
                op = ["clear"]
            if not s.step(op):
                break
        ctx.case((flav, n, f, s.history))
        ctx.count("random_histories")
        if k <= 2:
            ctx.sample(s.witness())
    reach.flush(ctx)


def replay(ctx, wit):
    s = run_history(ctx, wit["flavour"], wit["init"][0], wit["init"][1], wit["ops"])
    return s
