"""C13 event-loop contract: history recording at the client boundary + offline contract checker.

Workload programs (vmon.gen.c13_programs) are executed against the real loop classes; the probe
(vmon.monitors.loop_probe) records every API call and callback entry/exit with the loop's own
clock; vmon.models.loop_contract judges the history clause by clause.

* select, zmq under a VIRTUAL OS (fake clock + fake selector / fake zmq poller): exhaustive
  enumeration of all weak orderings of "alarm due" vs "descriptor ready" events with one acting
  callback, plus random programs.  Fully deterministic.
* all six loops under the REAL clock, in worker subprocesses (one per loop per shard; a fresh
  reactor / asyncio loop / IOLoop per program).  Verdicts use only the recorded event order and
  the loop's own clock ("quiescent" = the loop entered its OS wait primitive asking for >= 10 ms,
  recorded by a pass-through wrapper; wait durations are never used); a violation found under the
  real clock is re-executed and only reported when it reproduces.  A worker watchdog is INCONCLUSIVE.
"""

from __future__ import annotations

import json
import os
import random
import signal
import subprocess
import sys
import tempfile
import time

from vmon.monitors.loop_probe import EXC_KINDS, RETURN_VALUES, SHAPES

PROPERTY = "C13"
LEVEL = "exploration"
SHARDS = {"quick": 8, "thorough": 16}
BUDGET = {"quick": 17.0, "thorough": 420.0}
CLAUSES = (
    "alarm-once",
    "alarm-not-early",
    "alarm-order",
    "alarm-remove",
    "alarm-remove-again",
    "watch-readable",
    "watch-after-remove",
    "watch-served",
    "idle-before-quiescent",
    "idle-after-remove",
    "exit-silent",
    "exc-reraised",
    "exc-once",
    "api-call",
    "foreign-exception",
    "watch-remove",
    "watch-remove-again",
    "idle-remove",
    "idle-remove-again",
)
REQUIRE = {
    **{f"eval:{c}": 200 for c in CLAUSES},
    "eval:exc-once": 40,
    "enum_schedules:select": 500,
    "enum_schedules:zmq": 500,
    **{f"programs:{lp}:real": 40 for lp in ("select", "zmq", "asyncio", "tornado", "twisted", "trio")},
    "programs:select:virtual": 300,
    "programs:zmq:virtual": 300,
    "callbacks_entered": 20000,
    "callbacks_entered_in_later_runs": 2000,
    **{f"callable_shape:{sh}:{lp}": 3 for sh in SHAPES for lp in ("select", "zmq", "asyncio", "tornado", "twisted", "trio")},
    **{f"callable_shape:{sh}:{op}": 20 for sh in SHAPES for op in ("alarm", "watch_file", "enter_idle")},
    **{f"callback_returned:{r}:{k}": 10 for r in RETURN_VALUES if r != "none" for k in ("alarm", "watch", "idle")},
    **{f"callback_returned_not_none:{k}:{lp}": 3 for k in ("alarm", "watch", "idle") for lp in ("select", "zmq", "asyncio", "tornado", "twisted", "trio")},
    **{f"churn_rounds:{k}:{lp}": 30 for k in ("alarm", "watch", "idle") for lp in ("select", "zmq", "asyncio", "tornado", "twisted", "trio")},
    "eval_later_run:idle-before-quiescent:owed-from-the-previous-run": 50,
    **{f"raised:{k}": 10 for k in EXC_KINDS},
    **{f"raised_not_boom_from:{c}-callback": 50 for c in ("alarm", "watch", "idle")},
    **{f"raised:{k}:zmq": 1 for k in ("zmq_again", "zmq_eintr", "zmq_eagain", "zmq_other", "zmq_term")},
    **{f"raised:{k}:{lp}": 1 for k in ("interrupted", "blockingio", "cancelled_asyncio", "keyboardinterrupt", "systemexit", "baseboom", "generatorexit") for lp in ("select", "zmq", "asyncio", "tornado", "twisted")},
    **{f"programs_fd0:{lp}:real": 15 for lp in ("select", "zmq", "asyncio", "tornado", "twisted", "trio")},
    "programs_fd0:select:virtual": 100,
    "programs_fd0:zmq:virtual": 100,
    **{f"fd0:watch_callbacks_entered:{lp}": 10 for lp in ("select", "zmq", "asyncio", "tornado", "twisted", "trio")},
    **{f"fd0:remove_watch_file_calls:{lp}": 4 for lp in ("select", "zmq", "asyncio", "tornado", "twisted", "trio")},
    **{f"fd0:rewatched_after_removal:{lp}": 1 for lp in ("select", "zmq", "asyncio", "tornado", "twisted", "trio")},
    **{f"first_handle_removed:{k}:{lp}": 5 for k in ("alarm", "watch", "idle") for lp in ("select", "zmq", "asyncio", "tornado", "twisted", "trio")},
    "programs_with_third_run": 20,
    **{f"programs_with_second_run:{lp}": 20 for lp in ("select", "zmq", "asyncio", "tornado", "trio")},
    **{f"rerun_after:{k}": 10 for k in ("exit-from-final-alarm", "exit-from-alarm-callback", "boom-from-alarm-callback", "exit-from-watch-callback", "boom-from-watch-callback", "exit-from-idle-callback", "boom-from-idle-callback")},
    **{f"eval_later_run:{c}": 100 for c in ("alarm-not-early", "alarm-order", "watch-served", "watch-after-remove", "idle-before-quiescent", "idle-after-remove", "exit-silent", "exc-reraised")},
    "eval_later_run:idle-before-quiescent:idle-registered-for-an-earlier-run": 100,
    **{f"eval_later_run:idle-before-quiescent:{lp}": 20 for lp in ("select", "zmq", "asyncio", "tornado", "trio")},
    "enum_two_runs:select": 50,
    "enum_two_runs:zmq": 50,
    "virtual_blocks": 2000,
}
RULE = (
    "a case = one program (ops before run() + ops inside callbacks: alarm/remove_alarm/watch_file/remove_watch_file/"
    "enter_idle/remove_enter_idle, pipe writes, slow callback, raise ExitMainLoop / unique Boom; delays from {0,1,2,5,20,60} ms "
    "(+ sub-ms for zmq); always ends in an ExitMainLoop alarm; optional second run()) x loop x mode. Virtual mode (select, zmq): "
    "exhaustive over all weak orderings of n_a<=4 alarm-due and n_f<=3 fd-ready events (total <=4 quick / <=5 thorough with every "
    "(actor, action) pair from {remove self, remove sibling (once/twice), re-arm, raise exit, raise Boom, slow}; total 6-7 with "
    "no-op actions in thorough) x ready-report order x idle variants, plus random programs. Real clock: random programs on all six loops. "
    "Raising callbacks raise ExitMainLoop, the workload's Boom or one of 19 further classes (own BaseException subclass, zmq.error.Again / ZMQError "
    "EINTR, EAGAIN, EINVAL / ContextTerminated, InterruptedError, BlockingIOError, OSError, asyncio and concurrent.futures CancelledError, StopIteration, "
    "StopAsyncIteration, GeneratorExit, KeyboardInterrupt, SystemExit, KeyError, RuntimeError, twisted ReactorNotRunning) from alarm, watch and idle callbacks. "
    "The callables handed to alarm / watch_file / enter_idle come in 10 shapes (function, lambda, closure, bound method, functools.partial, partial of a "
    "bound method, callable instance with and without __name__, instance of a __slots__ class, builtin bound method) and return None, True, False, 0, 1, "
    "a str or an object. In a share of the programs descriptor key 0 IS file descriptor 0 (real clock: the pipe's read end dup2()ed over the worker's stdin; virtual: fd "
    "number 0), so the falsy descriptor / handle value is watched, removed and re-watched on every loop. Programs may call run() two or three times on the same loop object (all loops but twisted): the first run ended by the final alarm, ExitMainLoop or a "
    "Boom raised from an alarm / watch / idle callback, then new alarms / watches / idle callbacks are registered and run() is called again; every clause "
    "is judged inside every run. distinct = distinct program descriptors; non-trivial = at least one callback was entered"
)
ASSUMES = [
    "due time of an alarm = loop clock read just before alarm() + seconds; 'not before due' tolerates 1e-4 s on real clocks (0.5 us virtual)",
    "alarm order is judged only for alarms whose due times differ by > 0.5 ms (real) / > 0.5 us (virtual), within one run() segment "
    "(alarms and watches left pending when run() exits are not owed in the next run(): trio cancels them)",
    "idle callbacks registered for an earlier run() and not removed are still owed in every later run() on the same loop object, except for trio, "
    "whose run() clears the idle callbacks on exit (TrioEventLoop._handle_main_loop_exception) -- there only idle callbacks registered after that exit count",
    "'goes quiescent' = the loop enters its OS wait primitive (recorded by a pass-through wrapper on selector.select / zmq poll / "
    "reactor.doIteration / a trio Instrument; virtual: the fake selector advances the clock) with a requested timeout >= 10 ms or none; "
    "the duration of a wait is never used, so host scheduling stalls cannot produce verdicts; Twisted's 1/256 s idle emulation stays below the threshold",
    "watch-served under the real clock needs two consecutive quiescent waits that both begin with the watched descriptor readable and no call of its "
    "callback in between (every program ends with two long waits: sentinel alarm S, then the exit alarm X)",
    "'loop continues after an exception' = a quiescent wait after the raising callback followed by another alarm/watch callback",
    "a real-clock violation is reported only if it reproduces in at least one of two re-executions of the same program "
    "(until the signature has reproduced 3 times in that worker)",
    "remove_watch_file / remove_enter_idle results are judged by the EventLoop docstrings ('True if the input file exists' / 'True if the handle "
    "was removed'): first removal of a live registration True, further ones False; remove_alarm after the alarm ran is an observation only",
    "the idle obligation survives the end of run(): an alarm/watch callback that ran at the end of run() N (typically the one whose exception ended "
    "it) with no complete idle pass since is owed the idle callbacks before the first quiescent wait of run() N+1 on the same loop object (the "
    "statement says 'before the loop NEXT goes quiescent'; select, twisted and trio start every run with an idle pass)",
    "callbacks that still run in the same dispatch batch after another callback raised are observations; only the "
    "consequences named in the statement are judged (which exception leaves run(), whether the loop goes on waiting)",
    "exception classes: every class is owed the same treatment as Boom (same object out of run(), loop stopped, not raised again by the next run()); "
    "kept out of the domain: classes other than Boom/ExitMainLoop raised from a TRIO idle callback (trio swallows everything raised inside its Instrument: "
    "one known finding, not one per class) and StopIteration raised from a trio alarm/watch callback (they run inside coroutines, where PEP 479 turns "
    "StopIteration into RuntimeError: Python semantics, not urwid's)",
    "TwistedEventLoop is given a fresh EPollReactor per program (reactors are not restartable); glib is not installed and is skipped",
    "zmq virtual poller reproduces pyzmq 27 Poller.poll: float timeout truncated to whole ms by int()",
]

CFG = {
    "virtual": {"eps_due": 5e-7, "res_order": 5e-7, "qwait": 0.010},
    "real": {"eps_due": 1e-4, "res_order": 5e-4, "qwait": 0.010},
}


def sig_of(loop, v):
    return f"C13|{loop}|{v['clause']}|{v['detail']}"


def judge(prog, hist):
    from vmon.models import loop_contract

    c = CFG[prog["mode"]]
    # TrioEventLoop.run() clears the idle callbacks when it exits (_handle_main_loop_exception); every other
    # restartable loop keeps them, so an idle callback registered for the first run() is still owed in the second
    return loop_contract.check(hist, prog["mode"], c["eps_due"], c["res_order"], c["qwait"], idles_survive=prog["loop"] != "trio")


def run_once(prog):
    """execute + judge; returns (result, history)"""
    from vmon.gen import c13_programs as G

    hist = G.execute(prog)
    return judge(prog, hist), hist


def trace(hist, limit=60):
    out = []
    for i, ev in enumerate(hist[:limit]):
        e = ev["e"]
        if e == "call":
            out.append(f"{i}:{ev['op']}({ev['id']}{',' + format(ev['sec'] * 1e3, 'g') + 'ms' if 'sec' in ev else ''})" + (f"->{ev['ret']}" if "ret" in ev else "") + (f"!{ev['exc']['type']}" if "exc" in ev else ""))
        elif e == "enter":
            out.append(f"{i}:>{ev['id']}")
        elif e == "exit":
            out.append(f"{i}:<{ev['id']}" + (f"!{ev['raised']['type']}" if ev["raised"] else ""))
        elif e == "block":
            out.append(f"{i}:block")
        elif e == "run_end":
            out.append(f"{i}:run_end:{ev['outcome']}" + (f":{ev['exc']['type']}" if ev["exc"] else ""))
        elif e == "run_begin":
            out.append(f"{i}:run")
    return " ".join(out)


class Tally:
    """per-process accumulation of counters and violations (JSON-able)"""

    def __init__(self):
        self.counters = {}
        self.viol = {}  # sig -> {"msg","prog","n"}
        self.shrunk = {}
        self.confirmed = {}
        self.cases = []  # (hash-able descriptor string, nontrivial)

    def count(self, k, n=1):
        self.counters[k] = self.counters.get(k, 0) + n

    def add_result(self, prog, res, hist):
        lp, mode = prog["loop"], prog["mode"]
        self.count(f"programs:{lp}:{mode}")
        self.count("events", len(hist))
        ent = sum(1 for ev in hist if ev["e"] == "enter")
        self.count("callbacks_entered", ent)
        self.count(f"callbacks_entered:{lp}", ent)
        self.count("api_calls", sum(1 for ev in hist if ev["e"] == "call"))
        if mode == "virtual":
            self.count("virtual_blocks", sum(1 for ev in hist if ev["e"] == "block"))
        # handle churn
        for ev in hist:
            if ev["e"] == "drop" and ev["id"][0] == "v":
                k = {"a": "alarm", "w": "watch", "i": "idle"}[ev["id"][1]]
                self.count(f"churn_rounds:{k}:{lp}")
                self.count(f"churn_rounds:{k}")
        # callable shapes registered, return values of callbacks
        for ev in hist:
            if ev["e"] == "call" and "shape" in ev and "exc" not in ev:
                self.count(f"callable_shape:{ev['shape']}:{lp}")
                self.count(f"callable_shape:{ev['shape']}:{ev['op']}")
            elif ev["e"] == "exit" and ev.get("ret", "none") != "none" and ev["raised"] is None:
                self.count(f"callback_returned:{ev['ret']}:{ev['kind']}")
                self.count(f"callback_returned_not_none:{ev['kind']}:{lp}")
        # which exception classes were raised from which kind of callback
        for ev in hist:
            if ev["e"] == "exit" and ev["raised"] is not None and ev["raised"].get("kind"):
                self.count(f"raised:{ev['raised']['kind']}")
                self.count(f"raised:{ev['raised']['kind']}:{lp}")
                if ev["raised"]["kind"] != "boom":
                    self.count(f"raised_not_boom_from:{ev['kind']}-callback")
        # descriptor 0 / falsy handles / removal of the first handle of each kind of a fresh loop
        first_of = {}
        for ev in hist:
            if ev["e"] != "call" or "exc" in ev:
                continue
            kind = {"alarm": "alarm", "watch_file": "watch", "enter_idle": "idle"}.get(ev["op"])
            if kind:
                first_of.setdefault(kind, ev["id"])
                if ev.get("handle_falsy"):
                    self.count(f"falsy_handle_returned:{ev['op']}:{lp}")
            rk = {"remove_alarm": "alarm", "remove_watch_file": "watch", "remove_enter_idle": "idle"}.get(ev["op"])
            if rk and first_of.get(rk) == ev["id"]:
                self.count(f"first_handle_removed:{rk}")
                self.count(f"first_handle_removed:{rk}:{lp}")
        if prog.get("fd0"):
            self.count(f"programs_fd0:{lp}:{mode}")
            self.count(f"fd0:watch_callbacks_entered:{lp}", sum(1 for ev in hist if ev["e"] == "enter" and ev["kind"] == "watch" and ev.get("fd") == 0))
            w0 = [ev for ev in hist if ev["e"] == "call" and ev["op"] == "watch_file" and ev.get("fd") == 0 and "exc" not in ev]
            ids0 = {ev["id"] for ev in w0}
            self.count(f"fd0:watch_file_calls:{lp}", len(w0))
            self.count(f"fd0:rewatched_after_removal:{lp}", max(0, len(w0) - 1))
            self.count(f"fd0:remove_watch_file_calls:{lp}", sum(1 for ev in hist if ev["e"] == "call" and ev["op"] == "remove_watch_file" and ev["id"] in ids0))
        # how did each run() that was followed by another run() on the same loop object end?
        ends = [i for i, ev in enumerate(hist) if ev["e"] == "run_end"]
        begins = [i for i, ev in enumerate(hist) if ev["e"] == "run_begin"]
        if len(begins) > 1:
            self.count("programs_with_second_run")
            self.count(f"programs_with_second_run:{lp}")
        if len(begins) > 2:
            self.count("programs_with_third_run")
        for k in range(len(begins) - 1):
            first = next((ev for ev in hist[begins[k] : ends[k]] if ev["e"] == "exit" and ev["raised"] is not None), None)
            if first is None:
                kind = "nothing-raised"
            else:
                what = "exit" if first["raised"]["type"] == "ExitMainLoop" else ("boom" if first["raised"]["type"] == "Boom" else "other")
                kind = f"{what}-from-" + ("final-alarm" if first["id"][0] == "X" else f"{first['kind']}-callback")
            self.count(f"rerun_after:{kind}")
            self.count(f"rerun_after:{kind}:{lp}")
            self.count("callbacks_entered_in_later_runs", sum(1 for ev in hist[begins[k + 1] :] if ev["e"] == "enter") if k == 0 else 0)
        for k, n in res.evals.items():
            self.count(f"eval:{k}", n)
            self.count(f"eval:{k}:{lp}", n)
        for k, n in res.evals_later.items():
            self.count(f"eval_later_run:{k}", n)
            self.count(f"eval_later_run:{k}:{lp}", n)
        for k, n in res.obs.items():
            self.count(f"obs:{lp}:{k}", n)
        return ent

    def violation(self, sig, msg, prog):
        size = len(json.dumps(prog))
        old = self.viol.get(sig)
        if old is None or size < old["size"]:
            self.viol[sig] = {"msg": msg, "prog": prog, "size": size, "n": old["n"] if old else 0}
        self.viol[sig]["n"] += 1


def handle_violations(tally, prog, res, hist, confirm_runs):
    """de-flake (real mode), shrink, record"""
    from vmon.gen import c13_programs as G

    lp = prog["loop"]
    sigs = {}
    for v in res.violations:
        sigs.setdefault(sig_of(lp, v), v)
    for sig, v in sigs.items():
        if confirm_runs and tally.confirmed.get(sig, 0) < 3:
            # real clock: re-execute; once a signature has reproduced 3 times in this process it is taken as deterministic
            hits = 0
            for _ in range(confirm_runs):
                r2, _h2 = run_once(prog)
                if any(sig_of(lp, x) == sig for x in r2.violations):
                    hits += 1
            tally.count("real_violation_reruns", confirm_runs)
            if hits < 1:
                tally.count("real_violation_not_reproduced")
                tally.count(f"not_reproduced:{lp}:{v['clause']}")
                continue
            tally.confirmed[sig] = tally.confirmed.get(sig, 0) + 1
        small, msg = prog, f"{v['clause']}: {v['msg']} :: {trace(hist)}"
        if tally.shrunk.get(sig, 0) < 1 and len(json.dumps(prog)) > (330 if prog["mode"] == "virtual" else 600):
            tally.shrunk[sig] = tally.shrunk.get(sig, 0) + 1

            def reproduces(cand, sig=sig):
                try:
                    r, _h = run_once(cand)
                except Exception:  # noqa: BLE001
                    return False
                return any(sig_of(lp, x) == sig for x in r.violations)

            small = G.shrink(prog, reproduces, max_tries=300 if prog["mode"] == "virtual" else 12)
            if small is not prog:
                r3, h3 = run_once(small)
                vv = [x for x in r3.violations if sig_of(lp, x) == sig]
                if vv:
                    msg = f"{vv[0]['clause']}: {vv[0]['msg']} :: {trace(h3)}"
                else:
                    small = prog
        tally.violation(sig, msg, small)


def run_case(tally, prog, confirm_runs=0):
    res, hist = run_once(prog)
    ent = tally.add_result(prog, res, hist)
    tally.cases.append(ent > 0)
    if res.violations:
        handle_violations(tally, prog, res, hist, confirm_runs)
    return res, hist


# ------------------------------------------------------------------------------ worker (real clock)

MECHANISMS = {
    "select": ("select_loop", "SelectEventLoop", ("_loop", "run", "alarm", "remove_alarm", "_entering_idle")),
    "zmq": ("zmq_loop", "ZMQEventLoop", ("_loop", "run", "alarm", "remove_watch_file", "_entering_idle")),
    "asyncio": ("asyncio_loop", "AsyncioEventLoop", ("_entering_idle", "_exception_handler", "run", "remove_alarm")),
    "tornado": ("tornado_loop", "TornadoEventLoop", ("_entering_idle", "run", "remove_alarm", "remove_watch_file")),
    "twisted": ("twisted_loop", "TwistedEventLoop", ("_twisted_idle_callback", "_enable_twisted_idle", "run", "remove_alarm")),
    "trio": ("trio_loop", "TrioEventLoop", ("_alarm_task", "_watch_task", "_handle_main_loop_exception", "_cancel_scope")),
}


def watch_mechanisms(loops):
    import importlib

    from vmon import reach

    for lp in loops:
        modname, cls, names = MECHANISMS[lp]
        mod = importlib.import_module(f"urwid.event_loop.{modname}")
        c = getattr(mod, cls)
        reach.watch(*[getattr(c, n) for n in names])
        if lp == "trio":
            reach.watch(mod._TrioIdleCallbackInstrument.before_io_wait)


def worker_main(argv):
    """argv: loop seedstring budget_s max_programs outfile"""
    loop, seedstr, budget, maxn, outp = argv[0], argv[1], float(argv[2]), int(argv[3]), argv[4]
    from vmon import core, reach

    core.setup_repo_path()
    from vmon.gen import c13_programs as G

    watch_mechanisms([loop])
    rng = random.Random(seedstr)
    tally = Tally()
    out = open(outp, "w")
    current = {}

    def on_alarm(_sig, _frm):
        out.write(json.dumps({"hang": current.get("prog")}) + "\n")
        out.write(json.dumps({"done": True, "counters": tally.counters, "viol": tally.viol, "descs": descs, "sample": None}) + "\n")
        out.flush()
        os._exit(4)

    descs = []
    signal.signal(signal.SIGALRM, on_alarm)
    t0 = time.monotonic()
    n = 0
    devnull = open(os.devnull, "w")
    real_stdout = sys.stdout
    sys.stdout = devnull  # TwistedEventLoop.handle_exit prints exc_info
    _pid, _seed, shard, nshards, _lp = seedstr.split(":")
    todo = [p for i, p in enumerate(G.directed(loop, "real")) if i % int(nshards) == int(shard)]
    tally.count(f"directed_programs:{loop}", 0)
    try:
        while n < maxn and time.monotonic() - t0 < budget:
            if todo:
                prog = todo.pop(0)
                tally.count(f"directed_programs:{loop}")
            else:
                prog = G.gen_random(rng, loop, "real", zmq_fractional=(loop == "zmq"))
            current["prog"] = prog
            signal.setitimer(signal.ITIMER_REAL, 20.0)
            run_case(tally, prog, confirm_runs=2)
            signal.setitimer(signal.ITIMER_REAL, 0)
            descs.append([core.h64(prog), tally.cases[-1]])
            n += 1
            if n <= 1:
                tally.sample = prog
    finally:
        sys.stdout = real_stdout
    for k, v in reach.counts().items():
        tally.count(f"reach:{k}", v)
    out.write(json.dumps({"done": True, "counters": tally.counters, "viol": tally.viol, "descs": descs, "sample": getattr(tally, "sample", None)}) + "\n")
    out.close()
    return 0


def start_worker(ctx, loop, budget, maxn, tmpdir):
    from vmon import core

    outp = os.path.join(tmpdir, f"{loop}.jsonl")
    seedstr = f"C13:{ctx.seed}:{ctx.shard}:{ctx.nshards}:{loop}"
    env = dict(os.environ, VERIF_REPO=core.REPO, PYTHONHASHSEED="0", PYTHONDONTWRITEBYTECODE="1")
    p = subprocess.Popen(
        [core.PY, "-B", "-m", "vmon.checks.c13", "--worker", loop, seedstr, str(budget), str(maxn), outp],
        cwd=core.VERIF,
        env=env,
        stdout=subprocess.DEVNULL,
        stderr=open(os.path.join(tmpdir, f"{loop}.err"), "w"),
    )
    return p, outp


def collect_worker(ctx, loop, p, outp, tmpdir, deadline):
    try:
        p.wait(timeout=max(1.0, deadline - time.monotonic()))
    except subprocess.TimeoutExpired:
        p.kill()
        p.wait()
        ctx.inconc(f"watchdog:worker-{loop}-did-not-finish")
        return
    lines = []
    if os.path.exists(outp):
        lines = [json.loads(x) for x in open(outp) if x.strip()]
    done = [x for x in lines if x.get("done")]
    for x in lines:
        if "hang" in x:
            ctx.inconc(f"watchdog:{loop}-program-did-not-terminate")
            ctx.extra[f"hang_{loop}"] = x["hang"]
    if not done:
        if not any("hang" in x for x in lines):
            err = open(os.path.join(tmpdir, f"{loop}.err")).read()[-1200:]
            ctx.inconc(f"worker-{loop}-died rc={p.returncode}")
            ctx.extra["stderr"] = err
        return
    d = done[0]
    for k, v in d["counters"].items():
        ctx.count(k, v)
    for h, nontrivial in d["descs"]:
        ctx.case(h, nontrivial=nontrivial)
    for sig, v in d["viol"].items():
        for _ in range(v["n"] - 1):
            ctx.count("violations_raw")
            ctx.violations.setdefault(sig, {"sig": sig, "msg": v["msg"], "witness": v["prog"], "size": 10**9, "n": 0})["n"] += 1
        ctx.violation(sig, v["msg"], v["prog"])
    if d.get("sample"):
        ctx.sample(d["sample"], limit=6)


# ------------------------------------------------------------------------------ virtual workload


def flush_tally(ctx, tally):
    for k, v in tally.counters.items():
        ctx.count(k, v)
    tally.counters = {}
    for sig, v in tally.viol.items():
        for _ in range(v["n"] - 1):
            ctx.count("violations_raw")
            ctx.violations.setdefault(sig, {"sig": sig, "msg": v["msg"], "witness": v["prog"], "size": 10**9, "n": 0})["n"] += 1
        ctx.violation(sig, v["msg"], v["prog"])
    tally.viol = {}


def virtual_enumeration(ctx, tally, frac):
    """enumerated schedules; select and zmq are interleaved so that a short budget cuts both equally"""
    from vmon import core
    from vmon.gen import c13_programs as G

    idx = 0
    complete = True
    for k in ("1_events", "2_events", "3_events", "4_events", "5_events", "6_7_events"):
        tally.count(f"enum_skipped_for_budget:{k}", 0)
    splits_small = [(na, nf) for na in range(1, 5) for nf in range(0, 4) if na + nf <= 4]
    splits_5 = [(2, 3), (3, 2), (4, 1)]
    splits_big = [(3, 3), (4, 2), (4, 3)]
    variants = [("select", 1000), ("zmq", 1000), ("zmq", 400)]

    def one(prog, loop, tag):
        run_case(tally, prog)
        ctx.case(core.h64(prog), nontrivial=tally.cases[-1])
        tally.count(f"enum_schedules:{loop}")
        tally.count(tag)

    # B: idle variants x orderings (n <= 3) x no-op / slow / re-arming actor
    for na, nf in [(1, 0), (1, 1), (2, 1), (1, 2), (2, 0), (3, 0)]:
        n = na + nf
        for ranks in G.weak_orderings(n):
            for iv in G.IDLE_VARIANTS:
                for action in [(None, "none", None), (0, "busy", None), (n - 1, "rearm", None)]:
                    for loop, unit in variants[:2]:
                        idx += 1
                        if not ctx.mine(idx):
                            continue
                        one(G.build_enum(loop, na, nf, ranks, action, "reg", unit if loop == "select" else 400, iv), loop, f"enum_idle_variant:{iv}")
    # D: two run() calls on the same loop object: every weak ordering of n <= 3 events (thorough: n <= 4) x how the first
    # run ends (final alarm / ExitMainLoop / Boom raised by each event's callback or by the idle callback) x second run
    for na, nf in [(1, 0), (1, 1), (2, 0), (2, 1), (1, 2)] + ([] if ctx.quick else [(3, 0), (2, 2), (3, 1)]):
        n = na + nf
        for ranks in G.weak_orderings(n):
            for action, iv in [((None, "none", None), "plain"), ((None, "none", None), "boom"), ((None, "none", None), "exit")] + [
                ((actor, act, None), "plain") for actor in range(n) for act in ("exit", "boom")
            ]:
                for second in ("alarms", "watch"):
                    for loop, unit in variants[:2]:
                        idx += 1
                        if not ctx.mine(idx):
                            continue
                        one(G.build_enum(loop, na, nf, ranks, action, "reg", unit if loop == "select" else 400, iv, second, fd0=bool((idx // ctx.nshards) % 2)), loop, f"enum_two_runs:{loop}")
    # A: every weak ordering x every single (actor, action), n <= 4 (quick: n == 4 strided), n == 5 thorough
    for na, nf in splits_small + ([] if ctx.quick else splits_5):
        n = na + nf
        for ranks in G.weak_orderings(n):
            for action in G.enum_actions(n):
                for order in ("reg", "rev") if nf >= 2 else ("reg",):
                    for loop, unit in variants:
                        idx += 1
                        if not ctx.mine(idx):
                            continue
                        if ctx.quick and n == 4 and (idx // ctx.nshards) % 6:
                            continue
                        if not ctx.more(frac):
                            complete = False
                            tally.count(f"enum_skipped_for_budget:{n}_events")
                            continue
                        one(G.build_enum(loop, na, nf, ranks, action, order, unit, fd0=bool((idx // (3 * ctx.nshards)) % 2)), loop, f"enum_action:{action[1]}")
        flush_tally(ctx, tally)
    # C: thorough: all weak orderings of 6-7 events with no-op callbacks (pure scheduling order)
    if not ctx.quick:
        for na, nf in splits_big:
            for ranks in G.weak_orderings(na + nf):
                for loop, unit in variants[:2]:
                    idx += 1
                    if not ctx.mine(idx):
                        continue
                    if not ctx.more(frac):
                        complete = False
                        tally.count("enum_skipped_for_budget:6_7_events")
                        continue
                    one(G.build_enum(loop, na, nf, ranks, (None, "none", None), "rev" if idx % 2 else "reg", unit if loop == "select" else 400), loop, "enum_schedules_6_7_events")
            flush_tally(ctx, tally)
    flush_tally(ctx, tally)
    tally.count("enum_shards_complete" if complete else "enum_shards_cut_by_budget")


def virtual_random(ctx, tally, frac, maxn):
    from vmon import core
    from vmon.gen import c13_programs as G

    rng = ctx.rng
    n = 0
    for loop in G.VIRTUAL_LOOPS:
        for i, prog in enumerate(G.directed(loop, "virtual")):
            if ctx.mine(i):
                run_case(tally, prog)
                ctx.case(core.h64(prog), nontrivial=tally.cases[-1])
                tally.count(f"directed_programs:{loop}")
    while ctx.more(frac) and n < maxn:
        loop = G.VIRTUAL_LOOPS[n % 2]
        prog = G.gen_random(rng, loop, "virtual", zmq_fractional=(loop == "zmq"))
        run_case(tally, prog)
        ctx.case(core.h64(prog), nontrivial=tally.cases[-1])
        n += 1
        if n <= 2:
            ctx.sample(prog, limit=6)
        if n % 500 == 0:
            flush_tally(ctx, tally)
    flush_tally(ctx, tally)


def run(ctx):
    from vmon import reach
    from vmon.gen import c13_programs as G

    tmpdir = tempfile.mkdtemp(prefix="vmon-c13-")
    workers = []
    wbudget = ctx.budget * 0.80
    maxn = ctx.pick(400, 4000)
    try:
        for loop in G.LOOPS:
            workers.append((loop, *start_worker(ctx, loop, wbudget, maxn, tmpdir)))
        watch_mechanisms(G.VIRTUAL_LOOPS)
        tally = Tally()
        virtual_enumeration(ctx, tally, 0.70)
        virtual_random(ctx, tally, 0.80, ctx.pick(20000, 400000))
        reach.flush(ctx)
        deadline = ctx.t0 + ctx.budget + 90
        for loop, p, outp in workers:
            collect_worker(ctx, loop, p, outp, tmpdir, deadline)
    finally:
        for _loop, p, _o in workers:
            if p.poll() is None:
                p.kill()
                p.wait()
        import shutil

        shutil.rmtree(tmpdir, ignore_errors=True)


def replay(ctx, wit):
    tally = Tally()
    prog = wit
    if prog["mode"] == "real":
        sys.stdout.flush()
    res, hist = run_once(prog)
    tally.add_result(prog, res, hist)
    ctx.case(prog)
    for v in res.violations:
        ctx.violation(sig_of(prog["loop"], v), f"{v['clause']}: {v['msg']} :: {trace(hist)}", prog)
    for k, n in tally.counters.items():
        ctx.count(k, n)
    print(trace(hist, 200))


if __name__ == "__main__":
    if len(sys.argv) > 1 and sys.argv[1] == "--worker":
        sys.exit(worker_main(sys.argv[2:]))
