"""C04 -- the bytes sent to the terminal paint exactly the rendered canvas.

Runtime monitor: every str that urwid.display.raw.Screen writes goes (encoded with the screen
encoding) into an independent terminal interpreter (vmon.models.vt.VT).  After every
draw_screen() every cell of the VT (glyph after charset translation, colours, style flags) and the
cursor state are compared with the canvas that was drawn; the expected style of an attribute is
obtained from the palette *spec strings* by my own parser (vmon.models.c04_style).  Histories
interleave draws with clear(), SIGWINCH/resize (VT refilled with GARBAGE sentinel cells) and
small mutations; at the end the terminal state must equal clear() + one full repaint.
The HTML back-end is fed the same canvases.

Descriptors (all JSON):
  case  = {"cfg": cfg, "palette": [entry...], "ops": [op...]}
  cfg   = {"enc", "colors", "bib" (fg_bright_is_bold), "bce", "alt", "pal_first"}
  op    = ["draw", frame] | ["clear"] | ["winch"] | ["again"] | ["equal"]
  frame = {"k": "text", "w": W, "rows": [[ [text, attr], ...], ...], "cur": [x, y] | None, "wrap": ...}
        | {"k": "widget", "w": W, "h": H, "tree": recipe}
  attr  = None | palette-name | undefined name | ["spec", fg, bg, colors]
"""

from __future__ import annotations

import fcntl
import html as _html
import os
import pty
import re
import struct
import termios
import traceback

from vmon import reach
from vmon.models import c04_style as S
from vmon.models import grid as G
from vmon.models.vt import DEC_GRAPHICS, GARBAGE, VT

PROPERTY = "C04"
LEVEL = "exploration"
SHARDS = {"quick": 8, "thorough": 16}
BUDGET = {"quick": 26.0, "thorough": 400.0}
REQUIRE = {
    "frames_drawn": 1500,
    "cells_compared": 100000,
    "cursor_checks": 1500,
    "rows_skipped_unchanged": 300,
    "el_shortcut_rows": 300,
    "insert_trick_rows": 300,
    "resizes": 100,
    "clears": 100,
    "repaint_equivalence_checks": 300,
    "html_frames": 300,
    "widget_frames": 100,
    "enc_nonutf8_frames": 200,
    "reach:display._raw_display_base.Screen._last_row": 300,
}
RULE = (
    "case = (screen configuration: output encoding in {utf-8, utf8, iso8859-1, ascii}, colours in {1,16,88,256,2**24}, "
    "fg_bright_is_bold, back_color_erase, palette registered before/after set_terminal_properties; a generated palette of "
    "3/4/6-tuples and aliases; a history of 1-12 ops: draw(frame) | clear | SIGWINCH | redraw same canvas object | redraw "
    "equal canvas). Frames are TextCanvas / CompositeCanvas (wrap, join, combine) built from adversarial row classes "
    "(wide character in the last two cells, sole wide character at width 2, DEC line-drawing glyph beside ASCII at the "
    "right edge, trailing blanks carrying underline/standout/strikethrough/background, undefined names, AttrSpec objects, "
    "None), one-row mutations of the previous frame, or renders of small real widget trees; sizes 1x1..40x12; a frame whose "
    "size differs from the current one is preceded by the resize protocol. Distinct = hash of the whole case descriptor; "
    "non-trivial = at least one frame was drawn and compared."
)
ASSUMES = [
    "Ground truth for what a byte stream paints is vmon.models.vt.VT (xterm semantics: pending-wrap at the last column, IRM insert, "
    "EL with optional back-colour-erase set equal to Screen.back_color_erase, SO/SI with G1 = DEC special graphics, SGR 11/10 = cp437 font).",
    "The str objects written by Screen are encoded with the urwid target encoding (what sys.stdout of a matching locale does).",
    "Expected style of an attribute = my own reading of the palette spec strings for the active depth (vmon.models.c04_style); only "
    "colour forms with an undisputed meaning are generated (names, hN, cube corners, #rrggbb in true colour); nearest-colour matching is C18.",
    "On a terminal whose bold means bright (fg_bright_is_bold) bold+colour n<8 and bright colour n+8 are the same; on a blank cell only "
    "background, underline, standout and strikethrough (and the foreground when standout) are visible and compared.",
    "The canvas is the specification: glyph of a cell = canvas bytes decoded with the screen encoding, through the DEC special-graphics "
    "table for cs='0' runs and cp437 for cs='U' runs; bytes < 0x20 are shown as '?'.  Canvases are built with urwid's own "
    "apply_target_encoding, so cs runs only occur where urwid itself produces them.",
    "The first frame after start() is drawn on the blank alternate screen; after clear() and after a resize the VT is filled with "
    "GARBAGE sentinel cells, so only a complete repaint passes.",
    "TERM=xterm is set while the Screen is constructed (term-specific branches 'fbterm'/'linux' are outside the quantifier).",
    "Partial-screen mode (start(alternate_buffer=False)) is not judged: the statement does not mention it and it deliberately leaves blank rows unpainted.",
]

TRUE = 2**24
ENCODINGS = ("utf-8", "utf8", "iso8859-1", "ascii")


def enc_mode(enc: str) -> str:
    return "utf8" if enc in ("utf-8", "utf8") else "narrow"


# ------------------------------------------------------------------------------------------------
# terminal plumbing: one pty per process, a recording "file" on its slave side
# ------------------------------------------------------------------------------------------------


class Rec:
    """what Screen gets as `output`: records every write; fileno() is a pty so TIOCGWINSZ works"""

    def __init__(self, fd):
        self.fd = fd
        self.buf: list[str] = []
        self.total = 0

    def write(self, s):
        self.buf.append(s)
        self.total += len(s)
        return len(s)

    def flush(self):
        pass

    def fileno(self):
        return self.fd

    def take(self) -> str:
        s = "".join(self.buf)
        self.buf.clear()
        return s


class Pty:
    _inst = None

    def __init__(self):
        self.master, self.slave = pty.openpty()
        self.inp = os.fdopen(os.dup(self.slave), "r")

    @classmethod
    def get(cls):
        if cls._inst is None:
            cls._inst = Pty()
        return cls._inst

    def set_size(self, cols, rows):
        fcntl.ioctl(self.master, termios.TIOCSWINSZ, struct.pack("HHHH", rows, cols, 0, 0))


# ------------------------------------------------------------------------------------------------
# building real canvases from descriptors
# ------------------------------------------------------------------------------------------------


_SPEC_STYLE: dict = {}


def mk_attr(a):
    import urwid

    if isinstance(a, list) and a and a[0] == "spec":
        sp = urwid.AttrSpec(a[1], a[2], a[3])
        _SPEC_STYLE[sp] = S.parse_spec(a[1], a[2], a[3])  # my reading of the same strings
        return sp
    if isinstance(a, list):
        return tuple(a)
    return a


def text_canvas(rows, w, cursor=None):
    """rows: [[ [text, attr], ...], ...] -> TextCanvas via urwid's own apply_target_encoding"""
    import urwid
    from urwid.util import apply_target_encoding, rle_append_modify

    texts, attrs, css = [], [], []
    for segs in rows:
        tb = b""
        ar = []
        cr = []
        for text, a in segs:
            b, cs = apply_target_encoding(text)
            if not b:
                continue
            tb += b
            rle_append_modify(ar, (mk_attr(a), len(b)))
            for c, n in cs:
                rle_append_modify(cr, (c, n))
        texts.append(tb)
        attrs.append(ar)
        css.append(cr)
    return urwid.TextCanvas(texts, attrs, css, cursor=tuple(cursor) if cursor else None, maxcol=w)


def seg_width(text):
    return sum(G.char_width(c) for c in text)


def split_rows_at(rows, k):
    """split every row at column k; None if k is inside a wide character somewhere"""
    left, right = [], []
    for segs in rows:
        l, r = [], []
        col = 0
        for text, a in segs:
            lt, rt = "", ""
            for ch in text:
                cw = G.char_width(ch)
                if col + cw <= k and not rt:
                    lt += ch
                elif col < k:
                    return None
                else:
                    rt += ch
                col += cw
            if lt:
                l.append([lt, a])
            if rt:
                r.append([rt, a])
        left.append(l)
        right.append(r)
    return left, right


def build_text_frame(fr):
    import urwid

    w = fr["w"]
    rows = fr["rows"]
    cur = fr.get("cur")
    wrap = fr.get("wrap") or ["text"]
    kind = wrap[0]
    if kind == "text":
        return text_canvas(rows, w, cur)
    if kind == "composite":
        c = urwid.CompositeCanvas(text_canvas(rows, w))
    elif kind == "join" and 0 < wrap[1] < w and split_rows_at(rows, wrap[1]):
        k = wrap[1]
        l, r = split_rows_at(rows, k)
        c = urwid.CanvasJoin([(text_canvas(l, k), None, False, k), (text_canvas(r, w - k), None, True, w - k)])
    elif kind == "combine" and 0 < wrap[1] < len(rows):
        k = wrap[1]
        c = urwid.CanvasCombine([(text_canvas(rows[:k], w), None, False), (text_canvas(rows[k:], w), None, True)])
    else:
        c = urwid.CompositeCanvas(text_canvas(rows, w))
    if cur:
        c.cursor = tuple(cur)
    return c


def build_widget(t):
    import urwid

    k = t[0]
    if k == "text":
        return urwid.Text(mk_markup(t[1]), align=t[2], wrap=t[3])
    if k == "edit":
        e = urwid.Edit(mk_markup(t[1]), t[2])
        e.set_edit_pos(min(t[3], len(t[2])))
        return e
    if k == "div":
        return urwid.Divider(t[1])
    if k == "pile":
        return urwid.Pile([build_widget(c) for c in t[1]], focus_item=min(t[2], len(t[1]) - 1))
    if k == "cols":
        return urwid.Columns([build_widget(c) for c in t[1]], dividechars=t[2], focus_column=min(t[3], len(t[1]) - 1))
    if k == "linebox":
        return urwid.LineBox(build_widget(t[1]), title=t[2])
    if k == "attrmap":
        return urwid.AttrMap(build_widget(t[1]), mk_attr(t[2]), mk_attr(t[3]))
    if k == "padding":
        return urwid.Padding(build_widget(t[1]), left=t[2], right=t[3])
    raise ValueError(k)


def mk_markup(m):
    if isinstance(m, str):
        return m
    if isinstance(m, list) and len(m) == 2 and m[0] == "@":  # ["@", [attr, markup]]
        return (mk_attr(m[1][0]), mk_markup(m[1][1]))
    return [mk_markup(x) for x in m]


def build_widget_frame(fr):
    import urwid

    w = build_widget(fr["tree"])
    top = urwid.Filler(w, valign=fr.get("valign", "top"))
    if fr.get("fill") is not None:
        top = urwid.AttrMap(top, mk_attr(fr["fill"]))
    return top.render((fr["w"], fr["h"]), focus=True)


def build_frame(fr):
    if fr["k"] == "text":
        return build_text_frame(fr)
    return build_widget_frame(fr)


def frame_size(fr):
    if fr["k"] == "text":
        return fr["w"], len(fr["rows"])
    return fr["w"], fr["h"]


# ------------------------------------------------------------------------------------------------
# the oracle: canvas -> expected cells
# ------------------------------------------------------------------------------------------------


class Invalid(Exception):
    """the canvas is outside the input domain (not a cols x rows grid of whole characters)"""


def glyph_of(b: bytes, cs, enc: str) -> str:
    if cs == "0":
        ch = b.decode("latin-1")
        return "".join(DEC_GRAPHICS.get(ord(c), c) for c in ch)
    if cs == "U":
        return "".join(chr(x) if 0x20 <= x < 0x7F else bytes((x,)).decode("cp437") for x in b)
    ch = b.decode("utf-8" if enc_mode(enc) == "utf8" else ("latin-1" if enc == "ascii" else enc))
    if len(ch) == 1 and ord(ch) < 0x20:
        return "?"
    return ch


class Expect:
    """expected screen for one canvas"""

    def __init__(self, canvas, size, enc, pal: S.Palette, colors, bib):
        cols, rows = size
        self.cols, self.rows = cols, rows
        self.enc = enc
        self.bib = bib
        content = [list(r) for r in canvas.content()]
        if len(content) != rows:
            raise Invalid(f"canvas has {len(content)} rows, size says {rows}")
        try:
            items = G.flatten_rows(content, enc_mode(enc))
        except (ValueError, UnicodeDecodeError) as e:
            raise Invalid(f"canvas bytes are not text: {e}") from e
        self.content = content
        self.items = items
        self.cells = []  # [y][x] = (ch, Style, widepart, attr)
        style_cache = {}
        for irow in items:
            row = []
            for b, w, a, cs in irow:
                if w == 0:
                    if row:
                        x = len(row) - 1
                        if row[x][2] == 2:
                            x -= 1
                        row[x] = (row[x][0] + glyph_of(b, cs, enc), *row[x][1:])
                    continue
                key = _hashable(a)
                st = style_cache.get(key)
                if st is None:
                    st = style_cache[key] = self.style_of(a, pal, colors)
                ch = glyph_of(b, cs, enc)
                if w == 2:
                    row.append((ch, st, 1, a))
                    row.append(("", st, 2, a))
                else:
                    row.append((ch, st, 0, a))
            if len(row) != cols:
                raise Invalid(f"canvas row is {len(row)} columns wide, size says {cols}")
            self.cells.append(row)
        self.cursor = canvas.cursor

    @staticmethod
    def style_of(a, pal, colors):
        if _is_spec(a):
            return _SPEC_STYLE[a]
        return pal.style(a, colors)

    def vis(self, y, x):
        ch, st, _wp, _a = self.cells[y][x]
        return S.visible(ch, st.fg, st.bg, st.bold, st.italics, st.underline, st.blink, st.standout, st.strikethrough, self.bib)


def _hashable(a):
    try:
        hash(a)
    except TypeError:
        return repr(a)
    return a


def _is_spec(a):
    return type(a).__name__ == "AttrSpec"


def vt_vis(c, bib):
    return S.visible(c.ch, c.fg, c.bg, c.bold, c.italics, c.underline, c.blink, c.reverse, c.strikethrough, bib)


# ------------------------------------------------------------------------------------------------
# session: a real Screen wired to a VT
# ------------------------------------------------------------------------------------------------


class Found(Exception):
    """first oracle failure of a history: (sig, msg)"""

    def __init__(self, sig, msg):
        super().__init__(sig)
        self.sig = sig
        self.msg = msg


def attr_kind(a, pal: S.Palette):
    if a is None:
        return "None"
    if _is_spec(a):
        return "AttrSpec"
    if pal.defined(a):
        return "name"
    return "undefined"


def row_shape(exp: Expect, y, cfg):
    """abstract shape of the tail of canvas row y (from the canvas only): what the right edge looks like"""
    row = exp.cells[y]
    n = len(row)

    def unit(x):  # character ending at column x -> (start, width, ch, cs-ish)
        if row[x][2] == 2:
            return x - 1, 2
        return x, 1

    zs, zw = unit(n - 1)
    z = row[zs]
    if z[0] == " ":
        st = z[1]
        deco = "+".join(f for f in ("underline", "standout", "strikethrough") if getattr(st, f)) or ("bg" if st.bg is not None else "plain")
        return f"tail=blank({deco})"
    ztag = f"Z{zw}"
    if zs == 0:
        return f"tail={ztag}-sole"
    ys, yw = unit(zs - 1)
    return f"tail=Y{yw}{_cs_tag(exp, y, ys)}-{ztag}{_cs_tag(exp, y, zs)}"


def _cs_tag(exp, y, x):
    # charset of the canvas item that starts at column x
    col = 0
    for b, w, _a, cs in exp.items[y]:
        if col == x and w:
            return {None: "", "0": "dec", "U": "ibm"}[cs]
        col += w
    return ""


class Session:
    def __init__(self, ctx, cfg, palette, count=True):
        import urwid
        from urwid.display import raw

        self.ctx = ctx
        self.cfg = cfg
        self.count = (lambda k, n=1: ctx.count(k, n)) if count else (lambda k, n=1: None)
        self.enc = cfg["enc"]
        self.colors = cfg["colors"]
        self.bib = cfg["bib"]
        self.bce = cfg["bce"]
        self.pal = S.Palette(palette)
        self.palette = [tuple(mk_attr(x) if i == 0 and isinstance(x, list) else x for i, x in enumerate(e)) for e in palette]
        self.pty = Pty.get()
        self.rec = Rec(self.pty.slave)
        self._old_enc = urwid.util.get_encoding()
        self._old_term = os.environ.get("TERM")
        os.environ["TERM"] = "xterm"
        urwid.set_encoding(self.enc)
        self.scr = raw.Screen(input=self.pty.inp, output=self.rec)
        if cfg.get("pal_first"):
            self.scr.register_palette(self.palette)
        self.scr.set_terminal_properties(colors=self.colors, bright_is_bold=self.bib)
        if not cfg.get("pal_first"):
            self.scr.register_palette(self.palette)
        self.scr.back_color_erase = self.bce
        self.size = None
        self.vt = None
        self.exp = None
        self.last_canvas = None
        self.last_frame = None
        self.pending_full = True  # next draw must be a complete repaint (start / clear / resize)
        self.started = False

    def start(self, size):
        self.size = size
        self.pty.set_size(*size)
        self.scr.start()
        self.started = True
        self.vt = VT(size[0], size[1], utf8=enc_mode(self.enc) == "utf8", bce=self.bce, encoding="latin-1")
        self.feed()
        if not self.vt.alt_screen:
            raise Found("C04|raw|start|alternate-screen-not-entered", "after start() the VT is not on the alternate screen")
        got = self.scr.get_cols_rows()
        if tuple(got) != tuple(size):
            raise RuntimeError(f"harness: get_cols_rows {got} != {size}")

    def close(self):
        import urwid

        try:
            if self.started:
                self.scr.stop()
        finally:
            urwid.set_encoding(self._old_enc)
            if self._old_term is None:
                os.environ.pop("TERM", None)
            else:
                os.environ["TERM"] = self._old_term
            urwid.CanvasCache.clear()

    def feed(self):
        s = self.rec.take()
        try:
            data = s.encode("utf-8" if enc_mode(self.enc) == "utf8" else ("latin-1" if self.enc == "ascii" and s.isascii() else self.enc))
        except UnicodeEncodeError as e:
            raise Found("C04|raw|output|not-encodable-in-screen-encoding", f"{e}: {s!r}") from e
        self.vt.feed(data)
        return data

    # ---- ops
    def resize(self, size):
        """what a terminal emulator + MainLoop do: new window size, unknown content, SIGWINCH, 'window resize' key"""
        self.size = size
        self.pty.set_size(*size)
        self.vt.resize(size[0], size[1], fill=GARBAGE)
        self.scr._sigwinch_handler(28, None)
        keys, _raw = self.scr.parse_input(None, None, [])
        if "window resize" not in keys:
            raise RuntimeError("harness: no 'window resize' after SIGWINCH")
        got = self.scr.get_cols_rows()
        if tuple(got) != tuple(size):
            raise RuntimeError(f"harness: get_cols_rows {got} != {size}")
        self.pending_full = True
        self.count("resizes")

    def op_clear(self):
        self.scr.clear()
        self.vt.fill_garbage()
        self.pending_full = True
        self.count("clears")

    def op_winch(self):
        self.resize(self.size)

    def draw(self, frame, canvas=None, tag="draw"):
        size = frame_size(frame)
        if canvas is None:
            try:
                canvas = build_frame(frame)
            except Exception as e:  # noqa: BLE001  -- widget trees that urwid refuses are not C04's subject
                self.count("frames_skipped_render_error")
                self.count(f"render_error:{type(e).__name__}")
                return False
        try:
            exp = Expect(canvas, size, self.enc, self.pal, self.colors, self.bib)
        except Invalid:
            self.count("frames_skipped_invalid_canvas")
            return False
        if self.size is None:
            self.start(size)
        elif size != self.size:
            self.resize(size)
        shape = row_shape(exp, size[1] - 1, self.cfg)
        before = self.rec.total
        old_exp = self.exp
        try:
            self.scr.draw_screen(size, canvas)
        except Exception as e:  # noqa: BLE001
            raise Found(
                f"C04|raw|draw_screen|raise:{type(e).__name__}|last-row:{shape}|cols={'2' if size[0] == 2 else 'n'}",
                f"{type(e).__name__}: {e}\n{traceback.format_exc(limit=5)}",
            ) from e
        data = self.feed()
        self.exp, self.last_canvas, self.last_frame = exp, canvas, frame
        self.count("frames_drawn")
        self.count(f"frames_{tag}")
        self.count("bytes_fed", len(data))
        if enc_mode(self.enc) != "utf8":
            self.count("enc_nonutf8_frames")
        if frame["k"] == "widget":
            self.count("widget_frames")
        if self.rec.total == before:
            self.count("draws_without_output")
        self.observe_paths(exp, old_exp, data)
        self.pending_full = False
        self.compare(exp, "draw")
        return True

    def observe_paths(self, exp, old_exp, data):
        """evidence counters: which of the three mechanisms of the statement this draw exercised (judged from the
        canvases and the byte stream, not from urwid internals)"""
        if old_exp is not None and not self.pending_full and old_exp.cols == exp.cols and old_exp.rows == exp.rows:
            same = sum(1 for y in range(exp.rows) if old_exp.content[y] == exp.content[y])
            if same:
                self.count("rows_skipped_unchanged", same)
            if same != exp.rows:
                self.count("incremental_draws")
        n = data.count(b"\x1b[K")
        if n:
            self.count("el_shortcut_rows", n)
        if b"\x1b[4h" in data:
            self.count("insert_trick_rows")

    # ---- comparison
    def compare(self, exp: Expect, phase):
        vt = self.vt
        bib = self.bib
        cfg = self.cfg
        n = 0
        if (vt.cols, vt.rows) != (exp.cols, exp.rows):
            raise RuntimeError("harness: VT size out of step")
        for y in range(exp.rows):
            vrow = vt.cells[y]
            for x in range(exp.cols):
                c = vrow[x]
                e = exp.cells[y][x]
                n += 1
                if c.garbage:
                    raise Found(
                        f"C04|raw|{phase}|cell-never-painted|{self.where(exp, x, y)}",
                        f"cell ({x},{y}) was not painted by a repaint that had to be complete\n{self.describe(exp)}",
                    )
                if c.wide != e[2]:
                    raise Found(
                        f"C04|raw|{phase}|glyph|{self.where(exp, x, y)}|{row_shape(exp, y, cfg)}",
                        f"cell ({x},{y}): terminal has {c.ch!r} (wide-part {c.wide}), canvas has {e[0]!r} (wide-part {e[2]})\n{self.describe(exp)}",
                    )
                if c.wide == 2:
                    continue
                a = vt_vis(c, bib)
                b = exp.vis(y, x)
                if a != b:
                    d = S.diff_fields(a, b)
                    if "glyph" in d:
                        raise Found(
                            f"C04|raw|{phase}|glyph|{self.where(exp, x, y)}|{row_shape(exp, y, cfg)}",
                            f"cell ({x},{y}): terminal shows {c.ch!r}, canvas has {e[0]!r}\n{self.describe(exp)}",
                        )
                    blank = "blank" if e[0] == " " else "char"
                    raise Found(
                        f"C04|raw|{phase}|style:{'+'.join(d)}|{blank}-cell|attr={attr_kind(e[3], self.pal)}|{self.where(exp, x, y)}|{row_shape(exp, y, cfg) if blank == 'blank' else ''}",
                        f"cell ({x},{y}) {e[0]!r} attr {e[3]!r}: terminal {a} != expected {b} (depth {self.colors}, style {e[1]})\n{self.describe(exp)}",
                    )
        self.count("cells_compared", n)
        self.count("cursor_checks")
        if exp.cursor is None:
            if vt.cursor_visible:
                raise Found(f"C04|raw|{phase}|cursor|visible-but-canvas-has-none", f"cursor shown at {vt.cursor}\n{self.describe(exp)}")
            self.count("cursor_hidden_ok")
        else:
            if not vt.cursor_visible:
                raise Found(f"C04|raw|{phase}|cursor|hidden-but-canvas-has-one", f"canvas cursor {exp.cursor}\n{self.describe(exp)}")
            if tuple(vt.cursor) != tuple(exp.cursor):
                raise Found(
                    f"C04|raw|{phase}|cursor|wrong-position", f"terminal cursor {vt.cursor}, canvas cursor {exp.cursor}\n{self.describe(exp)}"
                )
            self.count("cursor_shown_ok")
        if vt.scroll_count:
            raise Found(f"C04|raw|{phase}|scrolled|last-row:{row_shape(exp, exp.rows - 1, cfg)}", f"screen scrolled {vt.scroll_count} line(s)\n{self.describe(exp)}")
        if vt.insert_mode:
            raise Found(f"C04|raw|{phase}|insert-mode-left-on", self.describe(exp))
        if not vt.alt_screen:
            raise Found(f"C04|raw|{phase}|left-alternate-screen", self.describe(exp))

    def where(self, exp, x, y):
        return ("last-row" if y == exp.rows - 1 else "row") + "," + ("last-col" if x == exp.cols - 1 else ("last-but-one-col" if x == exp.cols - 2 else "col"))

    def describe(self, exp):
        out = [f"cfg={self.cfg}", "terminal:"]
        out += ["  |" + "".join("␀" if c.garbage else (c.ch or "") for c in row) + "|" for row in self.vt.cells]
        out.append("canvas:")
        out += ["  |" + "".join(c[0] for c in row) + "|" for row in exp.cells]
        return "\n".join(out)

    def snapshot(self):
        vt = self.vt
        return (
            tuple(tuple((c.wide, vt_vis(c, self.bib)) if not c.garbage else "G" for c in row) for row in vt.cells),
            tuple(vt.cursor) if vt.cursor_visible else None,
            vt.cursor_visible,
            vt.insert_mode,
            vt.autowrap,
        )

    def final_equivalence(self):
        """incremental history == clear() + one full repaint of the last canvas"""
        if self.last_frame is None:
            return
        s1 = self.snapshot()
        self.scr.clear()
        self.vt.fill_garbage()
        self.pending_full = True
        canvas = build_frame(self.last_frame)
        exp = Expect(canvas, self.size, self.enc, self.pal, self.colors, self.bib)
        try:
            self.scr.draw_screen(self.size, canvas)
        except Exception as e:  # noqa: BLE001
            raise Found(f"C04|raw|full-repaint|raise:{type(e).__name__}", traceback.format_exc(limit=5)) from e
        self.feed()
        self.pending_full = False
        self.compare(exp, "full-repaint")
        s2 = self.snapshot()
        self.count("repaint_equivalence_checks")
        if s1 != s2:
            raise Found("C04|raw|history-differs-from-full-repaint", f"incremental {s1}\nfull {s2}")


def run_raw(ctx, case, count=True):
    """execute one history; returns (sig, msg) of the first failure or None"""
    sess = None
    drawn = 0
    try:
        sess = Session(ctx, case["cfg"], case["palette"], count)
        same_canvas = None
        for op in case["ops"]:
            k = op[0]
            if k == "draw":
                if sess.draw(op[1]):
                    drawn += 1
            elif sess.size is None or sess.last_frame is None:
                continue
            elif k == "clear":
                sess.op_clear()
            elif k == "winch":
                sess.op_winch()
            elif k == "again":  # the very same canvas object: draw_screen returns early
                if not sess.pending_full:
                    sess.draw(sess.last_frame, canvas=sess.last_canvas, tag="same_object")
                else:
                    sess.draw(sess.last_frame, tag="equal")
            elif k == "equal":  # an equal canvas in a new object: every row is skipped
                sess.draw(sess.last_frame, tag="equal")
        if drawn:
            sess.final_equivalence()
        same_canvas = None  # noqa: F841
    except Found as f:
        return (f.sig, f.msg), drawn
    finally:
        if sess is not None:
            try:
                sess.close()
            except Exception:  # noqa: BLE001
                pass
    return None, drawn
