"""C04 -- the bytes sent to the terminal paint exactly the rendered canvas.

Runtime monitor: every str that urwid.display.raw.Screen writes goes (encoded with the screen
encoding) into an independent terminal interpreter (vmon.models.vt.VT).  After every
draw_screen() every cell of the VT (glyph after charset translation, colours, style flags) and the
cursor state are compared with the canvas that was drawn; the expected style of an attribute is
obtained from the palette *spec strings* by my own parser (vmon.models.c04_style).  Histories
interleave draws with clear(), SIGWINCH/resize (VT refilled with GARBAGE sentinel cells) and
small mutations; at the end the terminal state must equal clear() + one full repaint.
The HTML back-end is fed the same canvases.

Descriptors (all JSON):
  case  = {"cfg": cfg, "palette": [entry...], "ops": [op...]}
  cfg   = {"enc", "colors", "bib" (fg_bright_is_bold), "bce", "alt", "pal_first"}
  op    = ["draw", frame] | ["clear"] | ["winch"] | ["again"] | ["equal"]
  frame = {"k": "text", "w": W, "rows": [[ [text, attr] | [text, attr, "U"], ...], ...], "cur": [x, y] | None, "wrap": ...}
          (a third element "U" marks a run in the IBM-PC character set, as urwid's Terminal widget produces)
        | {"k": "widget", "w": W, "h": H, "tree": recipe}
  attr  = None | palette-name | undefined name | ["spec", fg, bg, colors]
"""

from __future__ import annotations

import errno
import fcntl
import gc
import html as _html
import os
import pty
import re
import signal
import struct
import termios
import traceback

from vmon import reach
from vmon.models import c04_style as S
from vmon.models import grid as G
from vmon.models.vt import BLANK, DEC_GRAPHICS, GARBAGE, VT

PROPERTY = "C04"
LEVEL = "exploration"
SHARDS = {"quick": 8, "thorough": 16}
BUDGET = {"quick": 26.0, "thorough": 400.0}
REQUIRE = {
    "frames_drawn": 500,
    "cells_compared": 15000,
    "cursor_checks": 500,
    "rows_skipped_unchanged": 100,
    "el_shortcut_rows": 100,
    "insert_trick_rows": 100,
    "resizes": 30,
    "clears": 30,
    "repaint_equivalence_checks": 50,
    "html_frames": 100,
    "html_rows_compared": 300,
    "html_cursor_highlighted": 30,
    "widget_frames": 30,
    "enc_nonutf8_frames": 100,
    "partial_mode_frames": 20,
    "frames_same_object": 10,
    "draws_interrupted_by_sigwinch": 40,
    "redraws_judged_after_resize_during_draw": 40,
    "draws_aborted_by_write_error": 20,
    "redraws_judged_after_write_error": 10,
    "restarts": 40,
    "frames_after_restart:inline->alt": 10,
    "frames_after_restart:alt->inline": 10,
    "frames_after_restart:inline->inline": 10,
    "frames_after_restart:alt->alt": 10,
    "canvas_class:SolidCanvas": 30,
    "canvas_class:UserCanvas": 30,
    "content_fingerprints_rechecked": 500,
    "frames_drawn_after_previous_canvas_released": 300,
    "ctrl_byte_cells_compared_as_?": 100,
    "rows_ctrl_byte_before_trailing_blanks": 20,
    "reach:display._raw_display_base.Screen._last_row": 100,
    "reach:display._raw_display_base.Screen._attrspec_to_escape": 500,
    "reach:display.html_fragment.html_span": 500,
}
RULE = (
    "case = (screen configuration: output encoding in {utf-8, utf8, iso8859-1, ascii}, colours in {1,16,88,256,2**24}, "
    "fg_bright_is_bold, back_color_erase, palette registered before/after set_terminal_properties, alternate buffer or "
    "partial-screen mode with 0..h-1 history rows above the display; a generated palette of 3/4/6-tuples, aliases and "
    "(rarely) a None entry; a history of 1-12 ops: draw(frame) | clear | SIGWINCH | redraw the same canvas object | redraw an "
    "equal canvas). Frames are TextCanvas / CompositeCanvas (wrap, CanvasJoin, CanvasCombine) built from adversarial row "
    "classes (wide character in the last two cells, sole wide character at width 2, wide/narrow and narrow/wide pairs, DEC "
    "line-drawing glyph beside ASCII at the right edge, combining mark on the last cell, trailing blanks carrying "
    "underline/standout/strikethrough/background, one-character attribute runs, undefined names, AttrSpec objects of all five "
    "depths, None; rarely C0 controls and IBM-PC charset runs), one-row / attribute-only / cursor-only mutations of the "
    "previous frame, or renders of small real widget trees (Text/Edit/Divider/Pile/Columns/LineBox/AttrMap/Padding in a Filler); "
    "sizes 1x1..40x12; a frame whose size differs from the current one is preceded by the resize protocol (TIOCSWINSZ, "
    "_sigwinch_handler, 'window resize' key, get_cols_rows). Every frame of a history is also given to HtmlGenerator (first and "
    "last two). In byte encodings rows also hold control bytes (one column each, expected glyph '?'), in particular directly "
    "before trailing blanks, and widget texts hold tabs. A fifth of the histories and dedicated 40-200 frame histories follow "
    "the MainLoop discipline: every reference to a canvas is dropped (del + gc) right after draw_screen and only then the next "
    "canvas is built, taking the one that lands on the released address if one of 8 same-type allocations does. "
    "About a tenth of the fresh frames are canvases of other classes handed to draw_screen directly: SolidCanvas (blank / "
    "non-blank fill; one row list for all rows), SolidCanvas inside a CompositeCanvas with a fill attribute, and a user Canvas "
    "subclass whose content() yields its stored row lists or one shared list for equal rows -- drawn over whatever the previous "
    "frame left; content() is fingerprinted before and after every draw_screen. One case in nine is a multi-session history on "
    "ONE Screen and terminal: start(alternate_buffer=a1) .. stop(); start(alternate_buffer=a2) .. (all four combinations, inline "
    "sessions starting on row 1..h-1 after the shell's CUP + ED). "
    "Six percent of the ops are interrupted draws: (a) a user canvas whose content() changes the pty size and raises a real SIGWINCH "
    "(same size / another size / there and back) while draw_screen iterates it, followed by the application's 'window resize' "
    "key, get_cols_rows and a redraw (mostly of an EQUAL canvas) at the then-current size; (b) output.write() raising "
    "EIO/EPIPE/EAGAIN once at the n-th item of the frame, followed by a redraw without clear(). "
    "Plus fixed directed histories. Distinct = hash of the whole case descriptor; non-trivial = at least one "
    "frame was drawn and compared."
)
ASSUMES = [
    "Ground truth for what a byte stream paints is vmon.models.vt.VT (xterm semantics: pending-wrap at the last column, IRM insert, "
    "EL with back-colour-erase set equal to Screen.back_color_erase, SO/SI with G1 = DEC special graphics, SGR 11/10 = cp437 font "
    "not reset by SGR 0).",
    "The str objects written by Screen are encoded with the urwid target encoding (what sys.stdout of a matching locale does).",
    "Expected style of an attribute = my own reading of the palette spec strings for the active depth (vmon.models.c04_style); only "
    "colour forms with an undisputed meaning are generated (names, hN, cube corners, #rrggbb in true colour; at 88 colours palette "
    "entries use hN only for N<16 because urwid documents falling back to the basic colours otherwise); nearest-colour matching is C18.",
    "An AttrSpec object used as a canvas attribute means its own spec strings at its own depth, whatever the screen's depth.",
    "On a terminal whose bold means bright (fg_bright_is_bold) bold+colour n<8 and bright colour n+8 are the same; on a blank cell only "
    "background, underline, standout and strikethrough (and the foreground when standout) are visible and compared.",
    "The canvas is the specification: glyph of a cell = canvas bytes decoded with the screen encoding, through the DEC special-graphics "
    "table for cs='0' runs and cp437 for cs='U' runs; zero-width characters belong to the cell before them; a C0 control inside "
    "canvas text occupies no column (that is what TextCanvas/calc_width say), so nothing is expected on the glass for it.  Canvases are "
    "built with urwid's own apply_target_encoding, so cs='0' runs only occur where urwid itself produces them.",
    "The first frame after start() is drawn on the blank alternate screen; after clear() and after a resize the VT is filled with "
    "GARBAGE sentinel cells, so only a complete repaint passes.",
    "Partial-screen mode (start(alternate_buffer=False)): the display starts at the cursor row of the normal screen below `base` rows "
    "of history that must stay intact; canvas rows that have no terminal row are blank; blank rows whose attribute paints like the "
    "default entry may be left unpainted (documented intent), other rows are judged like in full-screen mode; no GARBAGE, no resizes.",
    "stop()/start() on one Screen: read as covered by 'any sequence of screen draws' (SIGTSTP/SIGCONT and shelling out do exactly "
    "this); between sessions the terminal keeps its state (VT: ESC[?1049l restores the cursor saved by ESC[?1049h including the "
    "character-set designations, as xterm does); before an inline session the harness plays the shell: CUP to the start row and ED. "
    "What stop() itself must restore is C12's subject, not judged here.",
    "Interrupted draws: only frames that completed are judged.  After a resize during a draw the next draw must be a complete "
    "repaint (the VT is GARBAGE-filled by the resize).  A draw whose write() raised is read as one of 'any sequence of screen draws': "
    "the next completed draw must still show its canvas (I/O errors are not named in the quantifier; known finding + fix-15 rest on "
    "this reading).  If the aborted frame stopped between 'insert mode on'/'IBM font on' and the matching 'off' the rest of the "
    "session is not judged (counted).  errno EINTR is not injected (PEP 475: cannot surface from a real file write).",
    "BlankCanvas cannot be drawn directly (rows() raises); row tuples instead of row lists are outside the documented content() "
    "protocol ('each row is a list of (attr, cs, text) tuples') and are not generated.",
    "TERM=xterm is set while the Screen is constructed (term-specific branches 'fbterm'/'linux' are outside the quantifier).",
    "In a byte (narrow) encoding a control byte is one column for calc_width/TextCanvas and draw_screen documents its translation to "
    "'?': such cells are judged like any other (expected glyph '?'); SO/SI are not generated (apply_target_encoding reads them as shifts), "
    "DEL is not generated.",
    "Release discipline: on the unchanged tree the screen itself keeps the last canvas alive, so the counter canvas_address_reused is 0 "
    "there by construction (non-zero means the screen no longer holds the canvas); it is recorded, not required.",
    "HTML: rows containing zero-width C0 controls (utf-8) or IBM-PC charset runs are not judged (how such bytes are visualised is not specified); the "
    "highlighted cursor span must start with the base character of exactly the canvas cursor cell (a combining mark may stay outside).",
]

TRUE = 2**24
ENCODINGS = ("utf-8", "utf8", "iso8859-1", "ascii")


def enc_mode(enc: str) -> str:
    return "utf8" if enc in ("utf-8", "utf8") else "narrow"


# ------------------------------------------------------------------------------------------------
# terminal plumbing: one pty per process, a recording "file" on its slave side
# ------------------------------------------------------------------------------------------------


class Rec:
    """what Screen gets as `output`: records every write; fileno() is a pty so TIOCGWINSZ works"""

    def __init__(self, fd):
        self.fd = fd
        self.buf: list[str] = []
        self.total = 0
        self.fail_in = None  # raise OSError(errno) from the n-th write() from now (0 = the next one), once
        self.fail_errno = 0
        self.failed = False

    def write(self, s):
        if self.fail_in is not None:
            if self.fail_in <= 0:
                self.fail_in = None
                self.failed = True
                raise OSError(self.fail_errno, os.strerror(self.fail_errno))
            self.fail_in -= 1
        self.buf.append(s)
        self.total += len(s)
        return len(s)

    def flush(self):
        pass

    def fileno(self):
        return self.fd

    def take(self) -> str:
        s = "".join(self.buf)
        self.buf.clear()
        return s


class Pty:
    _inst = None

    def __init__(self):
        self.master, self.slave = pty.openpty()
        self.inp = os.fdopen(os.dup(self.slave), "r")

    @classmethod
    def get(cls):
        if cls._inst is None:
            cls._inst = Pty()
        return cls._inst

    def set_size(self, cols, rows):
        fcntl.ioctl(self.master, termios.TIOCSWINSZ, struct.pack("HHHH", rows, cols, 0, 0))


# ------------------------------------------------------------------------------------------------
# building real canvases from descriptors
# ------------------------------------------------------------------------------------------------


_SPEC_STYLE: dict = {}


def mk_attr(a):
    import urwid

    if isinstance(a, list) and a and a[0] == "spec":
        sp = urwid.AttrSpec(a[1], a[2], a[3])
        _SPEC_STYLE[sp] = S.parse_spec(a[1], a[2], a[3])  # my reading of the same strings
        return sp
    if isinstance(a, list):
        return tuple(a)
    return a


def text_canvas(rows, w, cursor=None):
    """rows: [[ [text, attr], ...], ...] -> TextCanvas via urwid's own apply_target_encoding"""
    import urwid
    from urwid.util import apply_target_encoding, rle_append_modify

    texts, attrs, css = [], [], []
    for segs in rows:
        tb = b""
        ar = []
        cr = []
        for seg in segs:
            text, a = seg[0], seg[1]
            if len(seg) > 2:
                b = text.encode("latin-1")
                cs = [(seg[2], len(b))]
            else:
                b, cs = apply_target_encoding(text)
            if not b:
                continue
            tb += b
            rle_append_modify(ar, (mk_attr(a), len(b)))
            for c, n in cs:
                rle_append_modify(cr, (c, n))
        texts.append(tb)
        attrs.append(ar)
        css.append(cr)
    return urwid.TextCanvas(texts, attrs, css, cursor=tuple(cursor) if cursor else None, maxcol=w)


def seg_width(text):
    return sum(G.char_width(c) for c in text)


def split_rows_at(rows, k, enc="utf-8"):
    """split every row at column k; None if k is inside a wide character somewhere"""
    narrow = enc_mode(enc) != "utf8"
    left, right = [], []
    for segs in rows:
        l, r = [], []
        col = 0
        for seg in segs:
            text, a = seg[0], seg[1]
            lt, rt = "", ""
            for ch in text:
                cw = 1 if narrow else G.char_width(ch)
                if col + cw <= k and not rt:
                    lt += ch
                elif col < k:
                    return None
                else:
                    rt += ch
                col += cw
            if lt:
                l.append([lt, a, *seg[2:]])
            if rt:
                r.append([rt, a, *seg[2:]])
        left.append(l)
        right.append(r)
    return left, right


def _cur_enc():
    from urwid.util import get_encoding

    return get_encoding()


def build_text_frame(fr):
    import urwid

    w = fr["w"]
    rows = fr["rows"]
    cur = fr.get("cur")
    wrap = fr.get("wrap") or ["text"]
    kind = wrap[0]
    if kind == "text":
        return text_canvas(rows, w, cur)
    if kind == "composite":
        c = urwid.CompositeCanvas(text_canvas(rows, w))
    elif kind == "join" and 0 < wrap[1] < w and split_rows_at(rows, wrap[1], _cur_enc()):
        k = wrap[1]
        l, r = split_rows_at(rows, k, _cur_enc())
        c = urwid.CanvasJoin([(text_canvas(l, k), None, False, k), (text_canvas(r, w - k), None, True, w - k)])
    elif kind == "combine" and 0 < wrap[1] < len(rows):
        k = wrap[1]
        c = urwid.CanvasCombine([(text_canvas(rows[:k], w), None, False), (text_canvas(rows[k:], w), None, True)])
    else:
        c = urwid.CompositeCanvas(text_canvas(rows, w))
    if cur:
        c.cursor = tuple(cur)
    return c


def build_widget(t):
    import urwid

    k = t[0]
    if k == "text":
        return urwid.Text(mk_markup(t[1]), align=t[2], wrap=t[3])
    if k == "edit":
        e = urwid.Edit(mk_markup(t[1]), t[2])
        e.set_edit_pos(min(t[3], len(t[2])))
        return e
    if k == "div":
        return urwid.Divider(t[1])
    if k == "pile":
        return urwid.Pile([build_widget(c) for c in t[1]], focus_item=min(t[2], len(t[1]) - 1))
    if k == "cols":
        return urwid.Columns([build_widget(c) for c in t[1]], dividechars=t[2], focus_column=min(t[3], len(t[1]) - 1))
    if k == "linebox":
        return urwid.LineBox(build_widget(t[1]), title=t[2])
    if k == "attrmap":
        return urwid.AttrMap(build_widget(t[1]), mk_attr(t[2]), mk_attr(t[3]))
    if k == "padding":
        return urwid.Padding(build_widget(t[1]), left=t[2], right=t[3])
    raise ValueError(k)


def mk_markup(m):
    if isinstance(m, str):
        return m
    if isinstance(m, list) and len(m) == 2 and m[0] == "@":  # ["@", [attr, markup]]
        return (mk_attr(m[1][0]), mk_markup(m[1][1]))
    return [mk_markup(x) for x in m]


def build_widget_frame(fr):
    import urwid

    w = build_widget(fr["tree"])
    top = urwid.Filler(w, valign=fr.get("valign", "top"))
    if fr.get("fill") is not None:
        top = urwid.AttrMap(top, mk_attr(fr["fill"]))
    return top.render((fr["w"], fr["h"]), focus=True)


_USER_CANVAS = {}


def user_canvas_class():
    """a user Canvas subclass following the documented content() protocol (rows = lists of (attr, cs, bytes)):
    mode 'stored' yields the row lists it keeps (the same objects on every call), mode 'shared' yields ONE list
    object for consecutive equal rows (what SolidCanvas / BlankCanvas do)"""
    import urwid

    if "cls" not in _USER_CANVAS:

        class UserCanvas(urwid.Canvas):
            def __init__(self, rows, cols, mode, cursor=None):
                super().__init__()
                self._rows = rows
                self._cols = cols
                self._mode = mode
                self.cursor = cursor
                self.hook = None  # (row index, callable): called once while content() is being iterated, when armed
                self.armed = False

            def cols(self):
                return self._cols

            def rows(self):
                return len(self._rows)

            def content(self, trim_left=0, trim_top=0, cols=0, rows=0, attr=None):
                prev = None
                for i, row in enumerate(self._rows):
                    if self.armed and self.hook and self.hook[0] == i:
                        self.armed = False
                        self.hook[1]()
                    if self._mode == "shared" and prev is not None and prev == row:
                        yield prev
                        continue
                    prev = row if self._mode == "stored" else list(row)
                    yield prev

            def content_delta(self, other):
                return self.content()

        _USER_CANVAS["cls"] = UserCanvas
    return _USER_CANVAS["cls"]


def build_frame(fr):
    import urwid

    k = fr["k"]
    if k == "text":
        return build_text_frame(fr)
    if k == "solid":
        # a SolidCanvas handed to draw_screen directly (top widget = SolidFill): content() yields one list for all rows
        c = urwid.SolidCanvas(fr["fill"], fr["w"], fr["h"])
        if fr.get("attr", "-") != "-":
            c = urwid.CompositeCanvas(c)
            c.fill_attr(mk_attr(fr["attr"]))
        return c
    if k == "user":
        t = text_canvas(fr["rows"], fr["w"])
        cur = fr.get("cur")
        return user_canvas_class()([list(r) for r in t.content()], fr["w"], fr["mode"], tuple(cur) if cur else None)
    return build_widget_frame(fr)


def frame_size(fr):
    if fr["k"] in ("text", "user"):
        return fr["w"], len(fr["rows"])
    return fr["w"], fr["h"]


# ------------------------------------------------------------------------------------------------
# the oracle: canvas -> expected cells
# ------------------------------------------------------------------------------------------------


class Invalid(Exception):
    """the canvas is outside the input domain (not a cols x rows grid of whole characters)"""


def glyph_of(b: bytes, cs, enc: str) -> str:
    if cs == "0":
        ch = b.decode("latin-1")
        return "".join(DEC_GRAPHICS.get(ord(c), c) for c in ch)
    if cs == "U":
        return "".join(chr(x) if 0x20 <= x < 0x7F else bytes((x,)).decode("cp437") for x in b)
    ch = b.decode("utf-8" if enc_mode(enc) == "utf8" else ("latin-1" if enc == "ascii" else enc))
    if len(ch) == 1 and ord(ch) < 0x20:
        return "?"
    return ch


class Expect:
    """expected screen for one canvas"""

    def __init__(self, canvas, size, enc, pal: S.Palette, colors, bib):
        cols, rows = size
        self.cols, self.rows = cols, rows
        self.enc = enc
        self.bib = bib
        content = [list(r) for r in canvas.content()]
        if len(content) != rows:
            raise Invalid(f"canvas has {len(content)} rows, size says {rows}")
        try:
            items = G.flatten_rows(content, enc_mode(enc))
        except (ValueError, UnicodeDecodeError) as e:
            raise Invalid(f"canvas bytes are not text: {e}") from e
        self.content = content
        self.items = items
        self.cells = []  # [y][x] = (ch, Style, widepart, attr)
        self.has_c0 = False
        self.ctrl_xy = set()
        self.ctrl_cells = 0  # cells holding a control byte that counts one column (byte encodings): must show '?'
        self.ctrl_before_blank_tail = 0  # rows whose last non-blank cell is such a control byte, followed by blanks
        style_cache = {}
        for irow in items:
            row = []
            last_ctrl = None
            for b, w, a, cs in irow:
                if w == 0 and len(b) == 1 and (b[0] < 0x20 or b[0] == 0x7F):
                    # a C0 control inside canvas text occupies no column in the canvas: nothing is expected on the glass
                    self.has_c0 = True
                    continue
                if w == 0:
                    if row:
                        x = len(row) - 1
                        if row[x][2] == 2:
                            x -= 1
                        row[x] = (row[x][0] + glyph_of(b, cs, enc), *row[x][1:])
                    continue
                key = _hashable(a)
                st = style_cache.get(key)
                if st is None:
                    st = style_cache[key] = self.style_of(a, pal, colors)
                ch = glyph_of(b, cs, enc)
                if w == 2:
                    row.append((ch, st, 1, a))
                    row.append(("", st, 2, a))
                else:
                    row.append((ch, st, 0, a))
                    if cs != "U" and len(b) == 1 and b[0] < 0x20:
                        self.ctrl_cells += 1
                        last_ctrl = len(row) - 1
                        self.ctrl_xy.add((len(row) - 1, len(self.cells)))
            if len(row) != cols:
                raise Invalid(f"canvas row is {len(row)} columns wide, size says {cols}")
            if last_ctrl is not None and last_ctrl < cols - 1 and all(c[0] == " " for c in row[last_ctrl + 1 :]):
                self.ctrl_before_blank_tail += 1
            self.cells.append(row)
        self.cursor = canvas.cursor

    @staticmethod
    def style_of(a, pal, colors):
        if _is_spec(a):
            return _SPEC_STYLE[a]
        return pal.style(a, colors)

    def vis(self, y, x):
        ch, st, _wp, _a = self.cells[y][x]
        return S.visible(ch, st.fg, st.bg, st.bold, st.italics, st.underline, st.blink, st.standout, st.strikethrough, self.bib)


def _hashable(a):
    try:
        hash(a)
    except TypeError:
        return repr(a)
    return a


def _is_spec(a):
    return type(a).__name__ == "AttrSpec"


def vt_vis(c, bib):
    return S.visible(c.ch, c.fg, c.bg, c.bold, c.italics, c.underline, c.blink, c.reverse, c.strikethrough, bib)


# ------------------------------------------------------------------------------------------------
# session: a real Screen wired to a VT
# ------------------------------------------------------------------------------------------------


class Found(Exception):
    """first oracle failure of a history: (sig, msg)"""

    def __init__(self, sig, msg, cell=None):
        super().__init__(sig)
        self.sig = sig
        self.msg = msg
        self.cell = cell


def attr_kind(a, pal: S.Palette):
    if a is None:
        return "None"
    if _is_spec(a):
        return "AttrSpec"
    if pal.defined(a):
        return "name"
    return "undefined"


def row_shape(exp: Expect, y, cfg):
    """abstract shape of the tail of canvas row y (from the canvas only): what the right edge looks like"""
    row = exp.cells[y]
    n = len(row)

    def unit(x):  # character ending at column x -> (start, width, ch, cs-ish)
        if row[x][2] == 2:
            return x - 1, 2
        return x, 1

    zs, zw = unit(n - 1)
    ztag = f"Z{zw}"
    if zs == 0:
        return f"tail={ztag}-sole"
    ys, yw = unit(zs - 1)
    if (ys, y) in exp.ctrl_xy:
        return f"tail=Y1ctl-{ztag}"
    return f"tail=Y{yw}-{ztag}" + (",charsets-differ" if _cs_tag(exp, y, ys) != _cs_tag(exp, y, zs) else "")


def _cs_tag(exp, y, x):
    # charset of the canvas item that starts at column x
    col = 0
    for _b, w, _a, cs in exp.items[y]:
        if col == x and w:
            return {None: "", "0": "dec", "U": "ibm"}[cs]
        col += w
    return ""


class Session:
    def __init__(self, ctx, cfg, palette, count=True):
        import urwid
        from urwid.display import raw

        self.ctx = ctx
        self.cfg = cfg
        self.count = (lambda k, n=1: ctx.count(k, n)) if count else (lambda k, n=1: None)
        self.enc = cfg["enc"]
        self.colors = cfg["colors"]
        self.bib = cfg["bib"]
        self.bce = cfg["bce"]
        self.pal = S.Palette(palette)
        self.palette = [tuple(mk_attr(x) if i == 0 and isinstance(x, list) else x for i, x in enumerate(e)) for e in palette]
        self.pty = Pty.get()
        self.rec = Rec(self.pty.slave)
        self._old_enc = urwid.util.get_encoding()
        self._old_term = os.environ.get("TERM")
        os.environ["TERM"] = "xterm"
        urwid.set_encoding(self.enc)
        self.scr = raw.Screen(input=self.pty.inp, output=self.rec)
        if cfg.get("pal_first"):
            self.scr.register_palette(self.palette)
        self.scr.set_terminal_properties(colors=self.colors, bright_is_bold=self.bib)
        if not cfg.get("pal_first"):
            self.scr.register_palette(self.palette)
        self.scr.back_color_erase = self.bce
        self.size = None
        self.vt = None
        self.exp = None
        self.last_canvas = None
        self.last_frame = None
        self.pending_full = True  # next draw must be a complete repaint (start / clear / resize)
        self.scroll_seen = 0
        self.font_before = False
        self.cy_stale = False
        self.cy_ok_since_restart = False
        self.unjudged = False
        self.undrawn = False  # the terminal does not hold a completed frame (aborted / abandoned draw)
        self.after_interrupted = False
        self.after_failed = False
        self.release = bool(cfg.get("release"))
        self.prev_canvas_id = None
        self.early_return_new_canvas = None
        self.alt = cfg.get("alt", True)
        self.base = 0 if self.alt else cfg.get("base", 0)
        self.above = []
        self.session_no = 0
        self.session_tag = ""
        self.started = False

    def start(self, size):
        self.size = size
        self.pty.set_size(*size)
        self.vt = VT(size[0], size[1], utf8=enc_mode(self.enc) == "utf8", bce=self.bce, encoding="latin-1")
        if not self.alt:
            # partial-screen mode: the display starts at the cursor row of the normal screen, below `base` rows of history
            self.vt.feed((b"H" * size[0] + b"\r\n") * self.base)
        self.above = [[c.ch for c in row] for row in self.vt.cells[: self.base]]
        self.scr.start(alternate_buffer=self.alt)
        self.started = True
        self.feed()
        if self.alt != self.vt.alt_screen:
            raise Found("C04|raw|start|alternate-screen-state-wrong", f"after start(alternate_buffer={self.alt}) alt_screen={self.vt.alt_screen}")
        got = self.scr.get_cols_rows()
        if tuple(got) != tuple(size):
            raise RuntimeError(f"harness: get_cols_rows {got} != {size}")

    def restart(self, alt, base):
        """stop() and start() again on the SAME Screen object and the same terminal, possibly in the other buffer mode
        (an application that leaves the screen for a while, or runs a second MainLoop on its screen)"""
        prev = "alt" if self.alt else "inline"
        self.scr.stop()
        self.started = False
        self.feed()
        if self.vt.alt_screen:
            raise Found("C04|raw|stop|still-on-the-alternate-screen", "after stop() the terminal is still on the alternate screen")
        self.alt = bool(alt)
        if not self.alt:
            # what a shell does before an inline program: cursor somewhere down the screen, nothing below it
            self.vt.feed(f"\x1b[{min(base, self.size[1] - 1) + 1};1H\x1b[J".encode())
        self.base = 0 if self.alt else self.vt.cursor[1]
        self.above = [[c.ch for c in row] for row in self.vt.cells[: self.base]]
        self.exp = self.last_canvas = self.last_frame = None
        self.prev_canvas_id = None
        self.pending_full = True
        self.cy_stale = False
        self.cy_ok_since_restart = False
        self.scroll_seen = self.vt.scroll_count
        self.session_no += 1
        self.session_tag = f"{prev}->{'alt' if self.alt else 'inline'}"
        self.scr.start(alternate_buffer=self.alt)
        self.started = True
        self.feed()
        self.scroll_seen = self.vt.scroll_count
        self.count("restarts")
        self.count(f"restart:{self.session_tag}")
        if self.alt != self.vt.alt_screen:
            raise Found("C04|raw|start|alternate-screen-state-wrong", f"after start(alternate_buffer={self.alt}) alt_screen={self.vt.alt_screen}")

    def close(self):
        import urwid

        try:
            if self.started:
                self.scr.stop()
        finally:
            urwid.set_encoding(self._old_enc)
            if self._old_term is None:
                os.environ.pop("TERM", None)
            else:
                os.environ["TERM"] = self._old_term
            urwid.CanvasCache.clear()

    def feed(self):
        s = self.rec.take()
        try:
            data = s.encode("utf-8" if enc_mode(self.enc) == "utf8" else ("latin-1" if self.enc == "ascii" and s.isascii() else self.enc))
        except UnicodeEncodeError as e:
            raise Found("C04|raw|output|not-encodable-in-screen-encoding", f"{e}: {s!r}") from e
        self.font_before = self.vt.altfont  # SGR 11 (IBM-PC font) still selected by an earlier frame
        self.vt.feed(data)
        return data

    # ---- ops
    def resize(self, size):
        """what a terminal emulator + MainLoop do: new window size, unknown content, SIGWINCH, 'window resize' key"""
        self.size = size
        self.pty.set_size(*size)
        self.vt.resize(size[0], size[1], fill=GARBAGE)
        self.scr._sigwinch_handler(28, None)
        keys, _raw = self.scr.parse_input(None, None, [])
        if "window resize" not in keys:
            raise RuntimeError("harness: no 'window resize' after SIGWINCH")
        got = self.scr.get_cols_rows()
        if tuple(got) != tuple(size):
            raise RuntimeError(f"harness: get_cols_rows {got} != {size}")
        self.pending_full = True
        self.count("resizes")

    def garbage(self):
        """the screen content is unknown / must not be relied on (not in partial-screen mode, where clear() only
        forces a repaint of a terminal nobody erased and blank rows are deliberately left alone)"""
        if self.alt:
            self.vt.fill_garbage()

    def op_clear(self):
        self.scr.clear()
        self.garbage()
        self.pending_full = True
        self.count("clears")

    def partial_ok(self, exp):
        """partial-screen mode: rows that have no terminal row must be blank, the cursor must be on the screen"""
        n = exp.rows - self.base
        if exp.cursor is not None and exp.cursor[1] >= n:
            return False
        return all(c[0] == " " and c[1] == S.DEFAULT_STYLE for y in range(max(n, 0), exp.rows) for c in exp.cells[y])

    def note_cy(self):
        """classification aid only (never a verdict): in partial-screen mode urwid moves relative to the row it believes the
        terminal cursor is on (Screen._cy); remember whether that belief is already wrong before this draw"""
        if (not self.alt) and self.vt is not None and (self.vt.cursor[1] - self.base) == self.scr._cy and not self.cy_stale:
            self.cy_ok_since_restart = True
        if (not self.alt) and self.vt is not None and (self.vt.cursor[1] - self.base) != self.scr._cy:
            self.cy_stale = True  # sticky: once a frame was painted at the wrong rows everything later in this session is suspect

    def op_winch(self):
        self.resize(self.size)

    def draw(self, frame, canvas=None, tag="draw", fail=None):
        size = frame_size(frame)
        if canvas is None:
            try:
                canvas = build_frame(frame)
                if self.release and self.prev_canvas_id is not None and id(canvas) != self.prev_canvas_id:
                    # MainLoop discipline: every reference to the previous canvas was dropped before this one is built.
                    # CPython hands the freed address out again within a few same-type allocations: take that canvas
                    # if it shows up (an ordinary caller can end up with it just as well).
                    spare = [canvas]
                    for _ in range(7):
                        c = build_frame(frame)
                        spare.append(c)
                        if id(c) == self.prev_canvas_id:
                            canvas = c
                            break
                    del spare, c
            except Exception as e:  # noqa: BLE001  -- widget trees that urwid refuses are not C04's subject
                self.count("frames_skipped_render_error")
                self.count(f"render_error:{type(e).__name__}")
                return False
        if not self.release:
            return self._draw(frame, canvas, size, tag, fail)
        try:
            return self._draw(frame, canvas, size, tag, fail)
        finally:
            # the screen is the only one allowed to keep the canvas (MainLoop.draw_screen keeps none)
            self.prev_canvas_id = id(canvas)
            self.last_canvas = None
            del canvas
            gc.collect(1)

    def after_failed_write(self, e):
        """output.write() raised a non-EINTR OSError in the middle of a frame: the frame is NOT judged.  What did get
        out reaches the terminal; the application goes on drawing (without clear())."""
        self.feed()
        self.count("draws_aborted_by_write_error")
        self.after_failed = True
        self.undrawn = True
        self.count(f"write_error:{errno.errorcode.get(e.errno, e.errno)}")
        self.exp = None
        if self.vt.insert_mode or self.vt.altfont:
            # the aborted frame stopped between "insert mode on" / "IBM font on" and the matching "off": nothing in the
            # statement (or in urwid's docs) says how a terminal left like that is to be recovered
            self.count("sessions_not_judged_further:write_error_inside_insert_or_font_bracket")
            self.unjudged = True
        return False

    def draw_interrupted(self, frame, at, sizes):
        """a draw during which the window size changes: the real SIGWINCH path fires while draw_screen iterates
        canvas.content() (a user canvas calls back at row `at`).  The abandoned frame is not judged; then the application
        does what MainLoop does: 'window resize' key, get_cols_rows, redraw at the then-current size."""
        if not self.alt or self.size is None or frame_size(frame) != self.size:
            return False
        t = text_canvas(frame["rows"], frame["w"])
        cur = frame.get("cur")
        canvas = user_canvas_class()([list(r) for r in t.content()], frame["w"], "fresh", tuple(cur) if cur else None)

        def fire():
            for sz in sizes:
                self.size = tuple(sz)
                self.pty.set_size(*sz)
                self.vt.resize(sz[0], sz[1], fill=GARBAGE)
                os.kill(os.getpid(), signal.SIGWINCH)
            if not self.scr._resized:
                self.scr._sigwinch_handler(28, None)
                self.count("sigwinch_delivered_by_direct_call")

        size = self.size
        canvas.hook = (min(at, len(frame["rows"]) - 1), fire)
        canvas.armed = True
        before = self.rec.total
        try:
            self.scr.draw_screen(size, canvas)
        except Exception as e:  # noqa: BLE001
            raise Found(f"C04|raw|draw_screen|raise:{type(e).__name__}|resize-during-draw", traceback.format_exc(limit=5)) from e
        self.feed()
        self.count("draws_interrupted_by_sigwinch")
        if self.rec.total == before:
            self.count("interrupted_draws_that_wrote_nothing")
        keys, _raw = self.scr.parse_input(None, None, [])
        if "window resize" not in keys:
            raise Found("C04|raw|resize-during-draw|no-window-resize-key-afterwards", repr(keys))
        got = self.scr.get_cols_rows()
        if tuple(got) != tuple(self.size):
            raise RuntimeError(f"harness: get_cols_rows {got} != {self.size}")
        self.exp = None
        self.last_canvas = None
        self.last_frame = frame if frame_size(frame) == self.size else None
        self.pending_full = True
        self.undrawn = True
        self.after_interrupted = True
        self.count("resizes")
        return False

    def _draw(self, frame, canvas, size, tag, fail=None):
        try:
            exp = Expect(canvas, size, self.enc, self.pal, self.colors, self.bib)
        except Invalid:
            self.count("frames_skipped_invalid_canvas")
            return False
        if self.size is None:
            self.start(size)
        elif size != self.size:
            self.resize(size)
        if not self.alt and not self.partial_ok(exp):
            self.count("frames_skipped_invalid_for_partial_mode")
            return False
        shape = row_shape(exp, size[1] - 1, self.cfg)
        before = self.rec.total
        self.note_cy()
        old_exp = self.exp
        reused = False
        if self.release and self.prev_canvas_id is not None and tag != "same_object":
            self.count("frames_drawn_after_previous_canvas_released")
            reused = id(canvas) == self.prev_canvas_id
            if reused:
                self.count("canvas_address_reused")
        self.rec.failed = False
        if fail is not None:
            self.rec.fail_in, self.rec.fail_errno = fail
        try:
            self.scr.draw_screen(size, canvas)
        except Exception as e:  # noqa: BLE001
            if isinstance(e, OSError) and self.rec.failed:
                return self.after_failed_write(e)
            raise Found(
                f"C04|raw|draw_screen|raise:{type(e).__name__}|last-row:{shape}",
                f"{type(e).__name__}: {e}\n{traceback.format_exc(limit=5)}",
            ) from e
        finally:
            self.rec.fail_in = None
        if self.rec.failed:
            raise Found("C04|raw|write-error-swallowed-by-draw_screen", "output.write raised OSError (not EINTR) and draw_screen returned normally")
        data = self.feed()
        self.count(f"canvas_class:{type(canvas).__name__}")
        self.count("content_fingerprints_rechecked")
        try:
            after = [list(r) for r in canvas.content()]
        except Exception as e:  # noqa: BLE001
            after = repr(e)
        if after != exp.content:
            self.scr.clear()
            raise Found(
                f"C04|raw|draw_screen-modified-what-canvas.content()-yields|{type(canvas).__name__}",
                f"content() before draw_screen: {exp.content!r}\nafter: {after!r}",
            )
        self.exp, self.last_canvas, self.last_frame = exp, canvas, frame
        self.count("frames_drawn")
        self.count(f"frames_{tag}")
        self.count("bytes_fed", len(data))
        if enc_mode(self.enc) != "utf8":
            self.count("enc_nonutf8_frames")
        if not self.alt:
            self.count("partial_mode_frames")
        if self.session_no:
            self.count("frames_drawn_after_restart")
            self.count(f"frames_after_restart:{self.session_tag}")
        if frame["k"] == "widget":
            self.count("widget_frames")
        if self.rec.total == before:
            self.count("draws_without_output")
        self.early_return_new_canvas = None
        if self.rec.total == before and tag != "same_object":
            self.early_return_new_canvas = "address-of-the-released-previous-canvas-reused" if reused else "other"
        self.observe_paths(exp, old_exp, data)
        self.pending_full = False
        self.undrawn = False
        self.compare(exp, "draw")
        if exp.has_c0:
            self.count("frames_with_c0_control")
        if exp.ctrl_cells:
            self.count("ctrl_byte_cells_compared_as_?", exp.ctrl_cells)
            self.count("rows_ctrl_byte_before_trailing_blanks", exp.ctrl_before_blank_tail)
        return True

    def observe_paths(self, exp, old_exp, data):
        """evidence counters: which of the three mechanisms of the statement this draw exercised (judged from the
        canvases and the byte stream, not from urwid internals)"""
        if old_exp is not None and not self.pending_full and old_exp.cols == exp.cols and old_exp.rows == exp.rows:
            same = sum(1 for y in range(exp.rows) if old_exp.content[y] == exp.content[y])
            if same:
                self.count("rows_skipped_unchanged", same)
            if same != exp.rows:
                self.count("incremental_draws")
        n = data.count(b"\x1b[K")
        if n:
            self.count("el_shortcut_rows", n)
        if b"\x1b[4h" in data:
            self.count("insert_trick_rows")

    # ---- comparison
    def compare(self, exp: Expect, phase):
        try:
            if phase == "draw" and self.after_interrupted:
                self.count("redraws_judged_after_resize_during_draw")
            if phase == "draw" and self.after_failed:
                self.count("redraws_judged_after_write_error")
            self._compare(exp, phase)
            if phase == "draw":
                self.after_interrupted = self.after_failed = False
        except Found as f:
            if exp.has_c0:
                self.after_interrupted = self.after_failed = False
                raise Found("C04|raw|c0-control-in-canvas-text|painted-as-?-in-a-column-the-canvas-does-not-have", f.msg) from f
            if phase == "draw" and (self.after_interrupted or self.after_failed):
                what = "resize-during-draw" if self.after_interrupted else "write-error"
                self.after_interrupted = self.after_failed = False
                raise Found(f"C04|raw|redraw-after-{what}|terminal-differs-from-the-completed-redraw", f"({f.sig})\n{f.msg}") from f
            if exp.has_c0:
                raise Found("C04|raw|c0-control-in-canvas-text|painted-as-?-in-a-column-the-canvas-does-not-have", f.msg) from f
            if self.session_no and self.cy_stale and not self.cy_ok_since_restart:
                raise Found(
                    "C04|raw|after-stop-and-restart|inline-session-starts-with-the-cursor-row-bookkeeping-of-the-previous-session",
                    f.msg,
                ) from f
            if self.session_no and "|glyph|" in f.sig and f.cell and self.vt.charsets[1] != "0":
                x, y = f.cell
                if _cs_tag(exp, y, x - (exp.cells[y][x][2] == 2)) == "dec":
                    raise Found("C04|raw|after-stop-and-restart|G1-designation-undone-by-the-restored-cursor-and-not-sent-again", f.msg) from f
            if phase == "draw" and self.early_return_new_canvas:
                raise Found(
                    "C04|raw|draw_screen-wrote-nothing-for-a-canvas-object-it-had-not-drawn|" + self.early_return_new_canvas,
                    "draw_screen returned without output although the canvas is a different object from the one drawn before\n" + f.msg,
                ) from f
            last = row_shape(exp, exp.rows - 1, self.cfg)
            if "Y1ctl" in last and ("last-row" in f.sig or "|scrolled|" in f.sig):
                raise Found("C04|raw|last-row|control-byte-slid-into-place-untranslated|" + last, f.msg) from f
            if self.cy_stale:
                raise Found("C04|raw|partial-screen|frame-painted-at-wrong-rows|cursor-row-bookkeeping-stale-after-frame-without-cursor", f.msg) from f
            if self.font_before and "|glyph|" in f.sig and f.cell:
                x, y = f.cell
                if _cs_tag(exp, y, x - (exp.cells[y][x][2] == 2)) != "ibm":
                    raise Found("C04|raw|glyph|ibmpc-font-left-on-by-previous-frame", f.msg) from f
            raise

    def _compare(self, exp: Expect, phase):
        vt = self.vt
        bib = self.bib
        cfg = self.cfg
        n = 0
        if (vt.cols, vt.rows) != (exp.cols, exp.rows):
            raise RuntimeError("harness: VT size out of step")
        base = self.base
        nrows = exp.rows - base  # canvas rows that have a terminal row (the rest must be blank: generator invariant)
        for y in range(base):
            if [c.ch for c in vt.cells[y]] != self.above[y]:
                raise Found("C04|raw|history-rows-above-the-display-overwritten", f"row {y} above the partial display changed\n{self.describe(exp)}")
        if vt.scroll_count != self.scroll_seen:
            k = vt.scroll_count - self.scroll_seen
            self.scroll_seen = vt.scroll_count
            raise Found(f"C04|raw|scrolled|last-row:{row_shape(exp, exp.rows - 1, cfg)}", f"screen scrolled {k} line(s) during {phase}\n{self.describe(exp)}")
        # pass 1: every cell painted, glyphs (incl. wide-character halves) in place
        for y in range(nrows):
            vrow = vt.cells[y + base]
            erow = exp.cells[y]
            for x in range(exp.cols):
                c = vrow[x]
                e = erow[x]
                n += 1
                if c.garbage:
                    raise Found(
                        f"C04|raw|{phase}|cell-never-painted|{self.where(exp, x, y)}",
                        f"cell ({x},{y}) was not painted by a repaint that had to be complete\n{self.describe(exp)}",
                    )
                if (x, y) in exp.ctrl_xy and c.wide == 0 and c.ch != "?" and all(
                    v.ch == w[0] for v, w in zip(vrow[:x], erow[:x])
                ):
                    where = "before-trailing-blanks" if all(w[0] == " " for w in erow[x + 1 :]) and x < exp.cols - 1 else "inside-text"
                    if not self.alt and all(v.ch == " " and v.erased for v in vrow) and all(
                        w[0] == " " or (i, y) in exp.ctrl_xy for i, w in enumerate(erow)
                    ):
                        raise Found(
                            "C04|raw|partial-screen|row-of-control-whitespace-bytes-taken-for-blank-and-left-unpainted",
                            f"row {y} holds control byte(s) (one column each, shown as '?') and blanks only; the terminal row was never painted\n{self.describe(exp)}",
                            cell=(x, y),
                        )
                    raise Found(
                        f"C04|raw|glyph|one-column-control-byte-not-shown-as-?|{where}|{'last-row' if y == exp.rows - 1 else 'row'}",
                        f"cell ({x},{y}) holds a control byte (one column in this encoding): terminal shows {c.ch!r}, expected '?'\n{self.describe(exp)}",
                        cell=(x, y),
                    )
                if c.wide != e[2] or (c.wide != 2 and c.ch != e[0]):
                    raise Found(
                        f"C04|raw|glyph|{'last-row' if y == exp.rows - 1 else self.where(exp, x, y)}|{row_shape(exp, y, cfg)}",
                        f"cell ({x},{y}): terminal shows {c.ch!r} (wide-part {c.wide}), canvas has {e[0]!r} (wide-part {e[2]})\n{self.describe(exp)}",
                        cell=(x, y),
                    )
        # pass 2: colours and style flags
        none_style = self.pal.style(None, self.colors)
        for y in range(nrows):
            vrow = vt.cells[y + base]
            erow = exp.cells[y]
            blank_row = not self.alt and all(c[0] == " " for c in erow)
            if blank_row and all(c[1] == none_style for c in erow):
                self.count("partial_blank_rows_style_not_judged")
                continue  # partial-screen mode deliberately leaves blank default-attribute rows below the used area unpainted
            for x in range(exp.cols):
                c = vrow[x]
                if blank_row and all(v.ch == " " and v.erased and v.style() == BLANK.style() for v in vrow) and vt_vis(c, bib) != exp.vis(y, x):
                    raise Found(
                        "C04|raw|partial-screen|blank-row-with-visible-attribute-left-unpainted",
                        f"row {y} is blank but carries attribute {erow[x][3]!r} ({erow[x][1]}); the terminal row was never painted\n{self.describe(exp)}",
                    )
                e = erow[x]
                a = vt_vis(c, bib) if c.wide != 2 else vt_vis(c._replace(ch=vrow[x - 1].ch), bib)
                b = exp.vis(y, x) if c.wide != 2 else exp.vis(y, x - 1)
                if a != b:
                    raise Found(self.style_sig(exp, x, y, a, b, phase), (
                        f"cell ({x},{y}) {e[0]!r} attr {e[3]!r}: terminal {a} != expected {b} (depth {self.colors}, style {e[1]})\n{self.describe(exp)}"
                    ))
        self.count("cells_compared", n)
        self.count("cursor_checks")
        if exp.cursor is None:
            if vt.cursor_visible:
                raise Found(f"C04|raw|{phase}|cursor|visible-but-canvas-has-none", f"cursor shown at {vt.cursor}\n{self.describe(exp)}")
            self.count("cursor_hidden_ok")
        else:
            if not vt.cursor_visible:
                raise Found(f"C04|raw|{phase}|cursor|hidden-but-canvas-has-one", f"canvas cursor {exp.cursor}\n{self.describe(exp)}")
            if tuple(vt.cursor) != (exp.cursor[0], exp.cursor[1] + base):
                raise Found(
                    f"C04|raw|{phase}|cursor|wrong-position", f"terminal cursor {vt.cursor}, canvas cursor {exp.cursor}\n{self.describe(exp)}"
                )
            self.count("cursor_shown_ok")
        if vt.insert_mode:
            raise Found(f"C04|raw|{phase}|insert-mode-left-on", self.describe(exp))
        if vt.alt_screen != self.alt:
            raise Found(f"C04|raw|{phase}|alternate-screen-state-changed", self.describe(exp))

    def where(self, exp, x, y):
        """row class + whether the cell belongs to the last two characters of the row"""
        row = exp.cells[y]
        n = len(row)
        zs = n - 2 if row[n - 1][2] == 2 else n - 1
        ys = zs
        if zs > 0:
            ys = zs - 2 if row[zs - 1][2] == 2 else zs - 1
        return ("last-row" if y == exp.rows - 1 else "row") + "," + ("tail-chars" if x >= ys else "body")

    def style_sig(self, exp, x, y, a, b, phase):
        e = exp.cells[y][x]
        kind = attr_kind(e[3], self.pal)
        if kind == "name" and self.pal.entries[e[3]][0] != e[3]:
            kind = "alias"
        d = S.diff_fields(a, b)
        dflt = S.visible(e[0], None, None, False, False, False, False, False, False, self.bib)
        if kind == "alias" and a == dflt:
            return f"C04|raw|style|attr=alias|painted-with-default-style"
        row = exp.cells[y]
        t = len(row)
        while t > 0 and row[t - 1][0] == " " and row[t - 1][3] == row[-1][3]:
            t -= 1
        if e[0] == " ":
            cell = "trailing-blank" if x >= t else "blank"
        else:
            cell = "char"
        if cell == "trailing-blank":
            return f"C04|raw|style|trailing-blank-cell|lost:{'+'.join(d)}"
        colours = any(f in ("fg", "bg") for f in d)
        flags = any(f not in ("fg", "bg") for f in d)
        cat = "colours+flags" if colours and flags else ("colours" if colours else "flags")
        return f"C04|raw|style|{cell}-cell|attr={kind}|differs:{cat}"

    def describe(self, exp):
        out = [f"cfg={self.cfg}", "terminal:"]
        out += ["  |" + "".join("␀" if c.garbage else (c.ch or "") for c in row) + "|" for row in self.vt.cells]
        out.append("canvas:")
        out += ["  |" + "".join(c[0] for c in row) + "|" for row in exp.cells]
        return "\n".join(out)

    def snapshot(self):
        vt = self.vt
        return (
            tuple(tuple((c.wide, vt_vis(c, self.bib)) if not c.garbage else "G" for c in row) for row in vt.cells),
            tuple(vt.cursor) if vt.cursor_visible else None,
            vt.cursor_visible,
            vt.insert_mode,
            vt.autowrap,
        )

    def final_equivalence(self):
        """incremental history == clear() + one full repaint of the last canvas"""
        if self.last_frame is None or frame_size(self.last_frame) != self.size:
            return
        s1 = None if (self.pending_full or self.undrawn) else self.snapshot()
        self.scr.clear()
        self.garbage()
        self.pending_full = True
        canvas = build_frame(self.last_frame)
        exp = Expect(canvas, self.size, self.enc, self.pal, self.colors, self.bib)
        self.note_cy()
        try:
            self.scr.draw_screen(self.size, canvas)
        except Exception as e:  # noqa: BLE001
            raise Found(f"C04|raw|full-repaint|raise:{type(e).__name__}", traceback.format_exc(limit=5)) from e
        self.feed()
        self.pending_full = False
        self.compare(exp, "full-repaint")
        s2 = self.snapshot()
        self.count("repaint_equivalence_checks")
        if s1 is not None and s1 != s2:
            if self.cy_stale:
                raise Found("C04|raw|partial-screen|frame-painted-at-wrong-rows|cursor-row-bookkeeping-stale-after-frame-without-cursor", f"incremental {s1}\nfull {s2}")
            raise Found("C04|raw|history-differs-from-full-repaint", f"incremental {s1}\nfull {s2}")


def run_raw(ctx, case, count=True):
    """execute one history.  Returns ([(sig, msg), ...] one per distinct signature, in order of appearance; frames drawn).
    After a failed comparison the history goes on from a forced full repaint (clear() + VT refilled with GARBAGE), so that
    a frequent finding on one frame does not hide the frames after it."""
    sess = None
    drawn = 0
    found: list = []

    def step(fn, *a, **kw):
        try:
            return fn(*a, **kw)
        except Found as f:
            sig = f.sig
            if sess.session_no and not sig.startswith("C04|raw|after-stop-and-restart"):
                sig = f"C04|raw|after-stop-and-restart|{sess.session_tag}|" + "|".join(sig.split("|")[2:4])
            if all(sig != s for s, _ in found):
                found.append((sig, f.msg))
            if sess.vt is not None and sess.started:
                sess.scr.clear()
                sess.garbage()
                sess.pending_full = True
            return False

    try:
        sess = Session(ctx, case["cfg"], case["palette"], count)
        for op in case["ops"]:
            k = op[0]
            if k == "draw":
                if not sess.alt and sess.size is not None and frame_size(op[1]) != sess.size:
                    continue  # no resizes in partial-screen histories
                if step(sess.draw, op[1]):
                    drawn += 1
            elif k == "draw_winch":
                if sess.started:
                    step(sess.draw_interrupted, op[1], op[2], op[3])
            elif k == "draw_fail":
                if sess.started and sess.alt and frame_size(op[1]) == sess.size:
                    step(sess.draw, op[1], fail=(op[2], getattr(errno, op[3])))
                    if sess.unjudged:
                        break
            elif k == "restart":
                if sess.started:
                    step(sess.restart, op[1], op[2])
            elif sess.size is None or sess.last_frame is None:
                continue
            elif k == "clear":
                sess.op_clear()
            elif k == "winch":
                if sess.alt:
                    sess.op_winch()
            elif k == "again" and frame_size(sess.last_frame) == sess.size and sess.last_canvas is not None:
                # the very same canvas object (what MainLoop passes when the canvas cache hits): draw_screen may return
                # early, but not after clear() / a resize
                step(sess.draw, sess.last_frame, canvas=sess.last_canvas, tag="same_object")
            elif k in ("equal", "again"):  # an equal canvas in a new object: every row is skipped
                step(sess.draw, sess.last_frame, tag="equal")
        if drawn and not sess.unjudged:
            step(sess.final_equivalence)
    finally:
        if sess is not None:
            try:
                sess.close()
            except Exception:  # noqa: BLE001
                pass
    return found, drawn


# ------------------------------------------------------------------------------------------------
# HTML clause
# ------------------------------------------------------------------------------------------------

_SPAN = re.compile(r'<span style="color:(#[0-9a-f]{6});background:(#[0-9a-f]{6})([^"]*)">([^<]*)</span>')


def run_html(ctx, cfg, palette, frame, count=True):
    """HtmlGenerator.draw_screen on one frame; returns (sig, msg) or None"""
    import urwid
    from urwid.display import html_fragment as H

    cnt = (lambda k, n=1: ctx.count(k, n)) if count else (lambda k, n=1: None)
    enc = cfg["enc"]
    old = urwid.util.get_encoding()
    urwid.set_encoding(enc)
    saved = H.HtmlGenerator.fragments
    H.HtmlGenerator.fragments = []
    try:
        pal = S.Palette(palette)
        try:
            canvas = build_frame(frame)
            size = frame_size(frame)
            exp = Expect(canvas, size, enc, pal, 16, False)
        except Invalid:
            return None
        except Exception:  # noqa: BLE001
            return None
        kinds = sorted({attr_kind(c[3], pal) for row in exp.cells for c in row})
        gen = H.HtmlGenerator()
        try:
            gen.set_terminal_properties(colors=cfg["colors"])
            gen.register_palette([tuple(mk_attr(x) if i == 0 and isinstance(x, list) else x for i, x in enumerate(e)) for e in palette])
            gen.draw_screen(size, canvas)
        except Exception as e:  # noqa: BLE001
            why = "other"
            if isinstance(e, KeyError) and e.args and e.args[0] == TRUE and cfg["colors"] == TRUE:
                why = "colors=2**24"
            elif isinstance(e, KeyError) and e.args and "undefined" in kinds and not pal.defined(e.args[0]):
                why = "undefined-attr"
            return (
                f"C04|html|draw_screen|raise:{type(e).__name__}|{why}",
                f"{type(e).__name__}: {e}\n{traceback.format_exc(limit=4)}",
            )
        cnt("html_frames")
        frag = H.HtmlGenerator.fragments[-1]
        if not (frag.startswith("<pre>") and frag.endswith("</pre>")):
            return ("C04|html|structure|no-pre-wrapper", frag[:200])
        body = frag[5:-6]
        lines = body.split("\n")
        if lines and lines[-1] == "":
            lines.pop()
        if len(lines) != exp.rows:
            return ("C04|html|rows|count-differs", f"{len(lines)} html rows for {exp.rows} canvas rows\n{frag[:400]}")
        highlighted = []
        for y, line in enumerate(lines):
            want = "".join(c[0] for c in exp.cells[y])
            got = _html.unescape(re.sub(r"<[^>]*>", "", line))
            if any(cs == "U" for (_b, _w, _a, cs) in exp.items[y]):
                cnt("html_rows_not_judged_ibm_charset")
                if got != want:
                    return None
                continue
            if exp_has_c0_row(exp, y) and enc_mode(enc) != "utf8":
                cnt("html_rows_with_c0_control_judged")
            if exp_has_c0_row(exp, y) and enc_mode(enc) == "utf8":
                cnt("html_rows_not_judged_c0_control")
                if got != want:
                    return None
                continue
            cnt("html_rows_compared")
            # DEC graphics code 0x5f is a blank on a VT100/xterm but urwid's own table names it U+25AE: either rendering is accepted
            if got != want and got.replace("\u25ae", " ") != want:
                tag = "dec-glyph-row" if any(cs == "0" for (_b, _w, _a, cs) in exp.items[y]) else "plain-row"
                return (f"C04|html|text-differs|{tag}", f"row {y}: html {got!r} != canvas {want!r}")
            # structure: spans against canvas runs
            spans = _SPAN.findall(line)
            if "".join(f'<span style="color:{a};background:{b}{c}">{d}</span>' for a, b, c, d in spans) != line:
                return ("C04|html|structure|unparsed-markup", line[:300])
            runs = [glyph_run(seg, enc) for seg in exp.content[y]]
            runs = [r for r in runs if r]
            i = 0
            col = 0
            for t in runs:
                if i < len(spans) and _html.unescape(spans[i][3]) == t:
                    i += 1
                elif i + 2 < len(spans) and "".join(_html.unescape(s[3]) for s in spans[i : i + 3]) == t:
                    pre, mid, post = spans[i : i + 3]
                    highlighted.append((y, col + seg_width(_html.unescape(pre[3])), _html.unescape(mid[3]), pre, mid, post))
                    i += 3
                else:
                    return ("C04|html|structure|spans-do-not-match-runs", line[:300])
                col += seg_width(t)
            if i != len(spans):
                return ("C04|html|structure|extra-spans", line[:300])
        cnt("html_cursor_checks")
        if len(highlighted) > 1:
            return ("C04|html|cursor|more-than-one-highlighted-cell", repr(highlighted)[:400])
        if highlighted:
            y, x, text, pre, mid, post = highlighted[0]
            cnt("html_cursor_highlighted")
            if exp.cursor is None:
                return ("C04|html|cursor|highlight-without-canvas-cursor", repr(highlighted)[:300])
            cx, cy = exp.cursor
            cell_x = cx - 1 if exp.cells[cy][cx][2] == 2 else cx
            if (y, x) != (cy, cell_x):
                return ("C04|html|cursor|highlight-at-wrong-cell", f"highlight at {(x, y)}, canvas cursor {(cx, cy)}")
            cell_text = exp.cells[cy][cell_x][0]
            if not (text and cell_text.startswith(text) and text[0] == cell_text[0]):
                return ("C04|html|cursor|highlight-is-not-one-cell", f"highlighted {text!r}, cell {exp.cells[cy][cell_x][0]!r}")
            if (mid[0], mid[1]) != (pre[1], pre[0]) or (post[0], post[1]) != (pre[0], pre[1]):
                return ("C04|html|cursor|highlight-not-swapped-colours", repr((pre, mid, post)))
        elif exp.cursor is not None:
            cnt("html_cursor_not_highlighted")
        return None
    finally:
        H.HtmlGenerator.fragments = saved
        urwid.set_encoding(old)
        urwid.CanvasCache.clear()


def glyph_run(seg, enc):
    _a, cs, b = seg
    mode = enc_mode(enc)
    return "".join(glyph_of(cb, cs, enc) for cb, _w in G.split_chars(b, mode))


def exp_has_c0_row(exp, y):
    return any(any(x < 0x20 or x == 0x7F for x in b) for (b, _w, _a, _cs) in exp.items[y])


# ------------------------------------------------------------------------------------------------
# generators
# ------------------------------------------------------------------------------------------------

ASCII = "abcdefghijklmnopqrstuvwxyzABCXYZ0123456789.,:;!?#$%*+-=/_~^|(){}[]<>&\"'"
LATIN = "éüßñÆøÿ¿"
DEC = "─│┌┐└┘├┤┬┴┼◆▒°±·≤≥π≠£"
WIDE = "漢字かなＡ한中文"
COMB = "́"
SETTINGS = S.SETTINGS


def gen_palette(rng, colors):
    pal = []
    names = []
    n = rng.randint(2, 6)
    for i in range(n):
        name = f"p{i}"

        def fgspec(high):
            r = rng.random()
            if r < 0.2:
                c = "default"
            elif r < 0.3:
                c = ""
            elif not high or r < 0.55:
                c = rng.choice(S.BASIC)
            elif colors == TRUE:
                c = rng.choice(["#%06x" % rng.randrange(1 << 24), "#f0f", "#0f0", "#fff", "#000"])
            else:
                c = rng.choice([f"h{rng.randrange(colors if colors == 256 else 16)}", f"h{rng.randrange(16)}", "#f00", "#0ff", "#fff", "#000", "#ff0"])
            sets = [s for s in SETTINGS if rng.random() < 0.22]
            if c.startswith("h"):
                # colour first: register_palette_entry only recognises an hN > 15 colour at the start of the string
                # ('bold,h183' raises AttrSpecError at registration -- colour-spec parsing, property C18, not painting)
                return ",".join([c, *sets])
            parts = [c, *sets] if c or not sets else sets
            rng.shuffle(parts)
            return ",".join(p for p in parts) if parts != [""] else ""

        def bgspec(high):
            r = rng.random()
            if r < 0.3:
                return "default"
            if r < 0.35:
                return ""
            if not high or r < 0.6:
                return rng.choice(S.BASIC[:8])
            if colors == TRUE:
                return rng.choice(["#%06x" % rng.randrange(1 << 24), "#00f", "#fff", "#000"])
            return rng.choice([f"h{rng.randrange(colors if colors == 256 else 16)}", f"h{8 + rng.randrange(8)}", "#00f", "#0f0", "#000"])

        form = rng.choice([3, 4, 6, 6])
        e = [name, fgspec(False), bgspec(False)]
        if form >= 4:
            e.append(rng.choice([None, "", "bold", "underline", "standout", "strikethrough", "bold,underline", "standout,italics", "blink"]))
        if form == 6:
            if colors in (88, 256, TRUE):
                e += [rng.choice([None, fgspec(True)]), rng.choice([None, bgspec(True)])]
            else:
                e += [rng.choice([None, fgspec(False)]), rng.choice([None, bgspec(False)])]
        pal.append(e)
        names.append(name)
        if rng.random() < 0.25:
            pal.append([f"al{i}", rng.choice(names)])
            names.append(f"al{i}")
    if rng.random() < 0.06:
        pal.append([None, rng.choice(S.BASIC), rng.choice(S.BASIC[:8])])
    return pal, names


def gen_spec_attr(rng):
    d = rng.choice([1, 16, 88, 256, TRUE])
    sets = [s for s in SETTINGS if rng.random() < 0.3]
    if d == 1:
        return ["spec", ",".join(sets) or "default", "default", 1]
    if d == 16:
        fg, bg = rng.choice(["default", *S.BASIC]), rng.choice(["default", *S.BASIC[:8]])
    elif d == TRUE:
        fg = rng.choice(["default", rng.choice(S.BASIC), "#%06x" % rng.randrange(1 << 24)])
        bg = rng.choice(["default", rng.choice(S.BASIC[:8]), "#%06x" % rng.randrange(1 << 24)])
    else:
        fg = rng.choice(["default", rng.choice(S.BASIC), f"h{rng.randrange(d)}", "#f00", "#fff"])
        bg = rng.choice(["default", rng.choice(S.BASIC[:8]), f"h{rng.randrange(d)}", "#00f", "#000"])
    return ["spec", ",".join([fg, *sets]), bg, d]


class AttrPool:
    def __init__(self, rng, names):
        self.rng = rng
        self.pool = [None, None, *names, *names]
        if rng.random() < 0.5:
            self.pool.append(rng.choice(["nope", "undefined", 7]))
        for _ in range(rng.randint(0, 2)):
            self.pool.append(gen_spec_attr(rng))

    def pick(self):
        return self.rng.choice(self.pool)


def gen_chars(rng, w, enc, allow_c0=False):
    """list of display units (str) of total width exactly w"""
    utf = enc_mode(enc) == "utf8"
    out = []
    left = w
    style = rng.random()
    while left > 0:
        r = rng.random()
        if style < 0.15:
            ch = " " if r < 0.7 else rng.choice(ASCII)
        elif r < 0.12:
            ch = " "
        elif r < 0.62:
            ch = rng.choice(ASCII)
        elif r < 0.70:
            ch = rng.choice(LATIN)
        elif r < 0.80:
            ch = rng.choice(DEC)
        elif r < 0.95:
            ch = rng.choice(WIDE) if (utf and left >= 2) else (rng.choice(ASCII) if utf or r < 0.93 else rng.choice(WIDE))
        elif utf and out and out[-1] != " " and G.char_width(out[-1][0]) == 1 and len(out[-1]) == 1:
            out[-1] += COMB
            continue
        else:
            ch = rng.choice(ASCII)
        if not utf and G.char_width(ch) == 2:
            # not encodable: becomes '?' (one column) in a narrow encoding
            left -= 1
            out.append(ch)
            continue
        left -= G.char_width(ch)
        out.append(ch)
    return out


# C0 controls that a byte (narrow) encoding counts as ONE column each and that draw_screen must show as '?'
# (SO / SI are excluded: apply_target_encoding treats them as charset shifts)
CTRL_NARROW = "\t\r\x0b\x0c\x00\x01\x1b\x08\x07\x1f\n"

TAILS = ("ctrl-blank-tail", "random", "wide-last2", "wide-then-narrow", "narrow-then-wide", "wide-wide", "dec-ascii", "ascii-dec", "dec-dec", "blank-tail", "full", "blank", "comb-tail", "one-char-segs")


def unit_w(u, enc):
    if enc_mode(enc) != "utf8":
        return 1
    return G.char_width(u[0])


def gen_row(rng, w, enc, pool: AttrPool, tail=None, c0=False, ibm=False):
    """one row descriptor [[text, attr], ...] of width w"""
    utf = enc_mode(enc) == "utf8"
    tail = tail or rng.choice(TAILS)
    wide = (lambda: rng.choice(WIDE)) if utf else (lambda: rng.choice(ASCII))
    nar = lambda: rng.choice(ASCII)  # noqa: E731
    dec = lambda: rng.choice(DEC)  # noqa: E731
    want = {
        "wide-last2": [wide()],
        "wide-then-narrow": [wide(), nar()],
        "narrow-then-wide": [nar(), wide()],
        "wide-wide": [wide(), wide()],
        "dec-ascii": [dec(), nar()],
        "ascii-dec": [nar(), dec()],
        "dec-dec": [dec(), dec()],
        "comb-tail": [nar(), nar() + (COMB if utf else "")],
    }.get(tail, [])
    while want and sum(unit_w(u, enc) for u in want) > w:
        want.pop(0)
    tw = sum(unit_w(u, enc) for u in want)
    ctrl_at = None
    if tail == "ctrl-blank-tail" and (utf or w < 2):
        tail = "blank-tail"
    if tail == "blank":
        units = [" "] * w
    elif tail == "ctrl-blank-tail":
        # a control byte (one column in a byte encoding, shown as '?') directly before the trailing blanks
        k = rng.randint(1, max(1, min(w - 1, 4)))
        units = [*gen_chars(rng, w - k - 1, enc), rng.choice(CTRL_NARROW), *([" "] * k)]
        ctrl_at = w - k - 1
    elif tail == "blank-tail":
        k = rng.randint(1, max(1, min(w, 4)))
        units = [*gen_chars(rng, w - k, enc), *([" "] * k)]
    elif tail == "full":
        units = [nar() for _ in range(w)]
    else:
        units = [*gen_chars(rng, w - tw, enc), *want]
    # attribute runs: cut points among unit boundaries, adversarial ones near the right edge
    n = len(units)
    cuts = set()
    if tail == "one-char-segs":
        cuts = set(range(1, n))
    else:
        for c in (n - 1, n - 2, n - 3):
            if c > 0 and rng.random() < 0.45:
                cuts.add(c)
        for _ in range(rng.randint(0, 3)):
            if n > 1:
                cuts.add(rng.randrange(1, n))
    if ctrl_at is not None and rng.random() < 0.8:
        cuts = {c for c in cuts if c <= ctrl_at}  # keep the control byte in the same (last) run as the blanks
    if c0 and n:
        i = rng.randrange(n)
        if utf:
            units[i] = units[i] + rng.choice("\t\x01\x1b\x7f")  # zero columns for calc_width (known finding)
        else:
            units[i] = rng.choice(CTRL_NARROW)  # one column, must be painted as '?'
    segs = []
    start = 0
    for c in [*sorted(cuts), n]:
        if c > start:
            segs.append(["".join(units[start:c]), pool.pick()])
            start = c
    if ibm:
        # some runs in the IBM-PC character set (cs "U", what urwid's Terminal widget emits): latin-1 encodable text only
        for sg in segs:
            if rng.random() < 0.5 and all(0x20 <= ord(ch) < 0x100 and ch not in DEC for ch in sg[0]):
                sg.append("U")
    return segs


def gen_text_frame(rng, w, h, enc, pool, cursor_p=0.5, c0_p=0.0, ibm=False):
    rows = []
    for y in range(h):
        last = y == h - 1
        if last or rng.random() < 0.5:
            rows.append(gen_row(rng, w, enc, pool, None if rng.random() < 0.8 else "random", c0=rng.random() < c0_p, ibm=ibm and rng.random() < 0.6))
        else:
            rows.append(gen_row(rng, w, enc, pool, rng.choice(("random", "blank", "blank-tail"))))
    fr = {"k": "text", "w": w, "rows": rows, "cur": None, "wrap": ["text"]}
    if rng.random() < cursor_p:
        fr["cur"] = [rng.randrange(w), rng.randrange(h)]
    r = rng.random()
    if r < 0.2:
        fr["wrap"] = ["composite"]
    elif r < 0.35 and w > 1:
        fr["wrap"] = ["join", rng.randrange(1, w)]
    elif r < 0.5 and h > 1:
        fr["wrap"] = ["combine", rng.randrange(1, h)]
    return fr


def mutate_text_frame(rng, fr, enc, pool):
    """a small change of one row (or only of the cursor) -- exercises unchanged-row skipping"""
    new = {"k": "text", "w": fr["w"], "rows": [[list(s) for s in row] for row in fr["rows"]], "cur": fr["cur"], "wrap": fr["wrap"]}
    w, h = fr["w"], len(fr["rows"])
    r = rng.random()
    y = rng.choice([h - 1, rng.randrange(h)])
    if r < 0.15:
        new["cur"] = None if (fr["cur"] and rng.random() < 0.4) else [rng.randrange(w), rng.randrange(h)]
    elif r < 0.45:
        new["rows"][y] = gen_row(rng, w, enc, pool)
    elif r < 0.7:
        seg = rng.choice(new["rows"][y])
        seg[1] = pool.pick()
    else:
        # replace one narrow character by another narrow character
        seg = rng.choice(new["rows"][y])
        idx = [i for i, ch in enumerate(seg[0]) if ch in ASCII or ch == " "]
        if idx:
            i = rng.choice(idx)
            seg[0] = seg[0][:i] + rng.choice(ASCII + "  ") + seg[0][i + 1 :]
        else:
            new["rows"][y] = gen_row(rng, w, enc, pool)
    return new


def gen_string(rng, enc, maxlen=14):
    n = rng.randint(0, maxlen)
    out = []
    for _ in range(n):
        r = rng.random()
        if r < 0.15:
            out.append(" ")
        elif r < 0.7:
            out.append(rng.choice(ASCII))
        elif r < 0.8:
            out.append(rng.choice(DEC))
        elif r < 0.92:
            out.append(rng.choice(WIDE))
        elif r < 0.95 and enc_mode(enc) != "utf8":
            out.append("\t")  # Text("name\tqty\t"): one column in a byte encoding, shown as '?'
        else:
            out.append(rng.choice(LATIN))
    return "".join(out)


def gen_markup(rng, enc, pool):
    if rng.random() < 0.3:
        return gen_string(rng, enc)
    parts = []
    for _ in range(rng.randint(1, 3)):
        if rng.random() < 0.7:
            parts.append(["@", [pool.pick(), gen_string(rng, enc, 8) or "x"]])
        else:
            parts.append(gen_string(rng, enc, 8) or "y")
    return parts


def gen_tree(rng, enc, pool, depth=0):
    r = rng.random()
    if depth >= 2 or r < 0.35:
        if rng.random() < 0.35:
            t = gen_string(rng, enc, 10)
            return ["edit", gen_markup(rng, enc, pool), t, rng.randint(0, len(t))]
        if rng.random() < 0.1:
            return ["div", rng.choice(["-", " ", "─", "="])]
        return ["text", gen_markup(rng, enc, pool), rng.choice(["left", "center", "right"]), rng.choice(["space", "any", "clip", "ellipsis"])]
    if r < 0.5:
        kids = [gen_tree(rng, enc, pool, depth + 1) for _ in range(rng.randint(1, 3))]
        return ["pile", kids, rng.randrange(len(kids))]
    if r < 0.65:
        kids = [gen_tree(rng, enc, pool, depth + 1) for _ in range(rng.randint(1, 3))]
        return ["cols", kids, rng.choice([0, 1]), rng.randrange(len(kids))]
    if r < 0.8:
        return ["linebox", gen_tree(rng, enc, pool, depth + 1), rng.choice(["", "", "T", "漢"])]
    if r < 0.93:
        return ["attrmap", gen_tree(rng, enc, pool, depth + 1), pool.pick(), pool.pick()]
    return ["padding", gen_tree(rng, enc, pool, depth + 1), rng.choice([0, 1]), rng.choice([0, 1])]


def gen_widget_frame(rng, w, h, enc, pool):
    return {
        "k": "widget",
        "w": w,
        "h": h,
        "tree": gen_tree(rng, enc, pool),
        "valign": rng.choice(["top", "top", "middle", "bottom"]),
        "fill": rng.choice([None, None, pool.pick()]),
    }


def mutate_tree(rng, t, enc):
    """change one string / edit position somewhere in the tree (in a copy)"""
    import json

    t = json.loads(json.dumps(t))
    leaves = []

    def walk(n):
        if n[0] in ("text", "edit"):
            leaves.append(n)
        elif n[0] in ("pile", "cols"):
            for c in n[1]:
                walk(c)
        elif n[0] in ("linebox", "attrmap", "padding"):
            walk(n[1])

    walk(t)
    if not leaves:
        return t
    leaf = rng.choice(leaves)
    if leaf[0] == "edit":
        if rng.random() < 0.5:
            leaf[3] = rng.randint(0, len(leaf[2]))
        else:
            leaf[2] = leaf[2] + rng.choice(ASCII + WIDE)
            leaf[3] = len(leaf[2])
    else:
        leaf[1] = [leaf[1], rng.choice(ASCII + WIDE + DEC)] if not isinstance(leaf[1], str) else leaf[1] + rng.choice(ASCII + WIDE + DEC)
    return t


def gen_other_class_frame(rng, w, h, enc, pool):
    """canvases of other classes handed to draw_screen directly: SolidCanvas (one row list for all rows), SolidCanvas inside a
    CompositeCanvas with a fill attribute, and a user Canvas subclass that yields stored / shared row lists"""
    r = rng.random()
    if r < 0.5:
        fr = {"k": "solid", "w": w, "h": h, "fill": rng.choice([" ", " ", " ", "x", "#", "\u2500", "\u00e9"])}
        if rng.random() < 0.35:
            fr["attr"] = pool.pick()
        return fr
    t = gen_text_frame(rng, w, h, enc, pool)
    rows = t["rows"]
    for y in range(h):
        q = rng.random()
        if q < 0.35:
            rows[y] = [[" " * w, None]] if rng.random() < 0.6 else gen_row(rng, w, enc, pool, "blank-tail")
        elif q < 0.55 and y:
            rows[y] = [list(sg) for sg in rows[y - 1]]  # equal consecutive rows: mode 'shared' yields one list for both
    return {"k": "user", "w": w, "rows": rows, "cur": t["cur"], "mode": rng.choice(["stored", "shared"])}


def gen_session_case(rng):
    """several sessions on ONE Screen object and one terminal: start(alternate_buffer=a1) .. stop(); start(alternate_buffer=a2) ..;
    inline (partial-screen) sessions begin on row 1..h-1 of the normal screen"""
    enc = rng.choice(["utf-8", "utf-8", "iso8859-1"])
    colors = rng.choice([16, 256])
    w, h = rng.choice([1, 2, 3, 5, 8, 13, 20]), rng.choice([3, 4, 5, 6, 8])
    palette, names = gen_palette(rng, colors)
    pool = AttrPool(rng, names)

    def frames(alt, base):
        out = []
        for _ in range(rng.randint(1, 4)):
            fr = gen_text_frame(rng, w, h, enc, pool)
            fr["wrap"] = ["text"]
            if not alt:
                k = rng.randint(0, h - base)
                for y in range(k, h):
                    fr["rows"][y] = [[" " * w, None]]
                if fr["cur"] and fr["cur"][1] >= max(k, 1):
                    fr["cur"] = [fr["cur"][0], rng.randrange(max(k, 1))]
            out.append(["draw", fr])
            if rng.random() < 0.12:
                out.append(["clear"])
        return out

    alt = rng.random() < 0.5
    base = rng.randrange(1, h)
    cfg = {"enc": enc, "colors": colors, "bib": False, "bce": rng.random() < 0.6, "pal_first": True, "alt": alt, "base": base}
    ops = frames(alt, base)
    for _ in range(rng.randint(1, 3)):
        alt = rng.random() < 0.5
        base = rng.randrange(1, h)
        ops.append(["restart", alt, base])
        ops += frames(alt, base)
    return {"cfg": cfg, "palette": palette, "ops": ops}


def gen_release_case(rng, n_frames):
    """MainLoop discipline, long: the harness drops every reference to a canvas right after draw_screen() and only then
    builds the next one; a handful of distinct same-size frames in random order, so a draw that is skipped or stale shows"""
    enc = rng.choice(["utf-8", "utf-8", "iso8859-1"])
    colors = rng.choice([16, 256])
    cfg = {"enc": enc, "colors": colors, "bib": False, "bce": rng.random() < 0.6, "pal_first": True, "release": True}
    palette, names = gen_palette(rng, colors)
    pool = AttrPool(rng, names)
    w, h = rng.choice([2, 3, 5, 8, 13]), rng.choice([1, 2, 3, 4])
    wrap = rng.choice([["text"], ["text"], ["composite"]])
    pics = []
    for _ in range(rng.randint(2, 4)):
        fr = gen_text_frame(rng, w, h, enc, pool)
        fr["wrap"] = wrap
        pics.append(fr)
    ops = []
    last = None
    for _ in range(n_frames):
        r = rng.random()
        if r < 0.04:
            ops.append(["clear"])
            continue
        i = rng.randrange(len(pics))
        if i == last and len(pics) > 1:
            i = (i + 1) % len(pics)
        last = i
        if r < 0.15:
            pics[i] = mutate_text_frame(rng, pics[i], enc, pool)
        ops.append(["draw", pics[i]])
    return {"cfg": cfg, "palette": palette, "ops": ops}


def gen_partial_case(rng, cfg, palette, pool, enc):
    """partial-screen mode (start(alternate_buffer=False)): the display starts `base` rows down the normal screen; only the
    first h - base canvas rows may be non-blank (the application is given the whole terminal height by get_cols_rows)"""
    w, h = rng.choice(SIZES_W), rng.choice([2, 3, 4, 5, 6, 8])
    base = rng.randrange(0, h)
    cfg = dict(cfg, alt=False, base=base)

    def fresh():
        k = rng.randint(0, h - base)
        fr = gen_text_frame(rng, w, h, enc, pool)
        for y in range(k, h):
            fr["rows"][y] = [[" " * w, None]]
        if fr["cur"] and fr["cur"][1] >= max(k, 1):
            fr["cur"] = [fr["cur"][0], rng.randrange(max(k, 1))] if h - base >= 1 else None
        fr["wrap"] = ["text"]
        return fr

    ops = [["draw", fresh()]]
    for _ in range(rng.randint(1, 8)):
        r = rng.random()
        if r < 0.75:
            ops.append(["draw", fresh()])
        elif r < 0.85:
            ops.append(["clear"])
        else:
            ops.append([rng.choice(["again", "equal"])])
    return {"cfg": cfg, "palette": palette, "ops": ops}


SIZES_W = [1, 1, 2, 2, 2, 3, 3, 4, 5, 5, 6, 7, 8, 10, 13, 16, 20, 27, 33, 40]
SIZES_H = [1, 1, 2, 2, 3, 3, 4, 5, 6, 8, 10, 12]


def gen_case(rng):
    enc = rng.choice(["utf-8", "utf-8", "utf-8", "utf8", "iso8859-1", "iso8859-1", "ascii"])
    colors = rng.choice([1, 16, 16, 88, 256, 256, TRUE])
    cfg = {"enc": enc, "colors": colors, "bib": rng.random() < 0.5, "bce": rng.random() < 0.6, "pal_first": rng.random() < 0.5}
    if rng.random() < 0.2:
        cfg["release"] = True  # MainLoop discipline: no reference to a drawn canvas is kept by the caller
    palette, names = gen_palette(rng, colors)
    pool = AttrPool(rng, names)
    w, h = rng.choice(SIZES_W), rng.choice(SIZES_H)
    widgety = rng.random() < 0.22
    ops = []

    def fresh(w, h):
        if widgety and rng.random() < 0.8:
            return gen_widget_frame(rng, max(w, 3), h, enc, pool)
        if rng.random() < 0.12:
            return gen_other_class_frame(rng, w, h, enc, pool)
        return gen_text_frame(rng, w, h, enc, pool, c0_p=c0_p, ibm=ibm)

    c0_p = 0.5 if rng.random() < 0.04 else 0.0
    if enc_mode(enc) != "utf8" and rng.random() < 0.15:
        c0_p = 0.3
    ibm = enc == "iso8859-1" and rng.random() < 0.12
    if rng.random() < 0.1:
        return gen_partial_case(rng, cfg, palette, pool, enc)
    cur = fresh(w, h)
    ops.append(["draw", cur])
    for _ in range(rng.randint(0, 11)):
        r = rng.random()
        if r < 0.06 and cur["k"] == "text":
            w0, h0 = frame_size(cur)
            nxt = mutate_text_frame(rng, cur, enc, pool) if rng.random() < 0.7 else cur
            if r < 0.03:
                # the window size changes while draw_screen is iterating the canvas (to another size, there and back, or a
                # SIGWINCH without change); afterwards the application redraws at the then-current size
                q = rng.random()
                other = [rng.choice(SIZES_W), rng.choice(SIZES_H)]
                sizes = [[w0, h0]] if q < 0.35 else ([other, [w0, h0]] if q < 0.7 else [other])
                ops.append(["draw_winch", nxt, rng.randrange(h0), sizes])
                if tuple(sizes[-1]) == (w0, h0):
                    cur = nxt if rng.random() < 0.6 else mutate_text_frame(rng, nxt, enc, pool)  # mostly an EQUAL canvas
                else:
                    cur = gen_text_frame(rng, sizes[-1][0], sizes[-1][1], enc, pool, c0_p=c0_p)
                ops.append(["draw", cur])
            else:
                # output.write() fails once in the middle of the frame; the application draws again without clear()
                ops.append(["draw_fail", nxt, rng.randint(0, 12), rng.choice(["EIO", "EPIPE", "EAGAIN"])])
                q = rng.random()
                cur = cur if q < 0.4 else (nxt if q < 0.7 else mutate_text_frame(rng, nxt, enc, pool))
                ops.append(["draw", cur])
        elif r < 0.55:
            if cur["k"] == "text" and rng.random() < 0.08:
                cur = gen_other_class_frame(rng, *frame_size(cur), enc, pool)  # e.g. SolidFill(" ") over what is there now
            elif cur["k"] == "text":
                cur = mutate_text_frame(rng, cur, enc, pool)
            elif cur["k"] == "user":
                m = mutate_text_frame(rng, dict(cur, k="text", wrap=["text"]), enc, pool)
                cur = dict(cur, rows=m["rows"], cur=m["cur"])
            elif cur["k"] == "solid":
                cur = gen_text_frame(rng, *frame_size(cur), enc, pool)
            else:
                cur = dict(cur, tree=mutate_tree(rng, cur["tree"], enc))
            ops.append(["draw", cur])
        elif r < 0.68:
            cur = fresh(*frame_size(cur))
            ops.append(["draw", cur])
        elif r < 0.78:
            w, h = rng.choice(SIZES_W), rng.choice(SIZES_H)
            cur = fresh(w, h)
            ops.append(["draw", cur])
        elif r < 0.86:
            ops.append(["clear"])
        elif r < 0.91:
            ops.append(["winch"])
        elif r < 0.95:
            ops.append(["again"])
        else:
            ops.append(["equal"])
    return {"cfg": cfg, "palette": palette, "ops": ops}


# ------------------------------------------------------------------------------------------------
# shrinking, run, replay
# ------------------------------------------------------------------------------------------------


def _sigs_of(ctx, case):
    res, _ = run_raw(ctx, case, count=False)
    return dict(res)


def shrink_raw(ctx, case, sig, budget=140):
    """greedy reduction of a failing history while the same signature reproduces"""
    import json

    tries = 0

    def ok(c):
        nonlocal tries
        tries += 1
        return tries <= budget and sig in _sigs_of(ctx, c)

    cur = json.loads(json.dumps(case))
    # 0. shortest failing prefix (long release-discipline histories would make every later step expensive)
    for k in (1, 2, 3, 4, 6, 9, 14, 20, 30, 45):
        if k >= len(cur["ops"]):
            break
        c = dict(cur, ops=cur["ops"][:k])
        if ok(c):
            cur = c
            break
    if len(cur["ops"]) > 40:
        return cur
    # 1. drop ops
    i = len(cur["ops"]) - 1
    while i >= 0 and tries < budget:
        if len(cur["ops"]) > 1:
            c = dict(cur, ops=cur["ops"][:i] + cur["ops"][i + 1 :])
            if ok(c):
                cur = c
        i -= 1
    # 2. simplify frames
    for oi, op in enumerate(cur["ops"]):
        if op[0] != "draw" or op[1]["k"] != "text":
            continue

        def with_frame(fr):
            ops = list(cur["ops"])
            ops[oi] = ["draw", fr]
            return dict(cur, ops=ops)

        fr = op[1]
        for key, val in (("cur", None), ("wrap", ["text"])):
            if fr.get(key) != val:
                f2 = dict(fr, **{key: val})
                if ok(with_frame(f2)):
                    fr = f2
                    cur = with_frame(fr)
        # drop rows from the top (changes the size of this frame only if it is alone at that size)
        y = 0
        while len(fr["rows"]) > 1 and y < len(fr["rows"]) - 1 and tries < budget:
            f2 = dict(fr, rows=fr["rows"][:y] + fr["rows"][y + 1 :])
            if f2.get("cur") and f2["cur"][1] >= len(f2["rows"]):
                f2["cur"] = None
            if ok(with_frame(f2)):
                fr = f2
                cur = with_frame(fr)
            else:
                y += 1
        for y in range(len(fr["rows"])):
            blank = [[" " * fr["w"], None]]
            if fr["rows"][y] != blank and tries < budget:
                f2 = dict(fr, rows=[blank if j == y else r for j, r in enumerate(fr["rows"])])
                if ok(with_frame(f2)):
                    fr = f2
                    cur = with_frame(fr)
                    continue
            row = fr["rows"][y]
            for si in range(len(row)):
                if row[si][1] is not None and tries < budget:
                    r2 = [[sg[0], (None if j == si else sg[1]), *sg[2:]] for j, sg in enumerate(row)]
                    f2 = dict(fr, rows=[r2 if j == y else r for j, r in enumerate(fr["rows"])])
                    if ok(with_frame(f2)):
                        fr = f2
                        cur = with_frame(fr)
                        row = r2
            # merge everything into plain x's except the tail
            flat = "".join(sg[0] for sg in row)
            if len(row) > 1 and all(sg[1] is None and len(sg) == 2 for sg in row) and tries < budget:
                f2 = dict(fr, rows=[[[flat, None]] if j == y else r for j, r in enumerate(fr["rows"])])
                if ok(with_frame(f2)):
                    fr = f2
                    cur = with_frame(fr)
    # 3. palette entries that are not needed
    i = len(cur["palette"]) - 1
    while i >= 0 and tries < budget:
        c = dict(cur, palette=cur["palette"][:i] + cur["palette"][i + 1 :])
        try:
            if ok(c):
                cur = c
        except Exception:  # noqa: BLE001  (alias of a removed entry)
            pass
        i -= 1
    return cur


def case_frames(case):
    return [op[1] for op in case["ops"] if op[0] == "draw"]


def run_case(ctx, case, shrunk_sigs):
    res, drawn = run_raw(ctx, case)
    ctx.case(case, nontrivial=drawn > 0)
    ctx.count("histories")
    ctx.count("ops_in_histories", len(case["ops"]))
    if not res:
        ctx.count("histories_clean")
    for sig, msg in res:
        wit = {"clause": "raw", **case}
        if shrunk_sigs.get(sig, 0) < 2 and not ctx.replaying:
            shrunk_sigs[sig] = shrunk_sigs.get(sig, 0) + 1
            try:
                small = shrink_raw(ctx, case, sig)
                r2 = _sigs_of(ctx, small)
                if sig in r2:
                    wit = {"clause": "raw", **small}
                    msg = r2[sig]
            except Exception as e:  # noqa: BLE001
                ctx.count("shrink_errors")
                ctx.extra.setdefault("shrink_error_example", f"{type(e).__name__}: {e}")
        ctx.violation(sig, msg, wit)
    return res


def run_html_case(ctx, case, max_frames=3):
    frames = case_frames(case)
    for fr in frames[:1] + frames[-(max_frames - 1) :] if len(frames) > 1 else frames:
        res = run_html(ctx, case["cfg"], case["palette"], fr)
        ctx.count("html_evaluations")
        if res:
            sig, msg = res
            wit = {"clause": "html", "cfg": case["cfg"], "palette": case["palette"], "frame": fr}
            wit = shrink_html(ctx, wit, sig)
            ctx.violation(sig, msg, wit)


def shrink_html(ctx, wit, sig, budget=40):
    fr = wit["frame"]
    if fr["k"] != "text":
        return wit
    tries = 0

    def ok(f2):
        nonlocal tries
        tries += 1
        if tries > budget:
            return False
        r = run_html(ctx, wit["cfg"], wit["palette"], f2, count=False)
        return bool(r) and r[0] == sig

    y = 0
    while len(fr["rows"]) > 1 and y < len(fr["rows"]):
        f2 = dict(fr, rows=fr["rows"][:y] + fr["rows"][y + 1 :], wrap=["text"])
        if f2.get("cur") and f2["cur"][1] >= len(f2["rows"]):
            f2["cur"] = [f2["cur"][0], len(f2["rows"]) - 1]
        if ok(f2):
            fr = f2
        else:
            y += 1
    for y in range(len(fr["rows"])):
        row = fr["rows"][y]
        for si in range(len(row)):
            if row[si][1] is not None:
                r2 = [[sg[0], (None if j == si else sg[1]), *sg[2:]] for j, sg in enumerate(row)]
                f2 = dict(fr, rows=[r2 if j == y else r for j, r in enumerate(fr["rows"])])
                if ok(f2):
                    fr = f2
                    row = r2
    return dict(wit, frame=fr)


def directed_cases():
    """the adversarial shapes named in the design, as fixed histories (every run, every shard 0)"""
    out = []
    for enc in ("utf-8", "iso8859-1"):
        for bce in (True, False):
            cfg = {"enc": enc, "colors": 16, "bib": False, "bce": bce, "pal_first": True}
            pal = [["u", "default,underline", "default"], ["s", "default,strikethrough", "default"], ["so", "white,standout", "dark blue"], ["b", "yellow", "dark red"]]

            def one(rows, w, cur=None):
                return {"cfg": cfg, "palette": pal, "ops": [["draw", {"k": "text", "w": w, "rows": rows, "cur": cur, "wrap": ["text"]}]]}

            if enc == "utf-8":
                out.append(one([[["ab   ", None]], [["XX漢Z", None]]], 5))
                out.append(one([[["XXXY漢", None]]], 6))
                out.append(one([[["漢", None]]], 2))
                out.append(one([[["a ", None]], [["漢", "b"]]], 2))
                out.append(one([[["XX", None], ["漢", "b"], ["Z", "u"]]], 5))
                out.append(one([[["漢字", None]]], 4, [3, 0]))
            out.append(one([[["abc─x", None]]], 5))
            out.append(one([[["abcx─", None]]], 5))
            out.append(one([[["ab", None], ["─", "b"], ["x", None]]], 4))
            out.append(one([[["ab", None], ["   ", "s"]], [["cd", None], ["   ", "s"]]], 5))
            out.append(one([[["ab", None], ["   ", "u"]], [["cd", None], ["   ", "so"]]], 5))
            out.append(one([[["ab", None], ["   ", "b"]], [["cd", None], ["   ", "nope"]]], 5))
            out.append(one([[["x", None]]], 1, [0, 0]))
    # byte encoding: control bytes are one column and shown as '?'
    cfg = {"enc": "iso8859-1", "colors": 16, "bib": False, "bce": True, "pal_first": True}
    for txt in ("name\tqty\t   ", "ab\x0b    \r  ", "\x0c         "):
        out.append({"cfg": cfg, "palette": [], "ops": [["draw", {"k": "text", "w": len(txt), "rows": [[[txt, None]], [["x" * len(txt), None]]], "cur": None, "wrap": ["text"]}]]})
    out.append({"cfg": dict(cfg, alt=False, base=1), "palette": [], "ops": [["draw", {"k": "text", "w": 3, "rows": [[["   ", None]], [["\x0b  ", None]], [["   ", None]]], "cur": None, "wrap": ["text"]}]]})
    # two sessions on one Screen, all four buffer-mode combinations; the inline session starts on row 2
    top = {"k": "text", "w": 4, "rows": [[["ab  ", None]], [["    ", None]], [["    ", None]], [["    ", None]]], "cur": [1, 0], "wrap": ["text"]}
    top2 = {"k": "text", "w": 4, "rows": [[["cd  ", None]], [["e   ", None]], [["    ", None]], [["    ", None]]], "cur": None, "wrap": ["text"]}
    for a1 in (False, True):
        for a2 in (False, True):
            out.append({"cfg": dict(cfg, alt=a1, base=2), "palette": [], "ops": [["draw", top], ["draw", top2], ["restart", a2, 2], ["draw", top], ["draw", top2], ["clear"], ["draw", top]]})
    # a draw abandoned because the window size changed while the canvas was being read, then an EQUAL canvas; a draw whose
    # output failed half way, then the canvas of the last completed frame again
    fa = {"k": "text", "w": 4, "rows": [[["abcd", None]], [["x   ", None]]], "cur": None, "wrap": ["text"]}
    fb = {"k": "text", "w": 4, "rows": [[["efgh", None]], [["yz  ", None]]], "cur": [1, 1], "wrap": ["text"]}
    for bce in (True, False):
        c3 = dict(cfg, enc="utf-8", bce=bce)
        for sizes in ([[4, 2]], [[7, 3], [4, 2]]):
            for at in (0, 1):
                out.append({"cfg": c3, "palette": [], "ops": [["draw", fa], ["draw_winch", fb, at, sizes], ["draw", fb], ["draw", fa]]})
        for k in (3, 5, 7, 9):
            out.append({"cfg": c3, "palette": [], "ops": [["draw", fa], ["draw_fail", fb, k, "EAGAIN"], ["draw", fa], ["draw", fb]]})
    # other canvas classes directly, over a screen that shows something else
    full = {"k": "text", "w": 4, "rows": [[["abcd", None]], [["efgh", None]], [["ijkl", None]]], "cur": None, "wrap": ["text"]}
    for enc in ("utf-8", "iso8859-1"):
        c2 = {"enc": enc, "colors": 16, "bib": False, "bce": True, "pal_first": True}
        for other in (
            {"k": "solid", "w": 4, "h": 3, "fill": " "},
            {"k": "solid", "w": 4, "h": 3, "fill": "x"},
            {"k": "solid", "w": 4, "h": 3, "fill": " ", "attr": "b"},
            {"k": "user", "w": 4, "rows": [[["a   ", None]], [["a   ", None]], [["    ", None]]], "cur": [1, 1], "mode": "shared"},
            {"k": "user", "w": 4, "rows": [[["a   ", None]], [["b", "b"], ["   ", None]], [["    ", None]]], "cur": None, "mode": "stored"},
        ):
            out.append({"cfg": c2, "palette": [["b", "yellow", "dark red"]], "ops": [["draw", full], ["draw", other], ["equal"], ["draw", full], ["draw", other]]})
    # regression core for 6c5c71e / 4fdf16d: partial-screen mode, all-space rows below the rows used so far, with a palette
    # that defines the None entry (the default attribute itself paints a background), or gives the rows a visible attribute
    for enc in ("utf-8", "iso8859-1"):
        for colors in (1, 16, 256, 1 << 24):
            for bce in (True, False):
                for pal in (
                    [[None, "light blue", "black"]],
                    [[None, "default", "dark green"], ["b", "yellow", "dark red"]],
                    [[None, "default,underline", "default"]],
                    [[None, "default", "default"], ["b", "default", "dark red"]],
                    [["b", "default", "dark red"]],
                ):
                    cfgp = {"enc": enc, "colors": colors, "bib": True, "bce": bce, "pal_first": False, "alt": False, "base": 0}
                    for rows in (
                        [[[" ", None]], [[" ", None]], [[" ", "p2"]]],
                        [[["ab ", None]], [["   ", None]], [["   ", "b"]], [["   ", None]]],
                        [[["   ", None]], [["   ", "b"]], [["   ", None]], [["c  ", None]]],
                    ):
                        w = len(rows[0][0][0])
                        d = {"k": "text", "w": w, "rows": rows, "cur": None, "wrap": ["text"]}
                        out.append({"cfg": cfgp, "palette": pal, "ops": [["draw", d]]})
                        out.append({"cfg": dict(cfgp, base=1), "palette": pal, "ops": [["draw", d], ["clear"], ["draw", d]]})
    return out


def run(ctx):
    from urwid.display import _raw_display_base as B
    from urwid.display import html_fragment as H

    reach.watch(B.Screen.draw_screen, B.Screen._last_row, B.Screen._attrspec_to_escape, B.Screen.clear, B.Screen._setup_G1, H.HtmlGenerator.draw_screen, H.html_span)
    shrunk: dict = {}
    rng = ctx.rng
    if ctx.shard == 0:
        for case in directed_cases():
            run_case(ctx, case, shrunk)
            run_html_case(ctx, case)
            ctx.count("directed_cases")
    for _ in range(2):
        case = gen_release_case(rng, ctx.pick(60, 200))
        run_case(ctx, case, shrunk)
        ctx.count("release_discipline_long_histories")
    k = 0
    while ctx.more(1.0):
        k += 1
        if k % 40 == 0:
            case = gen_release_case(rng, ctx.pick(40, 120))
        elif k % 9 == 0:
            case = gen_session_case(rng)
        else:
            case = gen_case(rng)
        run_case(ctx, case, shrunk)
        if ctx.more(1.0):
            run_html_case(ctx, case)
        if k <= 2:
            ctx.sample({"cfg": case["cfg"], "palette": case["palette"][:2], "ops": [op if op[0] != "draw" else ["draw", {**op[1], "rows": op[1].get("rows", [])[:2]}] for op in case["ops"][:3]]})
    reach.flush(ctx)


def replay(ctx, wit):
    if wit.get("clause") == "html":
        res = run_html(ctx, wit["cfg"], wit["palette"], wit["frame"])
        ctx.case(wit)
        if res:
            ctx.violation(res[0], res[1], wit)
        return res
    case = {"cfg": wit["cfg"], "palette": wit["palette"], "ops": wit["ops"]}
    return run_case(ctx, case, {})
