"""C15 terminal emulator (urwid.vterm.TermCanvas): totality/invariants on arbitrary byte streams (part A),
differential against the independent VT100 model vmon.models.vt on the undisputed core (part B), scrollback.

Part A  every op (feed chunk / resize / scroll view / focus change) is followed by the invariant oracle:
        no exception; grid == height rows x width cells of (attr, cs, bytes); term_cursor and canvas cursor inside
        the grid; scroll region inside and ordered; every reply well-formed; content() == h rows x w cells and equal to
        (scrollback + term)[-(h+k):-k] when the view is scrolled back k rows.
Part B  a model-aware generator drives TermCanvas and two VT models (faithful, and "all known urwid quirks") in
        lock-step and compares glyphs, cursor, attributes of printed cells, replies and the scrollback after every op.
        The first mismatch against the faithful model is classified by replaying the prefix under each single named
        quirk; the case continues under the all-quirks model so that exploration is not stopped by a known deviation.
"""

from __future__ import annotations

import re
import traceback

from vmon import reach
from vmon.models.vt import DEC_GRAPHICS, VT

PROPERTY = "C15"
LEVEL = "exploration"
SHARDS = {"quick": 8, "thorough": 16}
BUDGET = {"quick": 25.0, "thorough": 420.0}
REQUIRE = {
    # about 1/10 of what one quick run observes on the unchanged tree
    "A_ops_checked": 3000,
    "A_resizes": 250,
    "A_replies_checked": 30,
    "A_scrolled_view_checks": 800,
    "B_ops_compared": 3000,
    "B_cases_agree_to_end_under_quirk_model": 20,
    "B_scrollback_lines_compared": 500,
    "B_view_checks": 150,
    "B_replies_compared": 60,
    "B_pending_wrap_states": 400,
    "S_sgr_ops_compared": 150,
    "directed_cases": 10,
    "A_mega_sequences_fed": 20,
    "A_params_over_4300_digits": 10,
    "A_mega_split_across_feeds": 10,
    "K_streams_fed_three_ways": 300,
    "K_streams_with_charset_switch_or_ris": 200,
    "U_ops_compared": 1500,
    "U_charset_switches": 500,
    "U_cases_agree_all_feed_modes": 100,
    "C_ops_compared": 3000,
    "C_charset_ops": 600,
    "C_decrc_again_without_new_save": 100,
    "C_decrc_again_after_charset_or_sgr_change": 60,
    "C_prints_in_graphics_or_alt_font": 300,
    "B_pending_wrap_cleared_by_op": 400,
    "B_pending_cleared_by:RIS": 30,
    "D_ops_compared": 3000,
    "D_ops_under_origin_mode": 1500,
    "D_decstbm_changes_under_origin_mode": 200,
    "D_decstbm_changes_under_origin_mode_not_nested": 60,
    "D_decstbm_reset_under_origin_mode_from_subregion": 30,
}
RULE = (
    "part A: op histories (feed chunk | resize to any size>=1x1 | scroll view | focus) over byte streams from a grammar of "
    "well-formed and malformed CSI/OSC/charset/ESC sequences (params missing, 0, small, size-related, huge<=1e5, non-digit), "
    "valid/truncated/invalid UTF-8, C0, C1, cut into arbitrary chunks; encodings utf8, utf-8, ascii, iso8859-1, koi8-r, euc-jp; "
    "focus on/off; sizes 1x1..40x15; part B: model-aware op sequences over the undisputed VT100 core (print with autowrap, CR, "
    "LF, BS, CUP/HVP, CUx, EL, ED, ICH, DCH, IL, DL, DECSTBM, IND, RI, NEL, SGR, DSR) on 1x1..40x12 terminals, per-op chunking, "
    "driven in lock-step with the faithful and the all-known-quirks model; part S: sequences of 1-6 SGR commands (basic/bright/"
    "256/24-bit colours, bold, underline, blink, reverse and their resets) each followed by one glyph whose style is compared; "
    "part C: the part-B machinery with SO/SI, ESC ( x / ESC ) x (x in 0 B A), SGR incl. 10/11/12, DECSC/DECRC with several "
    "restores per save and charset/SGR changes between them, RIS, on 2x1..12x5 terminals, glyphs compared after DEC "
    "special-graphics translation; parts B/C/D: from the pending-wrap state also CUF/CUB/CUU/CUD/RIS/DECSTBM, scripted as "
    "<clearing op> <address the last column> <print> <print>; "
    "part D: the part-B machinery with DECOM on/off, 2-4 DECSTBM settings per program (nested, overlapping, disjoint, widening, "
    "bare CSI r, invalid top>=bottom) and probes after each (CUP/HVP to top/bottom/outside rows, LF, RI, IND/NEL, IL/DL, print "
    "to and past the last column, CPR, CUU/CUD, ED/EL) on 2x3..10x10 terminals; "
    "part A also inserts 'mega' sequences: one parameter of 4299..20000 digits or a list of 500..6000 parameters in CSI / "
    "?-CSI / OSC / DCS-like / charset sequences, whole or split over 2-7 feeds; part K: the same stream (A grammar plus ESC % G "
    "/ ESC % 8 / ESC % @ / ESC c immediately followed by multibyte UTF-8 and 8-bit bytes) fed whole, bytewise and in random "
    "pieces under all six encodings, every observable compared; part U: model-aware ASCII / multibyte / 8-bit text with main "
    "charset switches and RIS on >=2-column terminals under utf8, utf-8, narrow and wide encodings, fed per op, in one call "
    "and bytewise, compared with the model; "
    "a case = (part, size, encoding, focus, op list); distinct = distinct such tuples; non-trivial = at least one op executed"
)
ASSUMES = [
    "vmon.models.vt (written from xterm ctlseqs / VT100+VT102 manuals) is the reference VT100; its documented interpretation "
    "choices apply (ED1/EL1 include the cursor cell, cursor addressing clears the last-column flag)",
    "part B never lets the verdict depend on a disputed corner: after writing the last column only print/CR/CUP/SGR/DSR follow; "
    "after IL/DL/DECSTBM a CUP follows; CUU/CUD only with a full-screen region; IL/DL only inside the region; DECSTBM bottom <= rows",
    "attributes are compared only for cells the model says were printed (blank printed cells: bg, underline, reverse only), with "
    "bold+colour<8 == bright colour normalisation; attributes of erased cells are not compared",
    "part B uses width-1 characters only (TermCanvas has no double-width cell notion; not part of the stated subset)",
    "scrollback: every line leaving the top row of the active scrolling region is kept, in order (TermCanvas also keeps lines "
    "of regions that do not start at row 0; xterm would not; the statement does not forbid it, so it is not reported)",
    "part B uses the documented spelling urwid.set_encoding('utf8'); with 'utf-8' TermCanvas does not assemble UTF-8 at all "
    "(documented in the Terminal docstring), part A still runs under 'utf-8'",
    "counts between 1e5 and what python's int() accepts (<= 4300 digits) are not sent to ICH/DCH/IL/DL (they loop per count: "
    "denial of service, not a statement violation); parameters of 4299..20000 digits go to every other final, and those of "
    ">= 4301 digits (which int() refuses, so TermCanvas treats them as missing) to all finals",
    "charsets / save-restore (part C): glyphs are compared after DEC special-graphics translation of the cell's charset tag; "
    "G1 starts as DEC graphics (linux-console default, as in TermCanvas); DECRC is only issued after a DECSC, with the same "
    "G0/G1 designations and SGR 10/11 state as at the save (TermCanvas shares the designation list between the saved and "
    "the live state and does not save its display-control flag; DECSC/charsets are outside the statement's listed subset, "
    "so these corners are avoided rather than reported); while SGR 11/12 is on no C0 control is sent; CSI s/u are not used",
    "pending wrap: CR, CUP/HVP, CUF/CUB/CUU/CUD, RIS and DECSTBM clear the deferred wrap (vt.py / xterm rule); BS, LF, TAB, "
    "erase, insert/delete and DECSC from that state stay excluded as disputed",
    "origin mode (part D): DECSTBM parameters are absolute screen lines whatever DECOM says; CUP/HVP/home are relative to and "
    "confined in the region while DECOM is set; ED is not affected by margins; the CPR row is compared as TermCanvas sends it "
    "(absolute) because the statement only requires well-formed replies",
    "chunking invariance (part K): a terminal is a function of the serial byte stream, so the same bytes cut differently "
    "must give the same grid, cursors, modes, region, scrollback, replies, charset/attribute and carried parser state; "
    "streams on which some chunking raises are left to part A",
    "part U: under set_encoding('utf8') the main character set is pinned to UTF-8 (ESC % @ has no effect, as in xterm "
    "with utf8 'always'); under any other spelling/encoding ESC % G / ESC % 8 select UTF-8, ESC % @ and RIS return to one "
    "cell per 8-bit byte; an assembled character is stored re-encoded in the global encoding ('?' if not encodable)",
    "cursor position after resize is only required to be inside the grid (the statement says nothing about preserving it)",
]

ENCODINGS_A = ["utf8", "utf-8", "ascii", "iso8859-1", "koi8-r", "euc-jp"]
# quirks of vt.py that mimic known urwid deviations; the "all quirks" model enables them together
URWID_QUIRKS = (
    "pending-wrap-survives-cursor-motion",
    "ed1-excludes-cursor-cell",
    "width1-wrap-loses-pending",
    "autowrap-below-region-scrolls-region",
    "ed-confined-to-region-in-origin-mode",
    "il-removes-line-above-bottom-margin",
)
# one canonical probe per quirk: the quirk is "live" in the tree under test iff the faithful model disagrees with urwid on
# the probe and the model with just that quirk agrees.  Quirks that are not live (e.g. fixed upstream) are dropped from
# the all-quirks model so that it keeps tracking urwid.
QUIRK_PROBES = {
    "pending-wrap-survives-cursor-motion": (10, 3, [["print", "0123456789"], ["CUP", 1, 10], ["print", "X"]]),
    "ed1-excludes-cursor-cell": (10, 3, [["print", "abcdefghij"], ["CUP", 1, 4], ["ED", 1]]),
    "width1-wrap-loses-pending": (1, 3, [["print", "abc"]]),
    "ed-confined-to-region-in-origin-mode": (4, 4, [["print", "a"], ["CUP", 4, 1], ["print", "d"], ["STBM", 2, 3], ["CUP", 1, 1], ["DECOM", 1], ["ED", 0]]),
    "autowrap-below-region-scrolls-region": (6, 5, [["STBM", 1, 3], ["CUP", 4, 5], ["print", "Y z"]]),
    "il-removes-line-above-bottom-margin": (4, 3, [["print", "a"], ["CUP", 2, 1], ["print", "b"], ["CUP", 3, 1], ["print", "c"], ["CUP", 1, 1], ["IL", 1]]),
}
_active = None


def active_quirks(ctx=None):
    global _active
    if _active is None:
        live = []
        for q in URWID_QUIRKS:
            w, h, ops = QUIRK_PROBES[q]
            case = {"part": "B", "w": w, "h": h, "focus": False, "enc": "utf8", "chunk": 0, "ops": ops}
            if exec_b(case, final_view=False) is not None and exec_b(case, {q}, final_view=False) is None:
                live.append(q)
        _active = tuple(live)
    if ctx is not None:
        ctx.extra["quirks_live_in_tree_under_test"] = list(_active)
    return _active


# disputed corners resolved the xterm way on BOTH sides of the classifier (never decisive: the generator re-addresses
# the cursor after IL/DL, but the comparison right after the op looks at the cursor column)
# "scrollback-saves-region-lines": TermCanvas also keeps lines leaving the top of a region that does not start at row 0
# (xterm drops those).  The statement only requires that lines scrolled off the top are kept in order, so the oracle
# follows TermCanvas here instead of reporting it (oracle correction, see final report).
# "cpr-absolute-in-origin-mode": TermCanvas reports the absolute row in a CPR also while DECOM is set (a VT100 reports
# it relative to the top margin).  The statement only asks for well-formed replies, so this is not reported either.
# "g1-default-dec-graphics": G1 holds DEC special graphics after power-up / RIS in TermCanvas (the linux console default;
# a VT100 / xterm starts with ASCII there).  Which one is "right" depends on the terminal imitated: not reported.
BASE_QUIRKS = frozenset({"il-dl-keep-column", "scrollback-saves-region-lines", "cpr-absolute-in-origin-mode", "g1-default-dec-graphics"})

_vterm = None
_util = None


def _mods():
    global _vterm, _util
    if _vterm is None:
        from urwid import util, vterm

        _vterm, _util = vterm, util
    return _vterm, _util


class Stub:
    """stands in for urwid.vterm.Terminal: only what TermCanvas touches"""

    def __init__(self):
        self.term_modes = _mods()[0].TermModes()
        self.out = []
        self.titles = []
        self.beeps = 0
        self.ledl = []

    def respond(self, s):
        self.out.append(s)

    def set_title(self, t):
        self.titles.append(t)

    def beep(self):
        self.beeps += 1

    def leds(self, w):
        self.ledl.append(w)


def new_term(w, h, focus, enc):
    vterm, util = _mods()
    util.set_encoding(enc)
    s = Stub()
    t = vterm.TermCanvas(w, h, s)
    t.has_focus = bool(focus)
    t.set_term_cursor()
    return t, s


def innermost_vterm_frame(exc):
    name = "?"
    for fs in traceback.extract_tb(exc.__traceback__):
        if fs.filename.endswith("vterm.py"):
            name = fs.name
    return name


# =============================================================================== part A: invariants

RE_DSR = re.compile(r"^\x1b\[0n$")
RE_CPR = re.compile(r"^\x1b\[(\d+);(\d+)R$")
RE_DA = re.compile(r"^\x1b\[\?\d+(;\d+)*c$")


def check_reply(s, w, h):
    if not isinstance(s, str):
        return "reply-not-str"
    try:
        s.encode("ascii")
    except UnicodeEncodeError:
        return "reply-not-ascii"
    if RE_DSR.match(s) or RE_DA.match(s):
        return None
    m = RE_CPR.match(s)
    if m:
        r, c = int(m.group(1)), int(m.group(2))
        if not (1 <= r <= h):
            return "cpr-row-out-of-range"
        if not (1 <= c <= w):
            return "cpr-col-out-of-range"
        return None
    return "reply-malformed"


def check_grid(rows, w, h, what):
    """rows: list of rows of cells; returns None or (kind, msg)"""
    if len(rows) != h:
        return (f"{what}-rows!=height", f"{len(rows)} rows, height {h}")
    for y, row in enumerate(rows):
        if len(row) != w:
            return (f"{what}-row-cells!=width", f"row {y} has {len(row)} cells, width {w}")
        for c in row:
            if not (isinstance(c, tuple) and len(c) == 3 and isinstance(c[2], bytes) and len(c[2]) >= 1 and c[1] in (None, "0", "U")):
                return (f"{what}-cell-malformed", f"row {y}: {c!r}")
    return None


def invariants(t, stub, nreplies_before, ctx=None):
    """returns list of (kind, msg)"""
    out = []
    w, h = t.width, t.height
    g = check_grid(t.term, w, h, "term")
    if g:
        out.append(g)
    if t.cols() != w or t.rows() != h:
        out.append(("cols-rows-disagree", f"cols()={t.cols()} rows()={t.rows()} width={w} height={h}"))
    x, y = t.term_cursor
    if not (isinstance(x, int) and isinstance(y, int) and 0 <= x < w and 0 <= y < h):
        out.append((f"term_cursor-outside|axis={'x' if not (isinstance(x, int) and 0 <= x < w) else 'y'}", f"term_cursor={t.term_cursor} size={w}x{h}"))
    cur = t.cursor
    if cur is not None:
        cx, cy = cur
        if not (0 <= cx < w):
            out.append(("canvas-cursor-outside|axis=x", f"cursor={cur} size={w}x{h} term_cursor={t.term_cursor}"))
        elif not (0 <= cy < h):
            out.append(("canvas-cursor-outside|axis=y", f"cursor={cur} size={w}x{h} term_cursor={t.term_cursor} scrolling_up={t.scrolling_up}"))
    s, e = t.scrollregion_start, t.scrollregion_end
    if not (0 <= s <= e <= h - 1):
        out.append((f"scroll-region-bad|{'unordered' if s > e else 'outside'}", f"region=({s},{e}) height={h}"))
    for r in stub.out[nreplies_before:]:
        k = check_reply(r, w, h)
        if ctx is not None:
            ctx.count("A_replies_checked")
        if k:
            out.append((k, f"reply {r!r} size={w}x{h}"))
    # the view
    k = t.scrolling_up
    if k and ctx is not None:
        ctx.count("A_scrolled_view_checks")
    try:
        view = list(t.content())
    except Exception as ex:  # noqa: BLE001
        out.append((f"content-raise:{type(ex).__name__}|{'scrolled-back' if k else 'not-scrolled'}", repr(ex)))
        return out
    if k == 0:
        if len(view) != h or any(a != b for a, b in zip(view, t.term)):
            out.append(("content!=term-when-not-scrolled", f"{len(view)} rows"))
    else:
        exp = (list(t.scrollback_buffer) + list(t.term))[-(h + k) : -k]
        # cells are compared on the part of each line that fits the current width (lines keep their old width in the
        # scrollback; how they are padded/cut is not specified, the shape is judged by check_grid below)
        if len(view) != len(exp) or any(a[: min(len(b), w)] != b[: min(len(b), w)] for a, b in zip(view, exp)):
            out.append(("scrolled-view!=(scrollback+term)[-(h+k):-k]", f"k={k} h={h} got {len(view)} rows"))
        g = check_grid(view, w, h, "scrolled-view")
        if g:
            out.append(g)
    return out


def apply_a_op(t, stub, op):
    k = op[0]
    if k == "feed":
        t.addstr(op[1])
    elif k == "mega":
        # compact form of a very long sequence: head + unit*count + tail, fed in nchunks nearly equal pieces
        data = mega_bytes(op)
        n = max(1, min(op[5], len(data)))
        size = -(-len(data) // n)
        for i in range(0, len(data), size):
            t.addstr(data[i : i + size])
    elif k == "resize":
        t.resize(op[1], op[2])
    elif k == "scroll":
        t.scroll_buffer(up=bool(op[1]), lines=op[2])
    elif k == "scroll_reset":
        t.scroll_buffer(reset=True)
    elif k == "focus":
        t.has_focus = bool(op[1])
        t.set_term_cursor()
    else:
        raise AssertionError(op)


def mega_bytes(op):
    return op[1] + op[2] * op[3] + op[4]


def run_a(ctx, wit, collect=None, stop_on=None):
    """execute one part-A history; every op is followed by the invariant oracle.  The history is continued after a
    violation (each signature is recorded once, with the index of the op where it first appeared).  -> {sig: (msg, i)}"""
    sigs = {}
    t, stub = new_term(wit["w"], wit["h"], wit["focus"], wit["enc"])
    for i, op in enumerate(wit["ops"]):
        nrep = len(stub.out)
        try:
            apply_a_op(t, stub, op)
        except Exception as ex:  # noqa: BLE001
            sig = f"C15|A|{'feed' if op[0] == 'mega' else op[0]}|raise:{type(ex).__name__}|at={innermost_vterm_frame(ex)}"
            sigs.setdefault(sig, (f"{type(ex).__name__}: {ex} in {innermost_vterm_frame(ex)} at op {i}", i))
            if stop_on is not None and stop_on in sigs:
                break
            if len(t.term) != t.height:  # the exception left the object unusable for further ops
                break
            continue
        if collect is None:
            ctx.count("A_ops_checked")
            if op[0] == "resize":
                ctx.count("A_resizes")
            elif op[0] == "mega":
                ctx.count("A_mega_sequences_fed")
                if op[3] * len(op[2]) >= 4301 and op[2].isdigit():
                    ctx.count("A_params_over_4300_digits")
                if op[5] > 1:
                    ctx.count("A_mega_split_across_feeds")
        bad = invariants(t, stub, nrep, ctx if collect is None else None)
        for kind, msg in bad:
            sig = f"C15|A|invariant|{kind}"
            sigs.setdefault(sig, (f"{msg} after op {i} {op[0]}", i))
        if stop_on is not None and stop_on in sigs:
            break
    return sigs


def shrink_a(wit, sig, budget=300):
    """greedy: drop ops, then drop byte ranges inside feeds, while `sig` still reproduces"""
    n = [0]

    def holds(ops):
        n[0] += 1
        if n[0] > budget:
            return False
        w2 = dict(wit, ops=ops)
        try:
            return sig in run_a(None, w2, collect=True, stop_on=sig)
        except Exception:  # noqa: BLE001
            return False

    ops = [list(o) for o in wit["ops"]]
    # cut after the failing op
    changed = True
    while changed and n[0] <= budget:
        changed = False
        i = len(ops) - 1
        while i >= 0 and len(ops) > 1:
            cand = ops[:i] + ops[i + 1 :]
            if holds(cand):
                ops = cand
                changed = True
            i -= 1
    # simplify mega ops: one chunk, canonical lengths, plain head/tail
    for idx in range(len(ops)):
        if ops[idx][0] != "mega":
            continue
        op = list(ops[idx])
        if op[5] != 1 and holds(ops[:idx] + [[*op[:5], 1]] + ops[idx + 1 :]):
            op = [*op[:5], 1]
        for c in (1, 10, 1000, 4300, 4301):
            if c < op[3] and holds(ops[:idx] + [[*op[:3], c, *op[4:]]] + ops[idx + 1 :]):
                op = [*op[:3], c, *op[4:]]
                break
        ops[idx] = op
    # merge feeds / shrink bytes
    for idx in range(len(ops)):
        if ops[idx][0] != "feed":
            continue
        data = ops[idx][1]
        step = max(1, len(data) // 2)
        while step >= 1 and n[0] <= budget:
            i = 0
            while i < len(data) and len(data) > 1:
                cand = data[:i] + data[i + step :]
                if cand and holds(ops[:idx] + [["feed", cand]] + ops[idx + 1 :]):
                    data = cand
                else:
                    i += step
            if step == 1:
                break
            step //= 2
        ops[idx] = ["feed", data]
    return dict(wit, ops=ops)


def report_a(ctx, wit, sigs, shrunk_seen):
    for sig, (msg, _i) in sigs.items():
        w2 = wit
        if shrunk_seen.get(sig, 0) < 2 and not ctx.replaying:
            shrunk_seen[sig] = shrunk_seen.get(sig, 0) + 1
            w2 = shrink_a(wit, sig)
            s2 = run_a(None, w2, collect=True, stop_on=sig)
            if sig in s2:
                msg = s2[sig][0]
            else:
                w2 = wit
        else:
            # cut the history after the failing op at least
            w2 = dict(wit, ops=wit["ops"][: sigs[sig][1] + 1])
        ctx.violation(sig, msg, w2)


# ---------------------------------------------------------------- part A generator

CSI_FINALS_KNOWN = "@ABCDEFGHJKLMPXacdefghlmnqrsu`"
CSI_FINALS_OTHER = "STZbItpyz~ijkovwx}{|"
HUGE = [255, 256, 999, 1000, 4096, 9999, 65535, 65536, 99999, 100000]
JUNK_PARAM = ["a", "-1", "1.5", " ", ":", "1:2", "?", "$", '"', "0x10", "+1", "<", ">", "=", "!"]
SGR_POOL = [0, 1, 2, 3, 4, 5, 7, 8, 9, 10, 11, 12, 21, 22, 23, 24, 25, 27, 28, 29, 30, 31, 37, 38, 39, 40, 44, 47, 48, 49, 50, 90, 97, 100, 107, 108]
MODES = [1, 3, 4, 5, 6, 7, 20, 25, 47, 1000, 1002, 1006, 1047, 1048, 1049, 2004, 1004, 0, 99999]
UTF8_GOOD = ["é", "ж", "€", "漢", "字", "한", "́", "​", "😀", "ｱ", "─", "▒", "£", " ", "\u0085", "\u009b"]
BAD_BYTES = [b"\xc0", b"\xc1", b"\xf5", b"\xfe", b"\xff", b"\x80", b"\xbf", b"\xe6\xbc", b"\xe6", b"\xf0\x9f\x98", b"\xf0\x9f", b"\xc3", b"\xed\xa0\x80", b"\xc0\xaf", b"\xe0\x80\x80", b"\xf4\x90\x80\x80", b"\xfc\x80\x80\x80\x80\x80"]


def gen_param(rng, w, h):
    r = rng.random()
    if r < 0.15:
        return ""
    if r < 0.28:
        return "0"
    if r < 0.52:
        return str(rng.randint(1, 3))
    if r < 0.72:
        return str(max(0, rng.choice([w - 1, w, w + 1, h - 1, h, h + 1, w // 2, h // 2])))
    if r < 0.80:
        return str(rng.choice(HUGE))
    if r < 0.87:
        return rng.choice(JUNK_PARAM)
    return str(rng.randint(0, 300))


def gen_sgr(rng):
    parts = []
    for _ in range(rng.randint(1, 4)):
        r = rng.random()
        if r < 0.5:
            parts.append(str(rng.choice(SGR_POOL)))
        elif r < 0.65:
            parts += [str(rng.choice([38, 48])), "5", str(rng.choice([0, 1, 7, 8, 15, 16, 231, 232, 255, 256, 999, 100000]))]
        elif r < 0.85:
            parts += [str(rng.choice([38, 48])), "2"] + [rng.choice(["0", "1", "127", "255", "256", "999", "", "100000"]) for _ in range(rng.choice([3, 3, 3, 2, 1, 0, 4]))]
        elif r < 0.92:
            parts.append(str(rng.choice([38, 48])))
        else:
            parts.append(rng.choice(["", "a", str(rng.choice(HUGE))]))
    return ";".join(parts) + "m"


def gen_token(rng, w, h, enc):
    r = rng.random()
    csi = rng.choice(["\x1b[", "\x1b[", "\x1b[", "\x9b"]).encode("latin-1")
    if r < 0.16:
        n = rng.randint(1, max(2, int(w * 1.6)))
        return bytes(rng.randint(0x20, 0x7E) for _ in range(n))
    if r < 0.24:
        return bytes([rng.choice([0x08, 0x09, 0x0A, 0x0A, 0x0B, 0x0C, 0x0D, 0x0D, 0x0E, 0x0F, 0x07, 0x00, 0x7F, 0x18, 0x1A, 0x1B, rng.randint(0, 0x1F)])])
    if r < 0.28:
        return bytes([rng.randint(0x80, 0x9F)])
    if r < 0.36:
        return "".join(rng.choice(UTF8_GOOD) for _ in range(rng.randint(1, 3))).encode("utf-8")
    if r < 0.42:
        return rng.choice(BAD_BYTES)
    if r < 0.46:
        return bytes([rng.randint(0xA0, 0xFF)])
    if r < 0.66:
        # generic CSI
        q = rng.choice(["", "", "", "?", "?", ">", "??"])
        params = ";".join(gen_param(rng, w, h) for _ in range(rng.choice([0, 1, 1, 1, 2, 2, 3, 5])))
        if rng.random() < 0.05:
            params += rng.choice(["?", " ", "\x0d", "\x08", "\x1b"])
        fin = rng.choice(CSI_FINALS_KNOWN) if rng.random() < 0.85 else rng.choice(CSI_FINALS_OTHER)
        if rng.random() < 0.04:
            fin = ""  # truncated
        return csi + (q + params + fin).encode("latin-1")
    if r < 0.74:
        return csi + gen_sgr(rng).encode("latin-1")
    if r < 0.80:
        q = rng.choice(["?", "?", ""])
        ms = ";".join(str(rng.choice(MODES)) for _ in range(rng.choice([1, 1, 2, 3])))
        return csi + (q + ms + rng.choice("hl")).encode("latin-1")
    if r < 0.84:
        return csi + rng.choice([b"5n", b"6n", b"c", b"0c", b"?6n", b"?c", b"7n", b"n", b"6;6n", b"99999n"])
    if r < 0.92:
        # OSC
        head = rng.choice([b"0;", b"2;", b";", b"1;", b"000;", b"P1234567", b"P", b"R", b"52;", b"", b"0", b"9999999;", b"\xff;", b"2"])
        body = b"".join(
            rng.choice([b"title", b" ", b"\xff", b"\xc3", b"\xe6\xbc\xa2", b";", b"\x1b", b"\n", b"\x9c", b"\x80", b"a" * 20, b"\x00", b"\x1b[", b"]"]) for _ in range(rng.randint(0, 4))
        )
        term = rng.choice([b"\x07", b"\x07", b"\x1b\\", b"\x1b\\", b"", b"\x18", b"\x9c", b"\x1b"])
        return b"\x1b]" + head + body + term
    if r < 0.97:
        return b"\x1b" + rng.choice([b"(", b")", b"%", b"#", b"*", b"+"]) + rng.choice([b"0", b"B", b"U", b"K", b"@", b"G", b"8", b"A", b"\xff", b"\x1b", b""])
    return b"\x1b" + bytes([rng.choice([*b"cDEHMZ78>=NOPX^_\\", rng.randint(0x20, 0x7E), rng.randint(0, 255)])])


MEGA_LENGTHS = [4299, 4300, 4301, 4302, 5000, 6000, 10000, 20000]
CSI_FINALS_NO_LOOP = "ABCDEFGHJKXacdefghlmnqrsu`"  # finals whose cost does not grow with the parameter value


def gen_mega(rng):
    """a sequence with a parameter of thousands of digits (python's int() refuses > 4300 digits), or a very long
    parameter list, in CSI / ?-CSI / OSC / DCS-like strings; whole or split across feeds"""
    r = rng.random()
    n = rng.choice(MEGA_LENGTHS)
    digit = rng.choice([b"1", b"7", b"9", b"0", b"3"])
    csi = rng.choice([b"\x1b[", b"\x1b[", b"\x9b"])
    chunks = rng.choice([1, 1, 2, 2, 3, 7])
    if r < 0.45:
        q = rng.choice([b"", b"", b"?", b"1;", b"?25;", b";"])
        # a parameter that int() still accepts is an astronomically large count: keep those away from the finals that
        # loop per count (ICH/DCH/IL/DL), see ASSUMES
        finals = CSI_FINALS_KNOWN if (n >= 4301 and digit != b"0") else CSI_FINALS_NO_LOOP
        tail = rng.choice([b"", b"", b";5", b";", b";0;0"]) + rng.choice(finals).encode()
        return ["mega", csi + q, digit, n, tail, chunks]
    if r < 0.60:
        cnt = rng.choice([500, 2000, 4301, 6000])
        unit = rng.choice([b"1;", b";", b"0;", b"38;5;", b"31;"])
        return ["mega", csi + rng.choice([b"", b"?"]), unit, cnt, rng.choice([b"m", b"h", b"l", b"H", b"r", b"n", b"m"]), chunks]
    if r < 0.80:
        head = rng.choice([b"\x1b]", b"\x1b]0;", b"\x1b]2;t", b"\x1b]P"])
        return ["mega", head, digit, n, rng.choice([b"\x07", b"\x1b\\", b";x\x07", b""]), chunks]
    if r < 0.90:
        return ["mega", rng.choice([b"\x1bP", b"\x1b_", b"\x1b^", b"\x1bX"]), digit, n, rng.choice([b"\x1b\\", b"q\x1b\\", b""]), chunks]
    return ["mega", rng.choice([b"\x1b(", b"\x1b%", b"\x1b#", b"\x1b"]), digit, n, b"A", chunks]


def rand_size(rng, big=True):
    r = rng.random()
    if r < 0.30:
        return rng.randint(1, 3), rng.randint(1, 3)
    if r < 0.75 or not big:
        return rng.randint(1, 12), rng.randint(1, 6)
    return rng.randint(1, 40), rng.randint(1, 15)


def gen_a_case(rng, quick):
    w, h = rand_size(rng)
    enc = rng.choice(ENCODINGS_A)
    focus = rng.random() < 0.5
    ntok = rng.randint(1, 25 if quick else 60)
    stream = b"".join(gen_token(rng, w, h, enc) for _ in range(ntok))
    maxlen = 200 if quick else 2000
    stream = stream[:maxlen]
    ops = []
    i = 0
    style = rng.random()
    cw, ch = w, h
    while i < len(stream):
        if style < 0.2:
            k = len(stream)
        elif style < 0.4:
            k = 1
        else:
            k = rng.choice([1, 1, 2, 3, 5, 8, 13, 40])
        ops.append(["feed", stream[i : i + k]])
        i += k
        r = rng.random()
        if r < 0.10:
            cw, ch = rand_size(rng)
            ops.append(["resize", cw, ch])
        elif r < 0.16:
            ops.append(["scroll", rng.random() < 0.7, rng.choice([None, 1, 1, 2, ch, 1000])])
        elif r < 0.18:
            ops.append(["scroll_reset"])
        elif r < 0.21:
            ops.append(["focus", rng.random() < 0.5])
    if rng.random() < 0.08:
        pos = rng.randint(0, len(ops))
        extra = [gen_mega(rng)]
        if rng.random() < 0.6:  # whatever state the long sequence leaves behind meets a following sequence
            extra.append(["feed", rng.choice([b"\x1b[5C", b"m", b"H", b"\x1b[6n", b"x\x1b[2J", b"\x07ok"])])
        ops[pos:pos] = extra
    return {"part": "A", "w": w, "h": h, "focus": focus, "enc": enc, "ops": ops}


# =============================================================================== part B: differential

NARROW_TEXT = {
    "utf8": "abcXYZ019 .,;-_/\\|#~éßжЩλΩ€ñ",
    "utf-8": "abcXYZ019 .,;-_/\\|#~éßжЩλΩ€ñ",
    "ascii": "abcdefXYZ0189 .,;-_/\\|#~",
    "iso8859-1": "abcXYZ019 .,;-_éßñÀÿ£",
    "koi8-r": "abcXYZ019 .,;-_жЩяЮ",
}
# "utf-8" (with the hyphen) is not used in part B: TermCanvas assembles UTF-8 only when the global encoding is spelled
# "utf8", and the Terminal docstring documents that requirement (part A still feeds streams under "utf-8").
ENC_B = ["utf8", "utf8", "utf8", "ascii", "iso8859-1", "koi8-r"]
SGR_B = [0, 0, 1, 4, 5, 7, 24, 25, 27, 30, 31, 32, 33, 34, 35, 36, 37, 39, 40, 41, 42, 43, 44, 45, 46, 47, 49, 90, 91, 94, 97, 100, 101, 104, 107]


def render_b(op, enc):
    k = op[0]

    def p(v):
        return "" if v is None else str(v)

    if k == "print":
        return op[1].encode("utf-8" if enc in ("utf8", "utf-8") else enc)
    if k == "CR":
        return b"\r"
    if k == "LF":
        return b"\n"
    if k == "BS":
        return b"\x08"
    if k == "IND":
        return b"\x1bD"
    if k == "RI":
        return b"\x1bM"
    if k == "NEL":
        return b"\x1bE"
    if k in ("CUP", "HVP"):
        a, b = op[1], op[2]
        body = p(a) if b is None and op[3:] == ["short"] else f"{p(a)};{p(b)}"
        return f"\x1b[{body}{'H' if k == 'CUP' else 'f'}".encode()
    fin = {"CUF": "C", "CUB": "D", "CUU": "A", "CUD": "B", "EL": "K", "ED": "J", "ICH": "@", "DCH": "P", "IL": "L", "DL": "M", "DSR": "n"}.get(k)
    if fin:
        return f"\x1b[{p(op[1])}{fin}".encode()
    if k == "STBM":
        if op[1] is None and op[2] is None and op[3:] == ["bare"]:
            return b"\x1b[r"
        return f"\x1b[{p(op[1])};{p(op[2])}r".encode()
    if k == "DECOM":
        return b"\x1b[?6h" if op[1] else b"\x1b[?6l"
    if k in ("RIS", "SO", "SI", "DECSC", "DECRC"):
        return {"RIS": b"\x1bc", "SO": b"\x0e", "SI": b"\x0f", "DECSC": b"\x1b7", "DECRC": b"\x1b8"}[k]
    if k in ("G0", "G1"):
        return (b"\x1b(" if k == "G0" else b"\x1b)") + op[1].encode("ascii")
    if k == "SGR":
        flat = []
        for v in op[1]:
            flat += v if isinstance(v, list) else [v]
        return ("\x1b[" + ";".join(p(v) for v in flat) + "m").encode()
    raise AssertionError(op)


class GenState:
    """what the generator must remember to stay away from disputed corners (model independent)"""

    __slots__ = ("need_cup", "pending", "saved", "saved_desig", "saved_altfont", "restores", "changed", "queue")

    def __init__(self):
        self.need_cup = False  # after IL/DL/DECSTBM: re-address the cursor first
        self.pending = False  # the previous op was a print that ended in the last column
        self.saved = False  # a DECSC happened since power-up / RIS
        self.saved_desig = None  # G0/G1 designations at that DECSC
        self.saved_altfont = False  # SGR 10/11 state at that DECSC
        self.restores = 0  # DECRCs since the last DECSC
        self.changed = False  # charset / SGR state changed since the last DECSC or DECRC
        self.queue = []  # scripted follow-up ops (generator only)


PENDING_CLEARERS = ("CR", "CUP", "HVP", "CUF", "CUB", "CUU", "CUD", "RIS", "STBM")


def admissible(op, vt, st):
    k = op[0]
    if k in ("SGR", "DSR"):
        return True
    if st.need_cup and k not in ("CUP", "HVP", "DECOM"):
        return False
    # right after a print into the last column only ops whose effect on the deferred wrap is undisputed may follow:
    # they all clear it (vt.py's rule = xterm's); BS / LF / TAB / erase / insert / DECSC from that state are disputed
    if st.pending and k not in PENDING_CLEARERS and k != "print":
        return False
    if vt.altfont and k in ("CR", "LF", "BS", "SO", "SI"):
        return False  # SGR 11/12 is the linux "display control characters" font: C0 bytes are glyphs there (not modelled)
    if k == "print" and vt.altfont and not all(0x20 <= ord(c) < 0x7F for c in op[1]):
        return False
    if k == "DECRC":
        # restore without a save, with Gn re-designated since the save, or across an SGR 10/11 change: disputed / linux-only
        return st.saved and st.saved_desig == list(vt.charsets[:2]) and st.saved_altfont == vt.altfont
    if k in ("CUU", "CUD"):
        # with origin mode on the cursor cannot leave the region, so stopping at the margins is undisputed
        return vt.scroll_region == (0, vt.rows - 1) or vt.origin_mode
    if k in ("IL", "DL"):
        top, bot = vt.scroll_region
        return top <= vt.cursor[1] <= bot
    if k == "STBM":
        b = op[2]
        return b is None or b <= vt.rows
    return True


def after_op(op, st, vt):
    k = op[0]
    if k == "print":
        st.pending = vt.pending_wrap
    elif k not in ("SGR", "DSR"):
        st.pending = False
    if k in ("IL", "DL", "STBM"):
        st.need_cup = True
    elif k in ("CUP", "HVP"):
        st.need_cup = False
    elif k == "DECOM":
        st.need_cup = False  # DECOM homes the cursor (column 0 of the origin row)
    elif k == "RIS":
        st.need_cup = False
        st.saved = False
        st.restores = 0
    elif k == "DECSC":
        st.saved = True
        st.saved_desig = list(vt.charsets[:2])
        st.saved_altfont = vt.altfont
        st.restores = 0
        st.changed = False
    elif k == "DECRC":
        st.need_cup = False
        st.restores += 1
        st.changed = False
    if k in ("SO", "SI", "G0", "G1", "SGR"):
        st.changed = True


def gen_count(rng, lim):
    r = rng.random()
    if r < 0.12:
        return None
    if r < 0.20:
        return 0
    if r < 0.55:
        return 1
    if r < 0.9:
        return rng.randint(1, max(1, lim))
    return rng.randint(lim, lim + 5)


def scripted(rng, vt, st):
    """next op of a scripted follow-up, if it is still admissible"""
    while st.queue:
        op = st.queue.pop(0)
        if admissible(op, vt, st):
            return op
    return None


def pending_clear_script(rng, vt):
    """from the pending-wrap state: one op that must clear it, then cursor addressing to the last column, then a glyph
    (which therefore has to land IN the last column instead of wrapping)"""
    cols, rows = vt.cols, vt.rows
    k = rng.choice(["RIS", "RIS", "CUP", "HVP", "CR", "CUF", "CUB", "CUU", "CUD", "STBM"])
    if k in ("CUP", "HVP"):
        first = [k, rng.randint(1, rows), rng.choice([cols, cols, rng.randint(1, cols)])]
    elif k in ("CUF", "CUB"):
        first = [k, rng.choice([None, 0, 1, 2, cols])]
    elif k in ("CUU", "CUD"):
        first = [k, rng.choice([None, 1, rows])]
    elif k == "STBM":
        first = ["STBM", None, None]
    else:
        first = [k]
    how = rng.random()
    if how < 0.6:
        back = [[rng.choice(["CUP", "HVP"]), rng.randint(1, rows), cols]]
    elif how < 0.8:
        back = [["CUP", rng.randint(1, rows), 1], ["CUF", cols + rng.randint(0, 2)]]
    else:
        back = []
    return [first, *back, ["print", rng.choice("XYZ")], ["print", rng.choice("xyz")]]


C_TEXT = "abcjklmnqtuvwx_`~{|}AB 01"
SGR_C = [0, 0, 1, 4, 5, 7, 24, 25, 27, 31, 32, 34, 37, 39, 41, 44, 47, 49]


def gen_c_op(rng, vt, st, enc):
    """part C: shift in/out, G0/G1 designation, SGR (also 10/11/12) and DECSC/DECRC with several restores per save"""
    cols, rows = vt.cols, vt.rows
    op = scripted(rng, vt, st)
    if op is not None:
        return op
    if st.saved and rng.random() < 0.10:
        # save-less second (third) restore with a charset / rendition change in between
        change = rng.choice([["SO"], ["SI"], ["SGR", [rng.choice(SGR_C)]], ["SO"], ["SGR", [rng.choice([1, 4, 7, 32, 44])]]])
        st.queue = [["DECRC"], change, ["print", "".join(rng.choice(C_TEXT) for _ in range(rng.randint(1, 2)))], ["DECRC"], ["print", "".join(rng.choice(C_TEXT) for _ in range(2))]]
    for _ in range(60):
        r = rng.random()
        if r < 0.28:
            n = rng.choice([1, 2, 3, max(1, cols - vt.cursor[0])])
            op = ["print", "".join(rng.choice(C_TEXT) for _ in range(n))]
        elif r < 0.36:
            op = ["SO"]
        elif r < 0.43:
            op = ["SI"]
        elif r < 0.50:
            op = ["G0", rng.choice("0B0BA")]
        elif r < 0.57:
            op = ["G1", rng.choice("0B0BA")]
        elif r < 0.67:
            ps = [rng.choice(SGR_C) for _ in range(rng.randint(1, 2))]
            if rng.random() < 0.25:
                ps.append(rng.choice([10, 11, 12, 10]))
            op = ["SGR", ps]
        elif r < 0.74:
            op = ["DECSC"]
        elif r < 0.86:
            op = ["DECRC"]
        elif r < 0.92:
            op = [rng.choice(["CUP", "HVP"]), rng.randint(1, rows), rng.randint(1, cols)]
        elif r < 0.95:
            op = [rng.choice(["CR", "LF", "NEL"])]
        elif r < 0.97:
            op = ["RIS"]
        else:
            op = [rng.choice(["CUF", "CUB", "ED", "EL"]), rng.choice([None, 1, 2])]
        if admissible(op, vt, st):
            return op
    return ["CUP", 1, 1]


def gen_b_op(rng, vt, st, enc):
    cols, rows = vt.cols, vt.rows
    op = scripted(rng, vt, st)
    if op is not None:
        return op
    if st.pending and rng.random() < 0.35:
        st.queue = pending_clear_script(rng, vt)
        op = scripted(rng, vt, st)
        if op is not None:
            return op
    for _ in range(50):
        r = rng.random()
        if r < 0.30:
            alpha = NARROW_TEXT[enc]
            rr = rng.random()
            if rr < 0.5:
                n = rng.randint(1, 3)
            elif rr < 0.8:
                n = max(1, cols - vt.cursor[0] + rng.randint(-1, 1))
            else:
                n = rng.randint(1, cols * 2 + 1)
            op = ["print", "".join(rng.choice(alpha) for _ in range(n))]
        elif r < 0.36:
            op = ["CR"]
        elif r < 0.43:
            op = ["LF"]
        elif r < 0.46:
            op = ["BS"]
        elif r < 0.58:
            rr = rng.random()
            if rr < 0.25:
                row, col = rng.randint(1, rows), cols  # aim at the last column
            elif rr < 0.35:
                row, col = rng.choice([None, 0, 1]), rng.choice([None, 0, 1])
            elif rr < 0.45:
                row, col = rng.randint(rows, rows + 3), rng.randint(cols, cols + 3)
            else:
                row, col = rng.randint(1, rows), rng.randint(1, cols)
            op = [rng.choice(["CUP", "CUP", "HVP"]), row, col]
            if col is None and rng.random() < 0.5:
                op.append("short")
        elif r < 0.64:
            op = [rng.choice(["CUF", "CUB"]), gen_count(rng, cols)]
        elif r < 0.69:
            op = [rng.choice(["CUU", "CUD"]), gen_count(rng, rows)]
        elif r < 0.74:
            op = ["EL", rng.choice([None, 0, 1, 2])]
        elif r < 0.79:
            op = ["ED", rng.choice([None, 0, 1, 1, 2])]
        elif r < 0.84:
            op = [rng.choice(["ICH", "DCH"]), gen_count(rng, cols)]
        elif r < 0.88:
            op = [rng.choice(["IL", "DL"]), gen_count(rng, rows)]
        elif r < 0.91:
            rr = rng.random()
            if rr < 0.2:
                op = ["STBM", None, None]
            elif rr < 0.85 and rows >= 2:
                a = rng.randint(1, rows - 1)
                op = ["STBM", rng.choice([a, a, None if a == 1 else a]), rng.choice([rng.randint(a + 1, rows)] * 3 + [None])]
            else:
                a = rng.randint(1, rows)
                op = ["STBM", a, rng.randint(1, a)]  # invalid: top >= bottom
        elif r < 0.95:
            op = [rng.choice(["IND", "RI", "RI", "NEL"])]
        elif r < 0.985:
            ps = []
            for _ in range(rng.randint(1, 3)):
                q = rng.random()
                if q < 0.75:
                    ps.append(rng.choice(SGR_B))
                elif q < 0.88:
                    ps.append([rng.choice([38, 48]), 5, rng.choice([0, 1, 7, 8, 9, 15, 16, 100, 231, 232, 255])])
                else:
                    ps.append([rng.choice([38, 48]), 2, rng.choice([0, 1, 128, 255]), rng.choice([0, 7, 255]), rng.choice([0, 200, 255])])
            if rng.random() < 0.05:
                ps = [None]
            op = ["SGR", ps]
        else:
            op = ["DSR", rng.choice([5, 6, 6])]
        if admissible(op, vt, st):
            return op
    return ["CUP", 1, 1]


def urwid_glyph(cell, enc):
    b = cell[2]
    try:
        s = b.decode("utf-8" if enc in ("utf8", "utf-8") else enc)
    except (UnicodeDecodeError, LookupError):
        return "\udcff" + b.decode("latin-1")
    if cell[1] == "0" and len(s) == 1 and ord(s) in DEC_GRAPHICS:
        return DEC_GRAPHICS[ord(s)]
    if cell[1] == "U":
        return b.decode("cp437")
    return s


def urwid_style(a):
    """(fg, bg, bold, underline, blink, reverse) through AttrSpec's public accessors"""
    if a is None:
        return (None, None, False, False, False, False)

    def col(basic, high, true, num):
        if true:
            return ((num >> 16) & 255, (num >> 8) & 255, num & 255)
        if basic or high:
            return num
        return None

    fg = col(a.foreground_basic, a.foreground_high, a.foreground_true, a.foreground_number)
    bg = col(a.background_basic, a.background_high, a.background_true, a.background_number)
    return (fg, bg, bool(a.bold), bool(a.underline), bool(a.blink), bool(a.standout))


def norm_style(fg, bg, bold, underline, blink, reverse):
    if bold and isinstance(fg, int) and fg < 8:
        fg += 8
    return (fg, bg, bold, underline, blink, reverse)


STYLE_NAMES = ("fg", "bg", "bold", "underline", "blink", "reverse")


def style_diff(u_attr, m, blank):
    us = norm_style(*urwid_style(u_attr))
    ms = norm_style(m.fg, m.bg, m.bold, m.underline, m.blink, m.reverse)
    if blank:
        us = (None, us[1], False, us[3], False, us[5])
        ms = (None, ms[1], False, ms[3], False, ms[5])
    if us == ms:
        return None
    f = next(n for n, a_, b_ in zip(STYLE_NAMES, us, ms) if a_ != b_)
    return (f"attr:{f}", f"urwid {us} model {ms} (fg,bg,bold,underline,blink,reverse)")


def compare(t, vt, enc, want_attr=True):
    """differences between TermCanvas and model: (hard, attr); each None | (kind, msg).
    hard = glyph / cursor / scrollback count; attr = style of a printed cell"""
    attr = None
    for y in range(vt.rows):
        urow = t.term[y]
        mrow = vt.cells[y]
        for x in range(vt.cols):
            m = mrow[x]
            u = urow[x]
            g = urwid_glyph(u, enc)
            if g != m.ch:
                return (("glyph", f"cell ({x},{y}) urwid {g!r} model {m.ch!r}; urwid row {b''.join(c[2] for c in urow)!r} model row {vt.row_text(y)!r}"), attr)
            if want_attr and attr is None and not m.erased:
                d = style_diff(u[0], m, m.ch == " ")
                if d:
                    attr = (d[0], f"cell ({x},{y}) {m.ch!r} {d[1]}")
    if tuple(t.term_cursor) != vt.cursor:
        return (("cursor", f"urwid {tuple(t.term_cursor)} model {vt.cursor}"), attr)
    nu, nm = len(t.scrollback_buffer), len(vt.scrollback)
    if nu != nm:
        return (("scrollback:count", f"urwid keeps {nu} lines, model {nm}"), attr)
    return (None, attr)


def row_text_u(row, enc):
    return "".join(urwid_glyph(c, enc) for c in row)


def compare_scrollback(t, vt, enc, ctx=None):
    sb_u = [row_text_u(r, enc) for r in t.scrollback_buffer]
    sb_m = ["".join(c.ch for c in r) for r in vt.scrollback]
    if ctx is not None:
        ctx.count("B_scrollback_lines_compared", len(sb_m))
    if sb_u != sb_m:
        i = next((i for i, (a, b) in enumerate(zip(sb_u, sb_m)) if a != b), min(len(sb_u), len(sb_m)))
        return ("scrollback:text", f"line {i}: urwid {sb_u[i : i + 1]} model {sb_m[i : i + 1]} (lens {len(sb_u)}/{len(sb_m)})")
    return None


def check_view(t, vt, enc, ks, ctx=None):
    """scroll the view back k rows and compare with the model's (scrollback + screen) window"""
    h = vt.rows
    full = ["".join(c.ch for c in r) for r in vt.scrollback] + vt.text_rows()
    res = None
    for k in ks:
        t.scroll_buffer(reset=True)
        t.scroll_buffer(up=True, lines=k)
        ke = min(k, len(vt.scrollback))
        exp = full[len(full) - h - ke : len(full) - ke]
        if ctx is not None:
            ctx.count("B_view_checks")
        try:
            got = [row_text_u(r, enc) for r in t.content()]
        except Exception as ex:  # noqa: BLE001
            res = (f"view-raise:{type(ex).__name__}", f"content() with the view scrolled back {k}: {ex!r}")
            break
        if got != exp:
            res = ("view", f"scrolled back {k} (effective {ke}) of {len(vt.scrollback)}: content() {got} expected {exp}")
            break
        cur = t.cursor
        if cur is not None and not (0 <= cur[0] < vt.cols and 0 <= cur[1] < h):
            res = ("view-cursor-outside", f"k={k} cursor={cur}")
            break
    t.scroll_buffer(reset=True)
    return res


def feed_chunked(t, data, chunk):
    if not chunk:
        t.addstr(data)
    else:
        for i in range(0, len(data), chunk):
            t.addstr(data[i : i + chunk])


def model_for(case, quirks):
    enc = case["enc"]
    if enc in ("utf8", "utf-8"):
        return VT(case["w"], case["h"], utf8=True, quirks=quirks)
    return VT(case["w"], case["h"], utf8=False, encoding={"iso8859-1": "latin-1"}.get(enc, enc), quirks=quirks)


def exec_b(case, quirks=(), enc_override=None, check_adm=True, final_view=True, mode="hard"):
    """replay a part-B case against one model; -> (index, kind, msg) of first mismatch or None.
    inadmissible sequences (wrt this model) return ('inadmissible', ...) with index -1"""
    enc = enc_override or case["enc"]
    t, stub = new_term(case["w"], case["h"], case["focus"], enc)
    vt = model_for(case, BASE_QUIRKS | frozenset(quirks))
    st = GenState()
    for i, op in enumerate(case["ops"]):
        if check_adm and not admissible(op, vt, st):
            return (-1, "inadmissible", f"op {i} {op}")
        data = render_b(op, enc)
        nrep = len(stub.out)
        try:
            feed_chunked(t, data, case.get("chunk", 0))
        except Exception as ex:  # noqa: BLE001
            return (i, f"raise:{type(ex).__name__}", f"{ex!r} in {innermost_vterm_frame(ex)}")
        vt.feed(data)
        after_op(op, st, vt)
        hard, attr = compare(t, vt, enc, want_attr=(mode == "attr"))
        if mode == "attr":
            vt.take_responses()
            if attr:
                return (i, attr[0], attr[1])
            continue
        m = hard
        if m is None:
            ur = [s.encode("latin-1", "replace") for s in stub.out[nrep:]]
            mr = vt.take_responses()
            if ur != mr:
                m = ("reply", f"urwid {ur} model {mr}")
        else:
            vt.take_responses()
        if m:
            return (i, m[0], m[1])
    if mode == "attr":
        return None
    m = compare_scrollback(t, vt, enc)
    if m is None and final_view:
        m = check_view(t, vt, enc, view_ks(case["h"], len(vt.scrollback)))
    if m:
        return (len(case["ops"]) - 1, m[0], m[1])
    return None


def view_ks(h, nsb):
    return sorted({1, max(1, h // 2), h, max(1, nsb - 1), max(1, nsb), nsb + 3})


def shrink_b(case, pred, budget=400):
    """ddmin-ish over ops then simplification of op arguments; pred(case)->bool"""
    n = [0]

    def ok(ops):
        n[0] += 1
        if n[0] > budget:
            return False
        return pred(dict(case, ops=ops))

    ops = [list(o) for o in case["ops"]]
    step = max(1, len(ops) // 2)
    while step >= 1:
        i = 0
        while i < len(ops) and len(ops) > 1:
            cand = ops[:i] + ops[i + step :]
            if cand and ok(cand):
                ops = cand
            else:
                i += step
        if step == 1:
            break
        step //= 2
    # one more single-removal pass from the end
    i = len(ops) - 1
    while i >= 0 and len(ops) > 1:
        cand = ops[:i] + ops[i + 1 :]
        if ok(cand):
            ops = cand
        i -= 1
    # shorten printed text / SGR lists
    for idx in range(len(ops)):
        op = ops[idx]
        if op[0] == "print":
            s = op[1]
            while len(s) > 1:
                for cand_s in (s[: len(s) // 2], s[len(s) // 2 :], s[:-1], s[1:]):
                    if cand_s and ok(ops[:idx] + [["print", cand_s]] + ops[idx + 1 :]):
                        s = cand_s
                        break
                else:
                    break
            plain = "".join(c if ord(c) < 128 else "x" for c in s)
            if plain != s and ok(ops[:idx] + [["print", plain]] + ops[idx + 1 :]):
                s = plain
            ops[idx] = ["print", s]
        elif op[0] == "SGR" and len(op[1]) > 1:
            ps = list(op[1])
            j = 0
            while j < len(ps) and len(ps) > 1:
                cand_p = ps[:j] + ps[j + 1 :]
                if ok(ops[:idx] + [["SGR", cand_p]] + ops[idx + 1 :]):
                    ps = cand_p
                else:
                    j += 1
            ops[idx] = ["SGR", ps]
    out = dict(case, ops=ops)
    if case.get("chunk") and pred(dict(out, chunk=0)):
        out["chunk"] = 0
    return out


def op_shape(op):
    k = op[0]
    if k == "SGR":
        return "SGR(" + ",".join("_" if v is None else (f"{v[0]}:{v[1]}" if isinstance(v, list) else str(v)) for v in op[1][:5]) + ")"
    if k in ("ED", "EL", "DSR"):
        return f"{k}{'' if op[1] is None else op[1]}"
    return k


def direct_sig(kind, msg):
    """mismatch kinds that name their mechanism themselves (exceptions)"""
    if kind.startswith("raise:"):
        return f"C15|B|{kind}|at={msg.rsplit(' in ', 1)[-1]}"
    if kind.startswith("view-raise:"):
        return f"C15|B|scrolled-view|content-{kind[5:]}"
    return None


def fallback_sig(case, kind):
    d = direct_sig(kind, "")
    if d and kind.startswith("view-raise:"):
        return d
    if kind in ("view", "view-cursor-outside", "scrollback:text"):
        # judged once at the end of a case: the last op says nothing about the mechanism
        return f"C15|B|diff|{kind}" + ("|width=1" if case["w"] == 1 else "") + ("|height=1" if case["h"] == 1 else "")
    # mechanism-level abstraction of the shrunk witness: the op after which the mismatch shows (with the class of its
    # count argument), the kinds of the other state-changing ops still needed (pure cursor motion is left out), and
    # the degenerate-size flags.  No literal values, sizes or texts.
    ops = case["ops"]
    last = ops[-1] if ops else ["?"]

    def argclass(op):
        if op[0] in ("print", "SGR", "CR", "LF", "BS", "IND", "RI", "NEL", "ED", "EL", "DSR"):
            return ""
        vals = [v for v in op[1:] if not isinstance(v, str)]
        return "(" + ",".join("_" if v is None else ("0" if v == 0 else ("1" if v == 1 else "n")) for v in vals) + ")"

    motion = {"CUP", "HVP", "CUF", "CUB", "CUU", "CUD", "CR", "BS"}
    others = sorted({op_shape(op) if op[0] in ("ED", "EL") else op[0] for op in ops[:-1] if op[0] not in motion})
    w1 = "|width=1" if case["w"] == 1 else ""
    h1 = "|height=1" if case["h"] == 1 else ""
    encs = "" if case["enc"] in ("utf8", "ascii") or all(ord(c) < 128 for op in ops if op[0] == "print" for c in op[1]) else f"|enc={case['enc']}"
    return f"C15|B|diff|{kind}|after={op_shape(last)}{argclass(last)}|with={'+'.join(others) or 'nothing'}{w1}{h1}{encs}"


def classify_b(case, ctx):
    """case: prefix ending in a mismatch vs the faithful model.  -> (sig, msg, witness)"""
    base = exec_b(case)
    if base is None or base[1] == "inadmissible":
        return None
    kind = base[1]

    def explained_by(c, quirks, enc_override=None):
        # the scrolled-back view is judged separately (its own signature), it must not mask an explanation
        r = exec_b(c, quirks, enc_override=enc_override, final_view=kind.startswith("view"))
        return r is None

    def single_quirks(c):
        return [q for q in active_quirks() if explained_by(c, {q})]

    d = direct_sig(kind, base[2])
    if d:
        if kind.startswith("view-raise:"):
            small = shrink_b(case, lambda c: (exec_b(c) or (0, ""))[1] == kind, budget=120)
            return (d, base[2], small)
        return (d, base[2], case)
    ex = single_quirks(case)
    if len(ex) == 1:
        return (f"C15|B|quirk={ex[0]}", f"{kind}: {base[2]} (agrees with the model under quirk {ex[0]!r})", case)
    if case["enc"] == "utf-8" and explained_by(case, (), enc_override="utf8"):
        return ("C15|B|utf8-assembly-disabled|encoding-name=utf-8", f"{kind}: {base[2]} (agrees when the encoding is spelled 'utf8')", case)
    # shrink, preserving "mismatch vs faithful of the same kind class"
    kclass = kind.split(":")[0]

    def pred(c):
        r = exec_b(c)
        return r is not None and r[1].split(":")[0] == kclass

    small = shrink_b(case, pred)
    r = exec_b(small)
    if r is None or r[1] == "inadmissible":
        small, r = case, base
    ex = single_quirks(small)
    if len(ex) >= 1:
        name = "+or+".join(ex) if len(ex) > 1 else ex[0]
        return (f"C15|B|quirk={name}", f"{r[1]}: {r[2]} (agrees with the model under quirk {name!r})", small)
    if small["enc"] == "utf-8" and explained_by(small, (), enc_override="utf8"):
        return ("C15|B|utf8-assembly-disabled|encoding-name=utf-8", f"{r[1]}: {r[2]}", small)
    if explained_by(small, set(active_quirks())):
        need = list(active_quirks())
        for q in list(need):
            trial = [x for x in need if x != q]
            if explained_by(small, set(trial)):
                need = trial
        # several known deviations are needed together: one report per mechanism
        return [(f"C15|B|quirk={q}", f"{r[1]}: {r[2]} (agrees with the model only with quirks {need} together)", small) for q in need]
    return (fallback_sig(small, r[1]), f"{r[1]}: {r[2]}", small)


# ---------------------------------------------------------------- SGR state ("part S"): SGR ops, each followed by one glyph

SGR_TAINT = "C15|B|sgr|palette-colour-corrupted-while-24bit-colour-in-effect"
SGR_BRIGHT = "C15|B|sgr|aixterm-bright-colour-dimmed-by-later-sgr"
SGR_ZERO = "C15|B|sgr|sequence-ending-in-colour-argument-0-resets-carried-state"


def exec_s(wit):
    """-> None | (index, kind, msg).  Every SGR op is followed by printing 'a'; the style of that cell is compared"""
    ops = wit["ops"]
    w = len(ops) + 2
    t, _stub = new_term(w, 1, False, wit.get("enc", "utf8"))
    vt = VT(w, 1)
    for i, op in enumerate(ops):
        data = render_b(op, "utf8") + b"a"
        try:
            t.addstr(data)
        except Exception as ex:  # noqa: BLE001
            return (i, f"raise:{type(ex).__name__}", f"{ex!r} in {innermost_vterm_frame(ex)}")
        vt.feed(data)
        d = style_diff(t.term[0][i][0], vt.cells[0][i], False)
        if d:
            return (i, d[0], f"after {[render_b(o, 'utf8') for o in ops[: i + 1]]}: {d[1]}")
    return None


def item_class(v):
    if isinstance(v, list):
        return ("fg" if v[0] == 38 else "bg") + ("RGB" if v[1] == 2 else "256")
    if v is None:
        return "_"
    if 30 <= v <= 37:
        return "fg8"
    if 40 <= v <= 47:
        return "bg8"
    if 90 <= v <= 97:
        return "fgBright"
    if 100 <= v <= 107:
        return "bgBright"
    return str(v)


def subst_items(wit, fn):
    return dict(wit, ops=[["SGR", [fn(v) for v in op[1]]] for op in wit["ops"]])


def shrink_s(wit, field):
    def pred(w2):
        r = exec_s(w2)
        return r is not None and r[1] == field

    ops = [["SGR", list(op[1])] for op in wit["ops"]]
    # cut after the failing op, drop ops, drop items
    r = exec_s(dict(wit, ops=ops))
    ops = ops[: r[0] + 1]
    i = len(ops) - 2
    while i >= 0:
        cand = ops[:i] + ops[i + 1 :]
        if pred(dict(wit, ops=cand)):
            ops = cand
        i -= 1
    for idx in range(len(ops)):
        j = 0
        while j < len(ops[idx][1]) and len(ops[idx][1]) > 1:
            cand = [list(o) for o in ops]
            cand[idx] = ["SGR", ops[idx][1][:j] + ops[idx][1][j + 1 :]]
            if pred(dict(wit, ops=cand)):
                ops = cand
            else:
                j += 1
    # canonical values: bright -> basic first, then fixed representatives
    def canon1(v):
        if isinstance(v, int) and (90 <= v <= 97 or 100 <= v <= 107):
            return v - 60
        return v

    def canon2(v):
        c = item_class(v)
        return {"fg8": 31, "bg8": 41, "fgBright": 91, "bgBright": 101, "fg256": [38, 5, 100], "bg256": [48, 5, 100], "fgRGB": [38, 2, 1, 2, 3], "bgRGB": [48, 2, 1, 2, 3]}.get(c, v)

    def canon_a(v):  # 24-bit -> 256-colour index
        return [v[0], 5, 100] if isinstance(v, list) and v[1] == 2 else v

    def canon_b(v):  # colour argument 0 -> non-zero
        if isinstance(v, list) and v[-1] == 0:
            return [*v[:-1], 16 if v[1] == 5 else 1]
        return v

    cur = dict(wit, ops=ops)
    for fn in (canon_a, canon_b, canon1, canon2):
        for idx in range(len(cur["ops"])):
            for j in range(len(cur["ops"][idx][1])):
                cand = dict(cur, ops=[["SGR", list(o[1])] for o in cur["ops"]])
                cand["ops"][idx][1][j] = fn(cand["ops"][idx][1][j])
                if pred(cand):
                    cur = cand
    return cur


def classify_s(wit):
    """wit: S-form witness with a mismatch.  -> (sig, msg, witness)"""
    r = exec_s(wit)
    if r is None:
        return None
    if r[1].startswith("raise:"):
        return (f"C15|B|sgr|{r[1]}|at={r[2].rsplit(' in ', 1)[-1]}", r[2], wit)
    small = shrink_s(wit, r[1])
    r = exec_s(small)
    classes = [[item_class(v) for v in op[1]] for op in small["ops"]]
    flat = [c for cl in classes for c in cl]

    def no_rgb(v):
        return [v[0], 5, 100] if isinstance(v, list) and v[1] == 2 else v

    def no_bright(v):
        if isinstance(v, int) and 90 <= v <= 97:
            return [38, 5, v - 90 + 8]
        if isinstance(v, int) and 100 <= v <= 107:
            return [48, 5, v - 100 + 8]
        return v

    def no_trailing_zero(w2):
        ops = []
        for op in w2["ops"]:
            items = [list(v) if isinstance(v, list) else v for v in op[1]]
            if items and isinstance(items[-1], list) and items[-1][-1] == 0:
                items[-1][-1] = 16 if items[-1][1] == 5 else 1  # 16 is black too; blue 1 instead of 0
            ops.append(["SGR", items])
        return dict(w2, ops=ops)

    if any(isinstance(op[1][-1], list) and op[1][-1][-1] == 0 for op in small["ops"] if op[1]):
        alt = no_trailing_zero(small)
        if exec_s(alt) is None:
            return (SGR_ZERO, f"{r[1]}: {r[2]} (disappears when the final 0 colour argument is replaced by a non-zero one)", small)
    has_rgb = any(c.endswith("RGB") for c in flat)
    has_bright = any(c.endswith("Bright") for c in flat)
    if has_rgb and exec_s(subst_items(small, no_rgb)) is None:
        return (SGR_TAINT, f"{r[1]}: {r[2]} (disappears when the 24-bit colour is replaced by a 256-colour index)", small)
    if has_bright and exec_s(subst_items(small, no_bright)) is None:
        return (SGR_BRIGHT, f"{r[1]}: {r[2]} (disappears when 9x/10x is replaced by the equivalent 38;5;8+n / 48;5;8+n)", small)
    if has_rgb and has_bright and exec_s(subst_items(subst_items(small, no_rgb), no_bright)) is None:
        return (SGR_TAINT + "+bright", f"{r[1]}: {r[2]}", small)
    shape = ">".join(",".join(cl) for cl in classes)
    return (f"C15|B|sgr|{r[1]}|items={shape}", f"{r[1]}: {r[2]}", small)


def classify_attr(pre, am, shrunk_seen):
    """pre: part-B prefix whose last op produced an attribute mismatch"""
    ops_since_reset = pre["ops"]
    for i in range(len(ops_since_reset) - 1, -1, -1):
        if ops_since_reset[i][0] == "RIS":  # RIS resets the rendition: only the SGR history after it matters
            ops_since_reset = ops_since_reset[i + 1 :]
            break
    sgr = [op for op in ops_since_reset if op[0] == "SGR"]
    if sgr:
        res = classify_s({"part": "S", "enc": "utf8", "ops": [["SGR", list(o[1])] for o in sgr]})
        if res:
            return res
    # not reproducible from the SGR history alone: grid mechanics are involved
    field = am[0]

    allq = set(active_quirks())

    def pred(c):
        r = exec_b(c, allq, mode="attr")
        if r is None or r[1] != field:
            return False
        return not (c["enc"] == "utf-8" and exec_b(c, allq, enc_override="utf8", mode="attr") is None)

    if not pred(pre):
        return None  # a consequence of a known grid deviation, not an attribute defect of its own
    if shrunk_seen.get("attr", 0) >= 8:
        return None
    shrunk_seen["attr"] = shrunk_seen.get("attr", 0) + 1
    small = shrink_b(pre, pred)
    r = exec_b(small, allq, mode="attr")
    if all(op[0] in ("SGR", "print") for op in small["ops"]):
        # the shrunk witness is a pure SGR history after all (the full one was interrupted by RIS / DECRC ...)
        res = classify_s({"part": "S", "enc": "utf8", "ops": [["SGR", list(o[1])] for o in small["ops"] if o[0] == "SGR"]})
        if res:
            return res
    return (fallback_sig(small, r[1]), f"{r[1]}: {r[2]}", dict(small, mode="attr"))


def gen_s_case(rng):
    ops = []
    for _ in range(rng.randint(1, 6)):
        ps = []
        for _ in range(rng.randint(1, 3)):
            q = rng.random()
            if q < 0.7:
                ps.append(rng.choice(SGR_B))
            elif q < 0.85:
                ps.append([rng.choice([38, 48]), 5, rng.choice([0, 1, 7, 8, 9, 15, 16, 100, 231, 232, 255])])
            else:
                ps.append([rng.choice([38, 48]), 2, rng.choice([0, 1, 128, 255]), rng.choice([0, 7, 255]), rng.choice([0, 200, 255])])
        ops.append(["SGR", ps])
    return {"part": "S", "enc": "utf8", "ops": ops}


def run_s(ctx, wit):
    r = exec_s(wit)
    ctx.count("S_sgr_ops_compared", len(wit["ops"]) if r is None else r[0] + 1)
    ctx.case(("S", wit["ops"]))
    if r is None:
        ctx.count("S_cases_agree")
        return
    res = classify_s(wit)
    if res:
        ctx.violation(*res)


def gen_d_op(rng, vt, st, enc):
    """part D: origin mode x several DECSTBM settings x probes (CUP to several rows, LF at the bottom margin, RI at the
    top margin, IL/DL, wrap at the last column, CPR)"""
    cols, rows = vt.cols, vt.rows
    top, bot = vt.scroll_region
    for _ in range(60):
        r = rng.random()
        if r < 0.07:
            op = ["DECOM", 0 if (vt.origin_mode and rng.random() < 0.6) else 1]
        elif r < 0.27:
            rr = rng.random()
            if rr < 0.12:
                op = ["STBM", None, None, "bare"]
            elif rr < 0.20:
                op = ["STBM", None, None]
            elif rr < 0.30 and rows >= 2:
                a = rng.randint(1, rows)
                op = ["STBM", a, rng.randint(1, a)]  # invalid: top >= bottom
            elif rows >= 2:
                kind = rng.random()
                if kind < 0.25 and bot - top >= 2:  # nested
                    a = rng.randint(top + 1, bot)
                    b = rng.randint(a + 1, bot + 1) if a + 1 <= bot + 1 else a + 1
                elif kind < 0.5:  # widening / overlapping upwards and downwards
                    a = rng.randint(1, max(1, top + 1))
                    b = rng.randint(min(rows, max(a + 1, bot + 1)), rows)
                elif kind < 0.7:  # disjoint if there is room, else anything
                    if top >= 2:
                        a = rng.randint(1, top - 1) if top - 1 >= 1 else 1
                        b = rng.randint(a + 1, top)
                    elif bot + 2 < rows:
                        a = rng.randint(bot + 2, rows - 1)
                        b = rng.randint(a + 1, rows)
                    else:
                        a = rng.randint(1, rows - 1)
                        b = rng.randint(a + 1, rows)
                else:
                    a = rng.randint(1, rows - 1)
                    b = rng.randint(a + 1, rows)
                b = min(max(b, a + 1), rows)
                op = ["STBM", rng.choice([a, a, a, None]) if a == 1 else a, rng.choice([b, b, b, None]) if b == rows else b]
            else:
                op = ["STBM", None, None]
        elif r < 0.47:
            rr = rng.random()
            if rr < 0.3:
                row = rng.choice([1, bot - top + 1, rows, top + 1, bot + 1])
            else:
                row = rng.randint(1, rows + 1)
            col = cols if rng.random() < 0.3 else rng.randint(1, cols)
            op = [rng.choice(["CUP", "CUP", "HVP"]), max(1, row), col]
        elif r < 0.55:
            op = ["LF"]
        elif r < 0.63:
            op = ["RI"]
        elif r < 0.67:
            op = [rng.choice(["IND", "NEL"])]
        elif r < 0.74:
            op = [rng.choice(["IL", "DL"]), gen_count(rng, rows)]
        elif r < 0.88:
            alpha = NARROW_TEXT[enc]
            n = rng.choice([1, 2, max(1, cols - vt.cursor[0]), cols - vt.cursor[0] + 1, cols + 1])
            op = ["print", "".join(rng.choice(alpha) for _ in range(max(1, n)))]
        elif r < 0.93:
            op = ["DSR", 6]
        elif r < 0.96:
            op = [rng.choice(["CUU", "CUD"]), gen_count(rng, rows)]
        elif r < 0.97:
            op = ["CR"]
        else:
            op = [rng.choice(["ED", "EL"]), rng.choice([0, 1, 2])]
        if admissible(op, vt, st):
            return op
    return ["CUP", 1, 1]


def count_d(ctx, op, vt):
    """coverage of the DECSTBM x origin-mode interaction, judged on the model state BEFORE the op"""
    if op[0] != "STBM":
        return
    t = op[1] or 1
    b = op[2] or vt.rows
    valid = t < b <= vt.rows
    ctx.count("D_decstbm_ops")
    if not valid:
        ctx.count("D_decstbm_invalid")
        return
    top, bot = vt.scroll_region
    if vt.origin_mode:
        ctx.count("D_decstbm_changes_under_origin_mode")
        if (top, bot) != (0, vt.rows - 1) and not (top <= t - 1 and b - 1 <= bot):
            ctx.count("D_decstbm_changes_under_origin_mode_not_nested")
            if t == 1 and b == vt.rows:
                ctx.count("D_decstbm_reset_under_origin_mode_from_subregion")


def count_c(ctx, op, st, vt):
    ctx.count("C_ops_compared")
    k = op[0]
    if k == "DECRC":
        ctx.count("C_decrc")
        if st.restores >= 1:
            ctx.count("C_decrc_again_without_new_save")
            if st.changed:
                ctx.count("C_decrc_again_after_charset_or_sgr_change")
    elif k in ("SO", "SI", "G0", "G1"):
        ctx.count("C_charset_ops")
    elif k == "print" and (vt.charset == "0" or vt.altfont):
        ctx.count("C_prints_in_graphics_or_alt_font")


def run_b_generated(ctx, rng, shrunk_seen, part_d=False, part_c=False):
    """generate one case in lock-step with the models"""
    w, h = rand_size(rng, big=rng.random() < 0.3)
    h = min(h, 12)
    if part_d:
        w, h = rng.randint(2, 10), rng.randint(3, 10)
    if part_c:
        w, h = rng.randint(2, 12), rng.randint(1, 5)
    enc = rng.choice(ENC_B)
    focus = rng.random() < 0.5
    chunk = rng.choice([0, 0, 0, 1, 2, 3, 7])
    case = {"part": "B", "w": w, "h": h, "focus": focus, "enc": enc, "chunk": chunk, "ops": []}
    t, stub = new_term(w, h, focus, enc)
    vf = model_for(case, BASE_QUIRKS)
    vq = model_for(case, BASE_QUIRKS | frozenset(active_quirks()))
    alive_f = alive_q = True
    attr_first = None
    st = GenState()
    nops = rng.randint(5, ctx.pick(45, 120))
    first = None
    for _ in range(nops):
        lead = vf if alive_f else vq
        op = (gen_d_op if part_d else (gen_c_op if part_c else gen_b_op))(rng, lead, st, enc)
        if st.pending and op[0] in PENDING_CLEARERS:
            ctx.count("B_pending_wrap_cleared_by_op")
            ctx.count(f"B_pending_cleared_by:{op[0]}")
        if part_c:
            count_c(ctx, op, st, lead)
        if part_d:
            count_d(ctx, op, lead)
            ctx.count("D_ops_compared")
            if lead.origin_mode:
                ctx.count("D_ops_under_origin_mode")
        case["ops"].append(op)
        data = render_b(op, enc)
        nrep = len(stub.out)
        try:
            feed_chunked(t, data, chunk)
        except Exception as ex:  # noqa: BLE001
            sig = f"C15|B|raise:{type(ex).__name__}|at={innermost_vterm_frame(ex)}"
            ctx.violation(sig, f"{ex!r}", dict(case))
            return
        ctx.count("B_ops_compared")
        ctx.count(f"B_op:{op[0]}")
        ur = [s.encode("latin-1", "replace") for s in stub.out[nrep:]]
        for alive, vt, which in ((alive_f, vf, "f"), (alive_q, vq, "q")):
            if not alive:
                continue
            vt.feed(data)
            mr = vt.take_responses()
            m, am = compare(t, vt, enc, want_attr=(attr_first is None and vt is lead))
            if am and attr_first is None:
                attr_first = (len(case["ops"]), am)
            if m is None and ur != mr:
                m = ("reply", f"urwid {ur} model {mr}")
            if m is None and mr:
                ctx.count("B_replies_compared", len(mr) if which == "f" or not alive_f else 0)
            if m:
                if which == "f":
                    alive_f = False
                    first = len(case["ops"])
                else:
                    alive_q = False
        after_op(op, st, lead)
        if lead.pending_wrap:
            ctx.count("B_pending_wrap_states")
        if not alive_f and not alive_q:
            break
    # end-of-case oracles under whichever model still tracks urwid
    endm = None
    if alive_f or alive_q:
        vt = vf if alive_f else vq
        endm = compare_scrollback(t, vt, enc, ctx) or check_view(t, vt, enc, view_ks(h, len(vt.scrollback)), ctx)
        if endm:
            if alive_f:
                alive_f = False
                first = len(case["ops"])
                # does the quirk model also fail at the end?
                if alive_q and (compare_scrollback(t, vq, enc) or check_view(t, vq, enc, view_ks(h, len(vq.scrollback)))):
                    alive_q = False
            else:
                alive_q = False
    ctx.case(("B", w, h, enc, focus, chunk, case["ops"]), nontrivial=bool(case["ops"]))
    if alive_f:
        ctx.count("B_cases_agree_to_end_faithful")
    if alive_q:
        ctx.count("B_cases_agree_to_end_under_quirk_model")
    elif alive_f:
        ctx.count("B_quirk_model_dropped_while_faithful_agrees")
    if attr_first is None:
        ctx.count("B_cases_attrs_agree_to_end")
    else:
        ctx.count("B_attr_mismatches")
        res = classify_attr(dict(case, ops=case["ops"][: attr_first[0]]), attr_first[1], shrunk_seen)
        if res:
            ctx.violation(*res)
    if first is not None:
        ctx.count("B_faithful_mismatches")
        pre = dict(case, ops=case["ops"][:first])
        res = classify_b(pre, ctx)
        for one in res if isinstance(res, list) else ([res] if res else []):
            ctx.violation(*one)
            ctx.count("B_classified:" + ("quirk" if "|quirk=" in one[0] or "utf8-assembly" in one[0] else "other"))
    if not alive_f and not alive_q:
        # unexplained even with every known quirk enabled: shrink against the all-quirks model
        ctx.count("B_unexplained_under_all_quirks")
        allq = set(active_quirks())

        def pred(c):
            r = exec_b(c, allq)
            if r is None or r[1] == "inadmissible":
                return False
            return not (c["enc"] == "utf-8" and exec_b(c, allq, enc_override="utf8", final_view=False) is None)

        r0 = exec_b(case, allq)
        if r0 is not None and r0[1].startswith("view-raise:"):
            # content() of the scrolled-back view raised: its own mechanism, no shrinking budget spent on it
            ctx.count("B_view_raised_at_end_of_case")
            ctx.violation(direct_sig(r0[1], r0[2]), f"{r0[1]}: {r0[2]}", dict(case, quirks="all"))
            return
        if pred(case):
            key = "allq"
            if shrunk_seen.get(key, 0) >= 12:
                ctx.count("B_unexplained_not_shrunk_not_reported")
                return
            shrunk_seen[key] = shrunk_seen.get(key, 0) + 1
            r0 = exec_b(case, allq)
            small = shrink_b(dict(case, ops=case["ops"][: r0[0] + 1]), pred, budget=700)
            r = exec_b(small, allq)
            if r is not None and r[1] != "inadmissible":
                if r[1].startswith("raise:"):
                    sig = f"C15|B|{r[1]}|at={r[2].rsplit(' in ', 1)[-1]}"
                else:
                    sig = fallback_sig(small, r[1])
                ctx.violation(sig, f"{r[1]}: {r[2]} (not explained by any named quirk)", dict(small, quirks="all"))


def replay_b(ctx, wit):
    if wit.get("part") == "S":
        run_s(ctx, dict(wit, ops=[["SGR", list(o[1])] for o in wit["ops"]]))
        return
    if wit.get("mode") == "attr":
        case = {k: v for k, v in wit.items() if k != "mode"}
        r = exec_b(case, set(active_quirks()), mode="attr")
        ctx.case(("B-replay", case["ops"]))
        if r is not None and all(op[0] in ("SGR", "print") for op in case["ops"]):
            res = classify_s({"part": "S", "enc": "utf8", "ops": [["SGR", list(o[1])] for o in case["ops"] if o[0] == "SGR"]})
            if res:
                ctx.violation(res[0], res[1], wit)
                return
        if r is not None:
            ctx.violation(fallback_sig(case, r[1]), f"{r[1]}: {r[2]}", wit)
        return
    case = {k: v for k, v in wit.items() if k != "quirks"}
    case["ops"] = [list(o) for o in case["ops"]]
    if wit.get("quirks") == "all":
        r = exec_b(case, set(active_quirks()))
        ctx.case(("B-replay", case["ops"]))
        if r is not None and r[1] != "inadmissible":
            if r[1].startswith("raise:"):
                sig = f"C15|B|{r[1]}|at={r[2].rsplit(' in ', 1)[-1]}"
            else:
                sig = fallback_sig(case, r[1])
            ctx.violation(sig, f"{r[1]}: {r[2]}", wit)
        return
    r = exec_b(case)
    ctx.case(("B-replay", case["ops"]))
    if r is None:
        return
    pre = dict(case, ops=case["ops"][: r[0] + 1]) if r[0] >= 0 else case
    res = classify_b(pre, ctx)
    for one in res if isinstance(res, list) else ([res] if res else []):
        ctx.violation(one[0], one[1], wit)


# =============================================================================== part K: chunking invariance
# A terminal consumes a serial byte stream; where the feeds are cut cannot matter.  The same stream is fed whole, one
# byte per addstr() and in random pieces; every observable (and the parser's carried state) must agree.


def k_snapshot(t, stub):
    cs = t.charset
    return {
        "grid": tuple(tuple(r) for r in t.term),
        "term_cursor": tuple(t.term_cursor),
        "canvas_cursor": t.cursor,
        "modes": tuple(sorted(vars(t.modes).items())),
        "scroll_region": (t.scrollregion_start, t.scrollregion_end),
        "scrollback": tuple(tuple(r) for r in t.scrollback_buffer),
        "replies": tuple(stub.out),
        "titles_beeps_leds": (tuple(stub.titles), stub.beeps, tuple(stub.ledl)),
        "charset": (tuple(cs._g), cs.active, cs.current, cs._sgr_mapping),
        "attrspec": t.attrspec,
        "tabstops": tuple(t.tabstops),
        "parser_state": (t.within_escape, t.parsestate, bytes(t.escbuf), t.utf8_eat_bytes),
    }


def k_pieces(stream, cuts):
    """cuts: None = whole, 1 = bytewise, list = piece sizes (cycled)"""
    if cuts is None:
        return [stream]
    if cuts == 1:
        return [stream[i : i + 1] for i in range(len(stream))]
    out, i, j = [], 0, 0
    while i < len(stream):
        k = max(1, cuts[j % len(cuts)])
        out.append(stream[i : i + k])
        i += k
        j += 1
    return out


def exec_k(wit):
    """-> None | ('raise', msg) | (component, msg)"""
    snaps = []
    for cuts in (None, 1, wit["cuts"]):
        t, stub = new_term(wit["w"], wit["h"], wit["focus"], wit["enc"])
        try:
            for piece in k_pieces(wit["stream"], cuts):
                t.addstr(piece)
        except Exception as ex:  # noqa: BLE001  (part A judges exceptions)
            return ("raise", f"{type(ex).__name__} in {innermost_vterm_frame(ex)}")
        snaps.append(k_snapshot(t, stub))
    names = ("whole", "bytewise", f"pieces{wit['cuts']}")
    for i in (1, 2):
        for comp in snaps[0]:
            if snaps[0][comp] != snaps[i][comp]:
                a, b = snaps[0][comp], snaps[i][comp]
                if comp in ("grid", "scrollback"):
                    y = next((y for y, (ra, rb) in enumerate(zip(a, b)) if ra != rb), None)
                    if y is not None:
                        a, b = b"".join(c[2] for c in a[y]), b"".join(c[2] for c in b[y])
                        return (comp, f"{comp} row {y}: fed {names[0]} -> {a!r}, fed {names[i]} -> {b!r}")
                return (comp, f"{comp}: fed {names[0]} -> {a!r}, fed {names[i]} -> {b!r}"[:600])
    return None


def shrink_k(wit, comp, budget=400):
    n = [0]

    def holds(stream):
        n[0] += 1
        if n[0] > budget or not stream:
            return False
        r = exec_k(dict(wit, stream=stream))
        return r is not None and r[0] == comp

    data = wit["stream"]
    step = max(1, len(data) // 2)
    while step >= 1 and n[0] <= budget:
        i = 0
        while i < len(data) and len(data) > 1:
            cand = data[:i] + data[i + step :]
            if holds(cand):
                data = cand
            else:
                i += step
        if step == 1:
            break
        step //= 2
    out = dict(wit, stream=data)
    if exec_k(dict(out, cuts=[len(data)])) is not None:
        out["cuts"] = [len(data)]
    return out


SWITCHES = [b"\x1b%G", b"\x1b%G", b"\x1b%@", b"\x1b%@", b"\x1b%8", b"\x1bc"]
HIGH_AFTER_SWITCH = ["ж", "λ€", "é", "漢", "Щx", "ñ"]


def gen_k_case(rng):
    w, h = rand_size(rng, big=False)
    enc = rng.choice(ENCODINGS_A)
    toks = []
    for _ in range(rng.randint(1, 10)):
        r = rng.random()
        if r < 0.35:
            # a main-charset switch (or RIS) immediately followed by multibyte UTF-8 and by 8-bit bytes
            toks.append(rng.choice(SWITCHES))
            for _ in range(rng.randint(1, 3)):
                if rng.random() < 0.6:
                    toks.append(rng.choice(HIGH_AFTER_SWITCH).encode("utf-8"))
                else:
                    toks.append(bytes(rng.randint(0xA0, 0xFF) for _ in range(rng.randint(1, 3))))
                if rng.random() < 0.4:
                    toks.append(bytes([rng.randint(0x20, 0x7E)]))
        else:
            toks.append(gen_token(rng, w, h, enc))
    stream = b"".join(toks)[:240]
    cuts = [rng.choice([1, 2, 3, 4, 5, 7, 11, 16]) for _ in range(rng.randint(1, 4))]
    return {"part": "K", "w": w, "h": h, "focus": rng.random() < 0.5, "enc": enc, "stream": stream, "cuts": cuts}


def run_k(ctx, wit, shrunk_seen):
    r = exec_k(wit)
    ctx.case(("K", wit["w"], wit["h"], wit["enc"], wit["stream"], wit["cuts"]), nontrivial=bool(wit["stream"]))
    if r is not None and r[0] == "raise":
        ctx.count("K_skipped_stream_raises")
        return
    ctx.count("K_streams_fed_three_ways")
    if any(sw in wit["stream"] for sw in (b"\x1b%G", b"\x1b%@", b"\x1b%8", b"\x1bc")):
        ctx.count("K_streams_with_charset_switch_or_ris")
        ctx.count(f"K_switch_enc:{wit['enc']}")
    if r is None:
        return
    if shrunk_seen.get("K:" + r[0], 0) < 3 and not ctx.replaying:
        shrunk_seen["K:" + r[0]] = shrunk_seen.get("K:" + r[0], 0) + 1
        small = shrink_k(wit, r[0])
        r2 = exec_k(small)
        if r2 is not None and r2[0] == r[0]:
            wit, r = small, r2
    ctx.violation(f"C15|K|chunking-changes-result|differs={r[0]}", r[1], wit)


# =============================================================================== part U: main character set switching
# differential against vt.py on: ASCII / multibyte UTF-8 (while UTF-8 is selected) / 8-bit bytes (while it is not),
# ESC % G, ESC % 8, ESC % @, RIS, CR, LF on terminals at least 2 columns wide.  The same op stream is fed op by op
# (compared after every op), in ONE addstr() call and one byte per call (compared at the end).

U_MB = "жЩλΩ€ğ"  # width 1, all above U+00FF (so a cell holding one is distinguishable from a raw 8-bit byte)
U_RAW = [b for b in range(0xA1, 0x100) if b != 0xAD]
U_ENC = ["utf8", "utf-8", "utf-8", "ascii", "iso8859-1", "koi8-r", "euc-jp"]


def u_model(case):
    if case["enc"] == "utf8":
        return VT(case["w"], case["h"], utf8=True, lock_utf8=True, quirks=BASE_QUIRKS)
    return VT(case["w"], case["h"], utf8=False, encoding="latin-1", quirks=BASE_QUIRKS)


def u_render(op):
    k = op[0]
    if k == "ascii":
        return op[1].encode("ascii")
    if k == "mb":
        return op[1].encode("utf-8")
    if k == "raw":
        return bytes(op[1])
    return {"UTF8ON": b"\x1b%G", "UTF8ON8": b"\x1b%8", "UTF8OFF": b"\x1b%@", "RIS": b"\x1bc", "CR": b"\r", "LF": b"\n"}[k]


def u_admissible(op, vt):
    if op[0] == "mb":
        return vt.utf8
    if op[0] == "raw":
        return not vt.utf8
    if vt.pending_wrap and op[0] == "LF":
        return False
    return True


def u_expected_bytes(ch, enc):
    if len(ch) == 1 and ord(ch) < 0x100:
        return bytes([ord(ch)])
    return ch.encode("utf-8" if enc in ("utf8", "utf-8") else enc, "replace")


def u_compare(t, vt, enc):
    for y in range(vt.rows):
        for x in range(vt.cols):
            exp = u_expected_bytes(vt.cells[y][x].ch, enc)
            if t.term[y][x][2] != exp:
                return ("glyph", f"cell ({x},{y}) urwid {t.term[y][x][2]!r} model {vt.cells[y][x].ch!r} = {exp!r}; urwid row {b''.join(c[2] for c in t.term[y])!r} model row {vt.row_text(y)!r}")
    if tuple(t.term_cursor) != vt.cursor:
        return ("cursor", f"urwid {tuple(t.term_cursor)} model {vt.cursor}")
    if len(t.scrollback_buffer) != len(vt.scrollback):
        return ("scrollback:count", f"urwid {len(t.scrollback_buffer)} model {len(vt.scrollback)}")
    return None


def exec_u(case, modes=("per-op", "whole", "bytewise")):
    """-> None | (feed mode, kind, msg) ; ('inadmissible',..) when an op does not fit the model's charset state"""
    enc = case["enc"]
    vt = u_model(case)
    stream = b""
    t = stub = None
    if "per-op" in modes:
        t, stub = new_term(case["w"], case["h"], False, enc)
    for i, op in enumerate(case["ops"]):
        if not u_admissible(op, vt):
            return ("inadmissible", "", f"op {i} {op}")
        data = u_render(op)
        stream += data
        vt.feed(data)
        if t is not None:
            try:
                t.addstr(data)
            except Exception as ex:  # noqa: BLE001
                return ("per-op", f"raise:{type(ex).__name__}", f"{ex!r} in {innermost_vterm_frame(ex)}")
            m = u_compare(t, vt, enc)
            if m:
                return ("per-op", m[0], f"after op {i} {op}: {m[1]}")
    for mode in ("whole", "bytewise"):
        if mode not in modes:
            continue
        t, stub = new_term(case["w"], case["h"], False, enc)
        try:
            for piece in k_pieces(stream, None if mode == "whole" else 1):
                t.addstr(piece)
        except Exception as ex:  # noqa: BLE001
            return (mode, f"raise:{type(ex).__name__}", f"{ex!r} in {innermost_vterm_frame(ex)}")
        m = u_compare(t, vt, enc)
        if m:
            return (mode, m[0], f"stream {stream!r}: {m[1]}")
    return None


def gen_u_case(rng, ctx=None):
    w, h = rng.randint(2, 12), rng.randint(1, 5)
    enc = rng.choice(U_ENC)
    case = {"part": "U", "w": w, "h": h, "enc": enc, "ops": []}
    vt = u_model(case)
    for _ in range(rng.randint(2, 14)):
        for _try in range(20):
            r = rng.random()
            if r < 0.22:
                op = ["ascii", "".join(rng.choice("abXY01 .-") for _ in range(rng.randint(1, 4)))]
            elif r < 0.42:
                op = ["mb", "".join(rng.choice(U_MB) for _ in range(rng.randint(1, 3)))]
            elif r < 0.60:
                op = ["raw", [rng.choice(U_RAW) for _ in range(rng.randint(1, 3))]]
            elif r < 0.70:
                op = ["UTF8ON"]
            elif r < 0.75:
                op = ["UTF8ON8"]
            elif r < 0.86:
                op = ["UTF8OFF"]
            elif r < 0.91:
                op = ["RIS"]
            elif r < 0.95:
                op = ["CR"]
            else:
                op = ["LF"]
            if u_admissible(op, vt):
                break
        else:
            op = ["CR"]
        case["ops"].append(op)
        vt.feed(u_render(op))
    return case


def shrink_u(case, mode, kind, budget=300):
    n = [0]

    def ok(ops):
        n[0] += 1
        if n[0] > budget or not ops:
            return False
        r = exec_u(dict(case, ops=ops), modes=(mode,))
        return r is not None and r[0] == mode and r[1] == kind

    ops = [list(o) for o in case["ops"]]
    i = len(ops) - 1
    while i >= 0 and len(ops) > 1:
        cand = ops[:i] + ops[i + 1 :]
        if ok(cand):
            ops = cand
        i -= 1
    for idx, op in enumerate(ops):
        if op[0] in ("ascii", "mb", "raw") and len(op[1]) > 1:
            cand = ops[:idx] + [[op[0], op[1][:1]]] + ops[idx + 1 :]
            if ok(cand):
                ops = cand
    return dict(case, ops=ops)


def u_enc_class(enc):
    return {"utf8": "utf8", "utf-8": "utf-8", "euc-jp": "wide"}.get(enc, "narrow")


def run_u(ctx, case, shrunk_seen):
    r = exec_u(case)
    ctx.case(("U", case["w"], case["h"], case["enc"], case["ops"]))
    if r is not None and r[0] == "inadmissible":
        return
    ctx.count("U_cases")
    ctx.count("U_ops_compared", len(case["ops"]))
    ctx.count("U_charset_switches", sum(1 for o in case["ops"] if o[0] in ("UTF8ON", "UTF8ON8", "UTF8OFF", "RIS")))
    ctx.count(f"U_enc:{u_enc_class(case['enc'])}")
    if r is None:
        ctx.count("U_cases_agree_all_feed_modes")
        return
    mode, kind = r[0], r[1]
    key = f"U:{mode}:{kind}"
    if shrunk_seen.get(key, 0) < 3 and not ctx.replaying:
        shrunk_seen[key] = shrunk_seen.get(key, 0) + 1
        small = shrink_u(case, mode, kind)
        r2 = exec_u(small, modes=(mode,))
        if r2 is not None and r2[0] == mode and r2[1] == kind:
            case, r = small, r2
    sig = f"C15|U|diff|{kind}|feed={mode}|enc={u_enc_class(case['enc'])}"
    if kind.startswith("raise:"):
        sig = f"C15|U|{kind}|at={r[2].rsplit(' in ', 1)[-1]}"
    ctx.violation(sig, f"{kind}: {r[2]}", case)


# =============================================================================== directed cases (from the design's probes)

DIRECTED = [
    {"part": "A", "w": 10, "h": 3, "focus": False, "enc": "utf8", "ops": [["feed", b"\x1b[38;2;999;0;0mX"]]},
    {"part": "A", "w": 10, "h": 3, "focus": False, "enc": "utf8", "ops": [["feed", b"\x1b[48;5;256mX"]]},
    {"part": "A", "w": 10, "h": 3, "focus": False, "enc": "ascii", "ops": [["feed", b"\x1b]0;\xff\x07"]]},
    {"part": "A", "w": 10, "h": 3, "focus": False, "enc": "utf8", "ops": [["feed", b"\x1b]0;\xe6\x07"]]},
    {"part": "A", "w": 10, "h": 3, "focus": True, "enc": "utf8", "ops": [["feed", b"\x1b[999C"]]},
    {"part": "A", "w": 10, "h": 3, "focus": True, "enc": "utf8", "ops": [["feed", b"\x1b[999B"]]},
    {"part": "A", "w": 10, "h": 3, "focus": True, "enc": "utf8", "ops": [["feed", b"\x1b[999;999H\x1b[6n"]]},
    {"part": "A", "w": 10, "h": 4, "focus": True, "enc": "utf8", "ops": [["feed", b"a\r\nb\r\nc\r\nd\r\ne\r\nf"], ["resize", 5, 2], ["scroll", True, 2], ["resize", 12, 6]]},
    {"part": "A", "w": 10, "h": 4, "focus": True, "enc": "utf8", "ops": [["feed", b"\x1b[2;3r\x1b[?6h\x1b[5;5H\x1b[6n"], ["resize", 3, 1], ["feed", b"\x1b[6n\n\n"]]},
    {"part": "A", "w": 8, "h": 3, "focus": False, "enc": "utf8", "ops": [["feed", b"\x1b[3g\t\x1bH"], ["resize", 30, 3], ["feed", b"\x1b[1;25H\x1bH\t\x1b[g"]]},
    {"part": "A", "w": 1, "h": 1, "focus": True, "enc": "utf8", "ops": [["feed", b"ab\ncd\x1b[5@\x1b[5P\x1b[5L\x1b[5M\x1bM\x1bD\t\x1b[J\x1b[1J\x1b[2J"]]},
    {"part": "A", "w": 10, "h": 3, "focus": False, "enc": "utf8", "ops": [["mega", b"\x1b[", b"7", 6000, b"C", 2], ["feed", b"\x1b[5C"]]},
    {"part": "A", "w": 10, "h": 3, "focus": True, "enc": "ascii", "ops": [["mega", b"\x9b?", b"1", 4301, b"h", 1], ["feed", b"m"]]},
    {"part": "A", "w": 10, "h": 3, "focus": True, "enc": "utf-8", "ops": [["mega", b"\x1b[1;", b"9", 10000, b";5H", 3], ["mega", b"\x1b[", b"1;", 6000, b"m", 1]]},
    {"part": "A", "w": 10, "h": 3, "focus": False, "enc": "euc-jp", "ops": [["mega", b"\x1b]0;", b"3", 20000, b"\x07", 2], ["mega", b"\x1bP", b"1", 5000, b"\x1b\\", 1], ["feed", b"\x1b[6n"]]},
    {"part": "A", "w": 10, "h": 3, "focus": False, "enc": "utf8", "ops": [["mega", b"\x1b[", b"9", 4301, b"@", 1], ["mega", b"\x1b[", b"1", 4302, b"L", 1], ["mega", b"\x1b[", b"1", 4300, b"X", 1]]},
    {"part": "K", "w": 10, "h": 3, "focus": False, "enc": "utf-8", "stream": b"\x1b%G\xd0\xb6x\x1b%@\xd0\xb6\xe9y\x1bc\xd0\xb6", "cuts": [4, 3]},
    {"part": "K", "w": 10, "h": 3, "focus": True, "enc": "koi8-r", "stream": b"ab\x1b%8\xe2\x82\xac\xce\xbb\x1b%@\xc0\xff\xa1z", "cuts": [5]},
    {"part": "K", "w": 6, "h": 2, "focus": False, "enc": "euc-jp", "stream": b"\xa4\xa2\x1b%G\xe6\xbc\xa2\xd0\xb6\x1bc\xa4\xa2\x1b%G\xce\xa9", "cuts": [2, 7]},
    {"part": "K", "w": 6, "h": 2, "focus": False, "enc": "utf8", "stream": b"\x1b%@\xd0\xb6\xe9\x1b%G\xd0\xb6\x1bc\xce\xbb", "cuts": [3]},
    {"part": "U", "w": 8, "h": 2, "enc": "utf-8", "ops": [["raw", [0xE9]], ["UTF8ON"], ["mb", "жλ"], ["UTF8OFF"], ["raw", [0xD0, 0xB6]], ["UTF8ON8"], ["mb", "€"], ["RIS"], ["raw", [0xC0]]]},
    {"part": "U", "w": 8, "h": 2, "enc": "iso8859-1", "ops": [["UTF8ON"], ["mb", "ж"], ["ascii", "a"], ["UTF8OFF"], ["raw", [0xFF, 0xA1]]]},
    {"part": "U", "w": 8, "h": 2, "enc": "euc-jp", "ops": [["raw", [0xA4, 0xA2]], ["UTF8ON"], ["mb", "жΩ"], ["RIS"], ["raw", [0xA4]]]},
    {"part": "U", "w": 8, "h": 2, "enc": "utf8", "ops": [["UTF8OFF"], ["mb", "жλ"], ["RIS"], ["mb", "€"]]},
    # several restores per save with charset / SGR changes in between; RIS and cursor motion from the pending-wrap state
    {"part": "B", "w": 8, "h": 2, "focus": False, "enc": "utf8", "chunk": 0, "ops": [["print", "ab"], ["DECSC"], ["DECRC"], ["SO"], ["print", "q"], ["DECRC"], ["print", "cd"], ["SGR", [31, 4]], ["SO"], ["DECRC"], ["print", "x"]]},
    {"part": "B", "w": 8, "h": 2, "focus": True, "enc": "ascii", "chunk": 1, "ops": [["G1", "0"], ["SGR", [32]], ["DECSC"], ["SO"], ["print", "lqk"], ["DECRC"], ["print", "lqk"], ["SGR", [11]], ["print", "a"], ["SGR", [10]], ["SO"], ["DECRC"], ["print", "t"], ["G0", "0"], ["G0", "B"], ["DECRC"], ["print", "u"]]},
    {"part": "B", "w": 5, "h": 3, "focus": False, "enc": "utf8", "chunk": 0, "ops": [["print", "hello"], ["RIS"], ["CUP", 2, 5], ["print", "X"], ["print", "y"]]},
    {"part": "B", "w": 5, "h": 3, "focus": False, "enc": "utf8", "chunk": 0, "ops": [["print", "hello"], ["CUU", 1], ["CUP", 2, 1], ["CUF", 9], ["print", "X"], ["CR"], ["print", "abcde"], ["CUB", 0], ["CUF", 1], ["print", "Z"]]},
    {"part": "B", "w": 1, "h": 3, "focus": False, "enc": "utf8", "chunk": 0, "ops": [["print", "a"], ["RIS"], ["print", "b"], ["print", "c"]]},
    # origin mode x successive DECSTBM settings (non-nested, widening, bare reset, invalid) x probes
    {"part": "B", "w": 6, "h": 8, "focus": False, "enc": "utf8", "chunk": 0, "ops": [["DECOM", 1], ["STBM", 3, 5], ["CUP", 1, 1], ["print", "a"], ["STBM", 2, 7], ["CUP", 1, 1], ["print", "b"], ["DSR", 6], ["CUP", 6, 6], ["print", "cd"], ["LF"], ["CUP", 1, 1], ["RI"], ["IL", 1], ["CUP", 9, 1], ["print", "e"], ["DL", 1], ["CUP", 1, 1]]},
    {"part": "B", "w": 5, "h": 6, "focus": True, "enc": "ascii", "chunk": 1, "ops": [["STBM", 2, 3], ["CUP", 1, 1], ["DECOM", 1], ["print", "a"], ["STBM", None, None, "bare"], ["CUP", 6, 1], ["print", "z"], ["LF"], ["CUP", 1, 1], ["RI"], ["DSR", 6]]},
    {"part": "B", "w": 4, "h": 7, "focus": False, "enc": "utf8", "chunk": 0, "ops": [["DECOM", 1], ["STBM", 5, 7], ["CUP", 1, 1], ["print", "a"], ["STBM", 1, 3], ["CUP", 3, 4], ["print", "bc"], ["STBM", 4, 2], ["CUP", 1, 1], ["print", "d"], ["DECOM", 0], ["CUP", 7, 1], ["print", "e"], ["LF"]]},
    {"part": "B", "w": 10, "h": 3, "focus": False, "enc": "utf8", "chunk": 0, "ops": [["print", "0123456789"], ["CUP", 1, 10], ["print", "X"]]},
    {"part": "B", "w": 10, "h": 3, "focus": False, "enc": "utf8", "chunk": 0, "ops": [["print", "abcdefghij"], ["CUP", 1, 4], ["ED", 1]]},
    {"part": "B", "w": 1, "h": 3, "focus": False, "enc": "utf8", "chunk": 0, "ops": [["print", "abc"]]},
    {"part": "B", "w": 5, "h": 4, "focus": False, "enc": "utf8", "chunk": 0, "ops": [["print", "a"], ["STBM", 2, 3], ["CUP", 3, 1], ["print", "b"], ["LF"]]},
]


def run_directed(ctx, wit, shrunk_seen):
    ctx.count("directed_cases")
    if wit["part"] == "K":
        run_k(ctx, wit, shrunk_seen)
    elif wit["part"] == "U":
        run_u(ctx, wit, shrunk_seen)
    elif wit["part"] == "A":
        sigs = run_a(ctx, wit)
        ctx.case(("A", wit["w"], wit["h"], wit["enc"], wit["focus"], wit["ops"]))
        if sigs:
            report_a(ctx, wit, sigs, shrunk_seen)
    else:
        replay_b(ctx, wit)


# =============================================================================== entry points


def run(ctx):
    vterm, util = _mods()
    saved_enc = util.get_encoding()
    T = vterm.TermCanvas
    reach.watch(
        T.addbyte, T.process_char, T.parse_escape, T.parse_csi, T.parse_noncsi, T.parse_osc, T.constrain_coords, T.set_term_cursor,
        T.push_cursor, T.scroll, T.linefeed, T.insert_chars, T.remove_chars, T.insert_lines, T.remove_lines, T.erase, T.resize,
        T.sgi_to_attrspec, T.csi_set_attr, T.content, T.scroll_buffer, T.csi_status_report, T.csi_set_scroll, T.tab,
    )  # fmt: skip
    shrunk_seen = {}
    try:
        active_quirks(ctx)
        for i, wit in enumerate(DIRECTED):
            if ctx.mine(i):
                run_directed(ctx, wit, shrunk_seen)
        ctx.sample(DIRECTED[0])
        rng = ctx.rng
        n = 0
        while ctx.more(1.0):
            n += 1
            if n % 4:
                wit = gen_a_case(rng, ctx.quick)
                sigs = run_a(ctx, wit)
                ctx.case(("A", wit["w"], wit["h"], wit["enc"], wit["focus"], wit["ops"]), nontrivial=bool(wit["ops"]))
                ctx.count("A_cases")
                ctx.count(f"A_enc:{wit['enc']}")
                if sigs:
                    report_a(ctx, wit, sigs, shrunk_seen)
                if n <= 3:
                    ctx.sample(wit)
            else:
                for _ in range(3):
                    run_b_generated(ctx, rng, shrunk_seen)
                    ctx.count("B_cases")
                for _ in range(2):
                    run_s(ctx, gen_s_case(rng))
                for _ in range(2):
                    run_b_generated(ctx, rng, shrunk_seen, part_d=True)
                    ctx.count("D_cases")
                for _ in range(2):
                    run_b_generated(ctx, rng, shrunk_seen, part_c=True)
                    ctx.count("C_cases")
                for _ in range(3):
                    run_k(ctx, gen_k_case(rng), shrunk_seen)
                for _ in range(3):
                    run_u(ctx, gen_u_case(rng), shrunk_seen)
    finally:
        util.set_encoding(saved_enc)
    reach.flush(ctx)


def replay(ctx, wit):
    vterm, util = _mods()
    saved_enc = util.get_encoding()
    try:
        wit = dict(wit)
        if wit.get("part") == "K":
            wit["cuts"] = list(wit["cuts"])
            run_k(ctx, wit, {})
        elif wit.get("part") == "U":
            wit["ops"] = [list(o) for o in wit["ops"]]
            run_u(ctx, wit, {})
        elif wit.get("part") == "A":
            wit["ops"] = [list(o) for o in wit["ops"]]
            sigs = run_a(ctx, wit)
            ctx.case(("A-replay", wit["ops"]))
            for sig, (msg, _i) in sigs.items():
                ctx.violation(sig, msg, wit)
        else:
            replay_b(ctx, wit)
    finally:
        util.set_encoding(saved_enc)
