"""C14 signals: history monitor.  A generated history of connect / disconnect (by args, by key) /
emit / widget triggers / weak-argument deaths is executed against the REAL urwid signal machinery;
every handler is an instrumented callable that logs (who, received args, returned value) at the
handler boundary and then performs its scripted behaviour (disconnect self / earlier / later, connect
new, emit recursively, kill a weak argument).  The recorded event tree is judged offline by the
independent reference model vmon/models/signals_ref.py.
"""

from __future__ import annotations

import gc
import itertools
import warnings
import weakref

from vmon import reach
from vmon.models import signals_ref

PROPERTY = "C14"
LEVEL = "exploration"
SHARDS = {"quick": 8, "thorough": 16}
BUDGET = {"quick": 25.0, "thorough": 420.0}
REQUIRE = {
    "model:family_metaclass_class_with_ordinary_ancestor_at_depth>=2": 20,
    "model:family_metaclass_class_with_ordinary_ancestor": 30,
    "model:family_ordinary_ancestor_classes": 60,
    "gc_core_histories": 450,
    "user_arg_core_histories": 3000,
    "api_calls_under_gc_pressure": 500,
    "api_calls_under_gc_pressure:by_key": 100,
    "api_calls_under_gc_pressure:disconnect": 100,
    "api_calls_under_gc_pressure:connect": 50,
    "api_calls_under_gc_pressure:emit": 150,
    "weak_arg_collected_inside_api_call": 150,
    "weak_arg_collected_inside_api_call:by_key": 20,
    "model:kill_by_automatic_gc": 300,
    "model:disc_args_while_same_callback_connected_with_other_user_arg": 5000,
    "model:disc_args_user_arg_omitted_while_connected_with_one": 1000,
    "model:disc_args_while_same_callback_connected_with_other_user_args": 250,
    "model:disc_args_hit_with_user_arg": 1500,
    "lazy_core_histories": 300,
    "lazy_iterable_consumed_in_connect": 1000,
    "lazy_iterable_consumed_in_disconnect": 400,
    "lazy_in_connect:kill": 300,
    "lazy_in_connect:disc_key": 150,
    "lazy_in_connect:connect": 150,
    "lazy_in_connect:emit": 150,
    "lazy_in_disconnect:kill": 150,
    "model:connections_made_with_reentrant_connect": 500,
    "family_cases": 300,
    "model:registration_probes": 15000,
    "model:registration_probes_must_accept": 2500,
    "model:registration_probes_must_reject": 10000,
    "model:registration_probes_must_reject_list_shared_with_later_class": 800,
    "model:family_class:shared": 200,
    "model:family_class:alias": 60,
    "model:family_class:absent": 150,
    "model:family_class_multiple_bases": 50,
    "model:family_manual_register": 100,
    "sender_lifetime_refcount_only_checks": 2000,
    "sender_lifetime_refcount_only_checks:live-weak-args-connection": 500,
    "sender_lifetime_refcount_only_checks:only-removed-weak-args-connections": 200,
    "sender_lifetime_refcount_only_checks:live-connections-without-weak-args": 200,
    "sender_lifetime_refcount_only_checks:only-removed-connections": 50,
    "sender_lifetime_conn_shape:w": 100,
    "sender_lifetime_conn_shape:ww": 100,
    "sender_lifetime_conn_shape:wu": 100,
    "sender_lifetime_conn_shape:wud": 100,
    "weak_arg_refcount_only_checks": 300,
    "lifetime_controls_ok": 17,
    "layout_core_histories": 5000,
    "layout_core_histories:slots": 1000,
    "layout_core_histories:slotsub": 1000,
    "layout_core_histories:slotsdict": 1000,
    "layout_core_histories:fwd": 1000,
    "layout_core_histories:prop": 1000,
    "sender:slots": 800,
    "sender:slotsub": 800,
    "sender:slotsdict": 800,
    "sender:fwd": 800,
    "sender:prop": 800,
    "histories": 6000,
    "model:emit": 15000,
    "model:emit_nested": 2000,
    "model:args_checked": 30000,
    "model:args_checked_weak": 5000,
    "model:args_checked_user_arg": 500,
    "model:required_called_once": 25000,
    "model:order_checked": 8000,
    "model:emits_with_removal_during": 3000,
    "model:emits_with_connect_during": 2000,
    "model:emits_with_weak_death_during": 400,
    "model:optional_calls": 100,
    "model:result_checked": 12000,
    "model:result_true_expected": 5000,
    "model:disc_args_hit": 2000,
    "model:disc_key_hit": 2000,
    "model:disc_not_connected": 2000,
    "model:connect_unregistered": 500,
    "model:kill_weak_dead": 2000,
    "model:kill_sender_dead": 500,
    "model:kill_dead_while_connected": 1000,
    "widget_triggers": 1000,
    "constructor_callback_connections": 200,
    "widget_trigger_calls": 1000,
    "api:module": 3000,
    "api:fresh": 3000,
    "reach:signals.Signals.emit": 15000,
    "reach:signals.Signals.disconnect_by_key": 5000,
    "reach:signals.Signals.connect.<locals>.weakref_callback": 1000,
    "reach:widget.widget.Widget._emit": 1000,
}
RULE = (
    "a case = one history (header: API flavour {module-level urwid.*_signal functions, fresh Signals()}, senders, weak pool; "
    "ops: connect(handler behaviour, weak_args, user_args, deprecated user_arg, callable style), reconnect duplicate, disconnect by "
    "args / by key / of something not connected, emit, widget trigger, kill object + gc.collect(), connect to unregistered name) "
    "executed on the real code and judged offline; enumerated core = 1..3 handlers (thorough: 4) on one signal x behaviour per "
    "handler in {plain, returns true, disconnect self, disconnect earlier, disconnect later, connect new, emit recursively, kill "
    "earlier weak arg, kill later weak arg} x {by key, by args} x {module, fresh} x {weak args, none} x every prefix of <=2 ops "
    "(quick: n=3 with <=1 op, n<=2 with <=2 ops; thorough adds n=4, its 2-op prefixes as far as 75% of the budget allows -- see "
    "core_complete_in_budget) + final emit; random histories of 5..40 ops over 3 senders x 2 names incl. real "
    "widgets (Button click, CheckBox/Edit change+postchange, SimpleListWalker/SimpleFocusListWalker modified, walker inside a "
    "ListBox); distinct = distinct (header, ops) descriptors; non-trivial = at least one emit executed; sender attribute layouts {slot, inherited slot + dict subclass, slot + __dict__, forwarding __getattr__/__setattr__, property} "
    "appear in random histories, in the refcount-only part and in their own n=2 core (every behaviour pair x <=1 op, then the sender is dropped)"
    "; the same callback is connected several times on one signal with differing deprecated positional user_arg / "
    "user_args / weak_args (connect_same) and disconnected by arguments with a matching, another or an omitted user_arg (own "
    "enumerated core: permutations of {depA, depB, omitted} x {weak, none} x {user_args, none} x 1-2 disconnect requests); the "
    "Button / CheckBox / RadioButton constructor shorthands (on_press= / on_state_change= + user_data=) are connect entry points; "
    "gc-pressure histories: weak arguments inside a reference cycle are dropped WITHOUT collecting and the following API calls "
    "run with the automatic collector armed to fire after k=0..5 container allocations, i.e. inside connect / disconnect / "
    "disconnect_by_key / emit (own core: dying handler position x call x k x API; the death is logged by a weakref callback "
    "at the exact point of the history where it happens)"
    "; weak_args / user_args are also passed as generators whose body performs ops (kill an earlier weak "
    "arg, disconnect, connect, emit, gc) INSIDE connect()/disconnect() -- enumerated (2 earlier handlers x op x position x "
    "iterable x API) and random; PLUS class families for the registration clause (MetaSignals classes with list literal / list "
    "object shared between classes / `signals = Other.signals` / no list, 0-2 bases, diamonds, duplicate names, plain classes and "
    "manual register_signal, ORDINARY (non-metaclass) ancestors carrying `signals` lists at depth 1..3 below a MetaSignals class -- plain "
    "class shadowing a plain grandparent's list, second mix-in of a list-less plain class, plain diamonds, lists shared between "
    "ordinary classes, metaclass classes between ordinary layers --, directed shapes in several creation orders (never skipped) + "
    "random families; expected registered set = union over the whole MRO of every class's own list, order-free): after every class creation or "
    "register call connect() is probed for every (class so far, name in {a,b,c,d,7,nope}); PLUS refcount-only lifetime "
    "cases (cyclic gc disabled, cycle-free senders {plain, falsy, MetaSignals subclass, int-named} and callbacks {function, object, "
    "bound method} that never refer to the sender): every connection shape {none,u,uu,d,ud,w,ww,www,wu,wwuu,wd,wud} x {connected, "
    "disconnected by key/args, emitted, emitted then disconnected, two signals, duplicate, one of two disconnected, bogus "
    "disconnects, weak arg dead (before/after emit, one of two), mixed} x API flavour, then random step lists; the weakref to the "
    "sender / weak argument must be dead immediately after the last outside reference is dropped"
)
ASSUMES = [
    "disconnect_signal(by arguments) on several identical connections removes the earliest one (one connection per call)",
    "a handler explicitly disconnected while an emit is running, or connected while it is running, may or may not be called by that emit (at most once)",
    "a connection whose weak argument dies during an emit must not be called after the death; calls before it are fine",
    "emit result is compared by truthiness; handler return values used: None, False, 0, '', True, 1, 'x', (0,)",
    "for widget triggers the emitted arguments follow the widget documentation: (widget, new value) for 'change', (widget, old value) for 'postchange', (widget,) for 'click', () for 'modified'",
    "registration: a class must accept the names in its own `signals` list as it was when the class was created plus everything its bases must accept (MetaSignals docstring), and must reject every other name (exact set; no tolerance band); classes created later never change this; a manual register_signal call replaces the set",
    "same-callback connections use user_arg values whose == agrees with identity ('depA', 'depB', 'dep2', 5, 'q'): urwid matches disconnect arguments with ==, so 0/False/1/True mixtures would be ambiguous and are not generated for one callback",
    "a weak argument that is unreachable but not yet collected counts as alive until its weakref callback fires; the automatic collector may fire anywhere",
    "ops run from inside connect()/disconnect() are ordered before the connection/disconnection they are nested in (the handler list is touched last by connect)",
    "refcount-only lifetime part: a sender class is used only if a never-connected instance of it dies by reference counting alone (control run first); whether a dead weak argument's connection also releases its callback is recorded as an observation (dead_weak_connection_callback_released/retained), not judged",
    "history part: liveness is judged after dropping the harness's own references and one gc.collect(); handlers never hold a strong reference to a sender or weak argument other than ones the history itself passes as user_args (never done)",
    "weak-argument objects use identity equality; a sender must be weak-referenceable and must be able to hold the attribute '_urwid_signals': ordinary __dict__, a slot of that name (own or inherited, with '__weakref__'), forwarding __getattr__/__setattr__, or a property of that name -- all five measured to work on the unchanged tree; slotted classes without '__weakref__' or without room for the attribute are outside the domain (connect raises TypeError / AttributeError)",
]

RETS = [None, False, 0, "", True, 1, "x", [0]]
MAXDEPTH = 3
MAXOPS = 250
MAXCALLS = 2500

# ------------------------------------------------------------------ sender classes (created once per process)

_CLASSES = {}


class WeakObj:
    def __init__(self, cyc):
        if cyc:
            self.me = self


def classes():
    if _CLASSES:
        return _CLASSES
    import urwid
    from urwid import signals as S

    class Plain:
        pass

    class Plain2:
        pass

    class Falsy:
        def __len__(self):
            return 0

    class Unreg:
        pass

    class MetaBase(metaclass=S.MetaSignals):
        signals = ["a"]

    class MetaSub(MetaBase):
        signals = ["b"]

    class MetaPlainSub(MetaSub):
        pass

    # ---- senders by attribute layout: where does the per-sender handler table live?
    # (measured on the unchanged tree: these five work; a slotted class WITHOUT '__weakref__' cannot be a sender at
    # all (connect takes a weak reference to it) and one without room for the attribute raises AttributeError)
    class Slots:
        __slots__ = ("_urwid_signals", "__weakref__")

    class SlotBase:
        __slots__ = ("_urwid_signals",)

    class SlotSub(SlotBase):  # has __dict__ and __weakref__, but the attribute is the base's slot
        pass

    class SlotsDict:
        __slots__ = ("_urwid_signals", "__dict__", "__weakref__")

    class Fwd:  # attribute access forwarded to an inner store
        def __init__(self):
            object.__setattr__(self, "_store", {})

        def __getattr__(self, n):
            try:
                return object.__getattribute__(self, "_store")[n]
            except KeyError:
                raise AttributeError(n) from None

        def __setattr__(self, n, v):
            self._store[n] = v

    class Prop:  # the attribute is a property kept under another name
        @property
        def _urwid_signals(self):
            try:
                return self.__dict__["_sig"]
            except KeyError:
                raise AttributeError("_urwid_signals") from None

        @_urwid_signals.setter
        def _urwid_signals(self, v):
            self.__dict__["_sig"] = v

    for c in (Slots, SlotSub, SlotsDict, Fwd, Prop):
        urwid.register_signal(c, ["a", "b"])
    _CLASSES.update(slots=(Slots, ["a", "b"]), slotsub=(SlotSub, ["a", "b"]), slotsdict=(SlotsDict, ["a", "b"]), fwd=(Fwd, ["a", "b"]), prop=(Prop, ["a", "b"]))
    urwid.register_signal(Plain, ["a", "b"])
    urwid.register_signal(Plain2, ["a", 7])
    urwid.register_signal(Falsy, ["a", "b"])
    _CLASSES.update(
        plain=(Plain, ["a", "b"]),
        plain2=(Plain2, ["a", 7]),
        falsy=(Falsy, ["a", "b"]),
        unreg=(Unreg, []),
        metabase=(MetaBase, ["a"]),
        metasub=(MetaSub, ["a", "b"]),
        metaplainsub=(MetaPlainSub, ["a", "b"]),
    )
    return _CLASSES


LAYOUT_KINDS = ["slots", "slotsub", "slotsdict", "fwd", "prop"]
FRESH_KINDS = ["plain", "plain2", "falsy", "unreg", *LAYOUT_KINDS]
MODULE_KINDS = ["plain", "plain2", "falsy", "unreg", "metabase", "metasub", "metaplainsub", *LAYOUT_KINDS]
WIDGET_KINDS = {
    "button": ["click"],
    "checkbox": ["change", "postchange"],
    "edit": ["change", "postchange"],
    "slw": ["modified"],
    "sflw": ["modified"],
    "slw_listbox": ["modified"],
    "button_cb": ["click"],  # Button(on_press=..., user_data=...): the constructor connects through the deprecated user_arg
    "checkbox_cb": ["change", "postchange"],  # CheckBox(on_state_change=..., user_data=...)
    "radio_cb": ["change", "postchange"],  # RadioButton(group, label, on_state_change=..., user_data=...)
}


def kind_names(kind):
    if kind in WIDGET_KINDS:
        return list(WIDGET_KINDS[kind])
    if kind in LAYOUT_KINDS:
        return ["a", "b"]
    return {"plain": ["a", "b"], "plain2": ["a", 7], "falsy": ["a", "b"], "unreg": [], "metabase": ["a"], "metasub": ["a", "b"], "metaplainsub": ["a", "b"]}[kind]


# ------------------------------------------------------------------ instrumented handler


class Handler:
    """bound to exactly one (sid, name) for its whole life, so every call names the signal it was made for"""

    def __init__(self, drv, hid, sid, name, ret, acts):
        self.drv = drv
        self.hid = hid
        self.sid = sid
        self.name = name
        self.ret = ret
        self.acts = acts
        self.cids = []
        self.func = lambda *a: drv.on_call(self, a)

    def __call__(self, *a):
        return self.drv.on_call(self, a)

    def meth(self, *a):
        return self.drv.on_call(self, a)

    def callable(self, style):
        if style == "obj":
            return self
        if style == "meth":
            return self.meth  # a fresh bound-method object on every access
        return self.func


class EmitFrame:
    def __init__(self, slots):
        self.slots = slots  # emit events in the order they are expected
        self.last = 0
        self.sink_depth = None  # len(session.sinks) while no handler of this emit is running

    def place(self, drv, rec):
        for i, ev in enumerate(self.slots):
            if ev["sid"] == rec["sid"] and signals_ref.canon(ev["name"]) == signals_ref.canon(rec["name"]):
                if i < self.last:
                    drv.findings.append(("trigger|order-across-signals", f"{ev['name']!r} handler called after a handler of the later signal {self.slots[self.last]['name']!r}"))
                self.last = max(self.last, i)
                ev["calls"].append(rec)
                return
        self.slots[self.last]["calls"].append(rec)


def nm(name):
    return tuple(name) if isinstance(name, list) else name


class Session:
    """executes one history on the real code, recording the event tree"""

    def __init__(self, header):
        import urwid
        from urwid import signals as S

        self.urwid = urwid
        self.header = header
        self.api = header["api"]
        self.sig = S.Signals() if self.api == "fresh" else None
        self.objs = {}
        self.ids = {}
        self.aux = {}
        self.kinds = {}
        self.handlers = []
        self.conns = []
        self.events = []
        self.sinks = [self.events]
        self.emit_stack = []
        self.pins = []
        self.findings = []
        self.api_now = []  # API calls currently running with the collector armed
        self.dying = {}  # oid -> weakref of an object whose last reference was dropped WITHOUT running the collector
        self.gck = list(header.get("gc_pressure") or [])  # k = 0: the collector is due at the first container allocation
        self.gci = 0
        if self.gck:
            self.gc_was = (gc.isenabled(), gc.get_threshold())
            gc.disable()
        self.nops = 0
        self.ncalls = 0
        self.nweak = 0
        self.counts = {}
        cl = classes()
        for sid, s in header["senders"].items():
            k = s["kind"]
            self.kinds[sid] = k
            if k in cl:
                cls, names = cl[k]
                if self.sig is not None and names:
                    self.sig.register(cls, names)
                o = cls()
            elif k == "button":
                o = urwid.Button("b")
            elif k == "checkbox":
                o = urwid.CheckBox("c", has_mixed=True)
            elif k in ("button_cb", "checkbox_cb", "radio_cb"):
                name = "click" if k == "button_cb" else "change"
                h = Handler(self, len(self.handlers), sid, name, None, [])
                self.handlers.append(h)
                if k == "button_cb":
                    o = urwid.Button("b", on_press=h.func, user_data="ud")
                elif k == "radio_cb":
                    o = urwid.RadioButton([], "r", state=False, on_state_change=h.func, user_data="ud")
                else:
                    o = urwid.CheckBox("c", has_mixed=True, on_state_change=h.func, user_data="ud")
                cid = len(self.conns)
                h.cids.append(cid)
                self.conns.append({"cid": cid, "key": None, "h": h, "sid": sid, "name": name, "weak": [], "uargs": [], "uarg": "ud", "style": "func"})
                self.events.append({"t": "connect", "cid": cid, "sid": sid, "name": name, "hid": h.hid, "weak": [], "uargs": [], "uarg": "ud", "exc": None})
                self.cnt("constructor_callback_connections")
            elif k == "edit":
                o = urwid.Edit("", "e0")
            elif k == "slw":
                o = urwid.SimpleListWalker([])
            elif k == "sflw":
                o = urwid.SimpleFocusListWalker([])
            elif k == "slw_listbox":
                o = urwid.SimpleListWalker([urwid.Text("x")])
                self.aux[sid] = urwid.ListBox(o)
            else:
                raise AssertionError(k)
            self.put(sid, o)
        for i in range(header.get("nweak", 0)):
            self.newweak()

    # ---- objects
    def put(self, oid, o):
        self.objs[oid] = o
        self.ids[id(o)] = oid

    def newweak(self):
        oid = f"w{self.nweak}"
        self.put(oid, WeakObj(self.nweak % 2 == 1 or bool(self.header.get("gc_pressure"))))
        self.nweak += 1

    def enc(self, x):
        oid = self.ids.get(id(x))
        if oid is not None and (self.objs.get(oid) is x or (oid in self.dying and self.dying[oid]() is x)):
            return {"o": oid}
        if x is None or isinstance(x, (bool, int, float, str)):
            return x
        if isinstance(x, (list, tuple)):
            return [self.enc(v) for v in x]
        return f"<{type(x).__name__}>"

    def dec(self, v):
        if isinstance(v, dict):
            return self.objs[v["o"]]
        return v

    def alive(self, *oids):
        return all(o in self.objs for o in oids)

    def cnt(self, k):
        self.counts[k] = self.counts.get(k, 0) + 1

    # ---- API flavour (looked up at call time)
    def f(self, what):
        if self.sig is not None:
            fn = getattr(self.sig, {"connect": "connect", "disconnect": "disconnect", "by_key": "disconnect_by_key", "emit": "emit"}[what])
        else:
            fn = getattr(self.urwid, {"connect": "connect_signal", "disconnect": "disconnect_signal", "by_key": "disconnect_signal_by_key", "emit": "emit_signal"}[what])
        if self.gck and any(r() is not None for r in self.dying.values()):
            return lambda *a, **kw: self.under_gc_pressure(fn, what, a, kw)
        return fn

    def under_gc_pressure(self, fn, what, a, kw):
        """run one API call with the automatic cycle collector armed to fire after k more container allocations,
        i.e. somewhere INSIDE the call, while unreachable weak arguments are waiting to be collected"""
        k = self.gck[self.gci % len(self.gck)]
        self.gci += 1
        self.cnt("api_calls_under_gc_pressure")
        self.cnt("api_calls_under_gc_pressure:" + what)
        before = sum(1 for r in self.dying.values() if r() is not None)
        self.api_now.append(what)
        gc.set_threshold(gc.get_count()[0] + k, 1, 1)
        gc.enable()
        try:
            return fn(*a, **kw)
        finally:
            gc.disable()
            self.api_now.pop()
            gc.set_threshold(*self.gc_was[1])
            if sum(1 for r in self.dying.values() if r() is not None) < before:
                self.cnt("weak_arg_collected_inside_api_call")
                self.cnt("weak_arg_collected_inside_api_call:" + what)

    def _died(self, oid):
        e = {"t": "kill", "oid": oid, "dead": True, "auto": True, "inside": self.api_now[-1] if self.api_now else None}
        self.ids = {i: o for i, o in self.ids.items() if o != oid}
        if self.emit_stack and len(self.sinks) == self.emit_stack[-1].sink_depth:
            fr = self.emit_stack[-1]
            fr.slots[fr.last]["calls"].append({"marker": e})  # between two handler calls of the running emit
        else:
            self.sinks[-1].append(e)

    def op_drop(self, op, h):
        """drop the last reference to a weak-argument object WITHOUT collecting: a cyclic one stays around as garbage
        until the collector runs (possibly in the middle of a later API call)"""
        oid = op[1]
        if oid not in self.objs or oid in self.header["senders"] or any(oid in p for p in self.pins):
            return
        o = self.objs.pop(oid)
        self.dying[oid] = weakref.ref(o, lambda r, oid=oid: self._died(oid))
        del o

    def finish(self):
        if self.gck:
            gc.collect()
            gc.set_threshold(*self.gc_was[1])
            if self.gc_was[0]:
                gc.enable()

    def ev(self, e):
        self.sinks[-1].append(e)

    # ---- handler boundary
    def on_call(self, h, a):
        rec = {"hid": h.hid, "sid": h.sid, "name": h.name, "got": [self.enc(x) for x in a], "ret": h.ret, "truthy": bool(h.ret), "sub": []}
        if not self.emit_stack:
            self.findings.append(("call-outside-emit", f"handler {h.hid} for ({h.sid},{h.name!r}) called while no emit/trigger was running"))
            return h.ret
        self.emit_stack[-1].place(self, rec)
        self.ncalls += 1
        self.sinks.append(rec["sub"])
        self.pins.append({o["o"] for o in rec["got"] if isinstance(o, dict)})
        try:
            for act in h.acts:
                self.do(act, h)
        finally:
            self.pins.pop()
            self.sinks.pop()
        ret = h.ret
        return tuple(ret) if isinstance(ret, list) else ret

    # ---- references to connections
    def ref(self, cref, h):
        if cref == "self":
            return self.conns[h.cids[0]] if h is not None and h.cids else None
        if not self.conns:
            return None
        return self.conns[cref % len(self.conns)]

    # ---- ops
    def run(self, ops):
        for op in ops:
            self.do(op, None)

    def do(self, op, h):
        self.nops += 1
        if self.nops > MAXOPS:
            return
        k = op[0]
        self.cnt("op:" + k)
        getattr(self, "op_" + k)(op, h)

    def _lazy(self, items, lazy, which, where):
        """the argument iterable handed to connect/disconnect: a generator whose body performs scripted
        ops (re-entrancy inside connect()/disconnect(): the iterables are consumed in there)"""
        if lazy is None or lazy.get("in") != which:
            return None
        at = lazy.get("at", 0)

        def gen():
            for i, x in enumerate(items):
                if i == at:
                    self._lazy_acts(lazy, where)
                yield x
            if at >= len(items):
                self._lazy_acts(lazy, where)

        return gen()

    def _lazy_acts(self, lazy, where):
        self.cnt(f"lazy_iterable_consumed_in_{where}")
        for act in lazy["acts"]:
            self.cnt(f"lazy_in_{where}:{act[0]}")
            self.do(act, None)

    def _connect(self, sid, name, handler, weak, uargs, uarg, style, lazy=None):
        if not self.alive(sid, *weak):
            return
        obj = self.objs[sid]
        cb = handler.callable(style)
        kw = {}
        wobjs = [self.objs[w] for w in weak]
        if weak:
            kw["weak_args"] = wobjs
        if uargs:
            kw["user_args"] = list(uargs) if len(uargs) % 2 else tuple(uargs)
        g = self._lazy(wobjs, lazy, "weak", "connect")
        if g is not None:
            kw["weak_args"] = g
        g = self._lazy(list(uargs), lazy, "user", "connect")
        if g is not None:
            kw["user_args"] = g
        pos = () if uarg is None else (uarg,)
        e = {"t": "connect", "cid": None, "sid": sid, "name": name, "hid": handler.hid, "weak": list(weak), "uargs": list(uargs), "uarg": uarg, "exc": None}
        self.pins.append({sid, *weak})  # the objects being handed over cannot be dropped by a re-entrant op
        n0 = self.counts.get("lazy_iterable_consumed_in_connect", 0)
        try:
            key = self.f("connect")(obj, nm(name), cb, *pos, **kw)
        except RecursionError:
            raise
        except Exception as ex:  # noqa: BLE001
            e["exc"] = type(ex).__name__
            e["cid"] = -1
            self.ev(e)
            return
        finally:
            self.pins.pop()
        # ops performed by a lazy iterable were logged (and numbered) before this connection exists
        e["cid"] = len(self.conns)
        if self.counts.get("lazy_iterable_consumed_in_connect", 0) > n0:
            e["reent"] = sorted({a[0] for a in lazy["acts"]})
        handler.cids.append(e["cid"])
        self.conns.append({"cid": e["cid"], "key": key, "h": handler, "sid": sid, "name": name, "weak": list(weak), "uargs": list(uargs), "uarg": uarg, "style": style})
        self.ev(e)

    def op_connect(self, op, h):
        _, sid, name, spec, weak, uargs, uarg, style = op[:8]
        lazy = op[8] if len(op) > 8 else None
        if not self.alive(sid, *weak):
            return
        handler = Handler(self, len(self.handlers), sid, name, spec["ret"], spec["acts"])
        self.handlers.append(handler)
        self._connect(sid, name, handler, weak, uargs, uarg, style, lazy)

    def op_connect_same(self, op, h):
        """the SAME callback as connection cref once more on the same signal, with some of its connect arguments changed"""
        c = self.ref(op[1], h)
        if c is None:
            return
        ov = op[2]
        self._connect(c["sid"], c["name"], c["h"], ov.get("weak", c["weak"]), ov.get("uargs", c["uargs"]), ov.get("uarg", c["uarg"]), c["style"])

    def op_reconnect(self, op, h):
        c = self.ref(op[1], h)
        if c is None:
            return
        self._connect(c["sid"], c["name"], c["h"], c["weak"], c["uargs"], c["uarg"], c["style"])

    def _disc_args(self, sid, name, cb, hid, weak, uargs, uarg, lazy=None):
        if not self.alive(sid, *weak):
            return
        kw = {}
        wobjs = tuple(self.objs[w] for w in weak)
        if weak:
            kw["weak_args"] = wobjs
        if uargs:
            kw["user_args"] = tuple(uargs) if len(uargs) % 2 else list(uargs)
        g = self._lazy(wobjs, lazy, "weak", "disconnect")
        if g is not None:
            kw["weak_args"] = g
        g = self._lazy(list(uargs), lazy, "user", "disconnect")
        if g is not None:
            kw["user_args"] = g
        pos = () if uarg is None else (uarg,)
        e = {"t": "disc_args", "sid": sid, "name": name, "hid": hid, "weak": list(weak), "uargs": list(uargs), "uarg": uarg, "exc": None}
        self.pins.append({sid, *weak})
        try:
            self.f("disconnect")(self.objs[sid], nm(name), cb, *pos, **kw)
        except RecursionError:
            raise
        except Exception as ex:  # noqa: BLE001
            e["exc"] = type(ex).__name__
        finally:
            self.pins.pop()
        self.ev(e)

    def op_disc_args(self, op, h):
        c = self.ref(op[1], h)
        if c is None:
            return
        lazy = op[2] if len(op) > 2 else None
        self._disc_args(c["sid"], c["name"], c["h"].callable(c["style"]), c["h"].hid, c["weak"], c["uargs"], c["uarg"], lazy)

    def _disc_key(self, sid, name, key, cid):
        if not self.alive(sid):
            return
        e = {"t": "disc_key", "sid": sid, "name": name, "cid": cid, "exc": None}
        try:
            self.f("by_key")(self.objs[sid], nm(name), key)
        except Exception as ex:  # noqa: BLE001
            e["exc"] = type(ex).__name__
        self.ev(e)

    def op_disc_key(self, op, h):
        c = self.ref(op[1], h)
        if c is None or c["key"] is None:
            return
        self._disc_key(c["sid"], c["name"], c["key"], c["cid"])

    def op_disc_bogus(self, op, h):
        _, sid, name, kind, cref = op
        if not self.alive(sid):
            return
        c = self.ref(cref, h)
        if kind == "fresh-callable":
            self._disc_args(sid, name, lambda *a: None, -1, [], [], None)
        elif kind == "fresh-key":
            from urwid.signals import Key

            self._disc_key(sid, name, Key(), None)
        elif c is None:
            return
        elif kind == "other-uarg":
            # same callback, same weak/user args, but another deprecated positional user_arg
            self._disc_args(c["sid"], c["name"], c["h"].callable(c["style"]), c["h"].hid, c["weak"], c["uargs"], "zz9" if c["uarg"] != "zz9" else "zz8")
        elif kind == "omit-uarg":
            self._disc_args(c["sid"], c["name"], c["h"].callable(c["style"]), c["h"].hid, c["weak"], c["uargs"], None if c["uarg"] is not None else "zz9")
        elif kind == "other-uargs":
            self._disc_args(c["sid"], c["name"], c["h"].callable(c["style"]), c["h"].hid, c["weak"], [*c["uargs"], "zz"], c["uarg"])
        elif kind == "no-weak":
            self._disc_args(c["sid"], c["name"], c["h"].callable(c["style"]), c["h"].hid, [], c["uargs"], c["uarg"])
        elif kind == "other-signal-key" and c["key"] is None:
            return
        elif kind == "other-signal-key":
            # the key of a connection used on (sid, name): only a hit when that is really its signal
            self._disc_key(sid, name, c["key"], c["cid"])
        elif kind == "other-signal-args":
            self._disc_args(sid, name, c["h"].callable(c["style"]), c["h"].hid, c["weak"], c["uargs"], c["uarg"])

    def op_emit(self, op, h):
        _, sid, name, args = op
        if len(self.emit_stack) >= MAXDEPTH or self.ncalls > MAXCALLS:
            return
        oids = [a["o"] for a in args if isinstance(a, dict)]
        if not self.alive(sid, *oids):
            return
        e = {"t": "emit", "sid": sid, "name": name, "args": list(args), "calls": [], "result": None, "result_truthy": False, "exc": None}
        self.ev(e)
        self.emit_stack.append(EmitFrame([e]))
        self.emit_stack[-1].sink_depth = len(self.sinks)
        self.pins.append({sid, *oids})
        try:
            r = self.f("emit")(self.objs[sid], nm(name), *[self.dec(a) for a in args])
            e["result"] = self.enc(r)
            e["result_truthy"] = bool(r)
        except RecursionError:
            raise
        except Exception as ex:  # noqa: BLE001
            e["exc"] = type(ex).__name__
        finally:
            self.pins.pop()
            self.emit_stack.pop()

    def op_trigger(self, op, h):
        _, sid, how = op
        if not self.alive(sid) or len(self.emit_stack) >= MAXDEPTH or self.ncalls > MAXCALLS:
            return
        kind = self.kinds[sid]
        w = self.objs[sid]
        me = {"o": sid}

        def E(name, args):
            return {"t": "emit", "sid": sid, "name": name, "args": args, "calls": [], "result": "n/a", "result_truthy": False, "exc": None}

        slots = None
        fn = None
        if kind in ("button", "button_cb"):
            slots = [E("click", [me])]
            if how % 2:
                fn = lambda: w.keypress((10,), "enter")  # noqa: E731
            else:
                fn = lambda: w.mouse_event((10,), "mouse press", 1, 1, 0, True)  # noqa: E731
        elif kind in ("slw", "sflw", "slw_listbox"):
            slots = [E("modified", [])]
            fn = lambda: w.append(self.urwid.Text("t"))  # noqa: E731
        elif self.emit_stack:
            return  # value-carrying widgets: only top-level triggers (old/new values are then unambiguous)
        elif kind == "edit":
            old = w.edit_text
            m = how % 4
            if m == 0:
                new = f"t{how}"
                fn = lambda: w.set_edit_text(new)  # noqa: E731
            elif m == 1:
                w.edit_pos = len(old)
                new = old + "k"
                fn = lambda: w.keypress((20,), "k")  # noqa: E731
            elif m == 2:
                w.edit_pos = 0
                new = "i" + old
                fn = lambda: w.insert_text("i")  # noqa: E731
            else:
                new = f"p{how}"

                def fn():
                    w.edit_text = new

            slots = [E("change", [me, new]), E("postchange", [me, old])]
        elif kind == "radio_cb":
            old = w.state
            new = not old
            fn = lambda: w.set_state(new)  # noqa: E731
            slots = [E("change", [me, new]), E("postchange", [me, old])]
        elif kind in ("checkbox", "checkbox_cb"):
            old = w.state
            m = how % 4
            if m == 3:
                # callbacks suppressed: no emit at all is expected
                new = not old if old in (True, False) else True
                self.emit_stack.append(EmitFrame([E("<none>", [])]))
                try:
                    w.set_state(new, do_callback=False)
                finally:
                    fr = self.emit_stack.pop()
                if fr.slots[0]["calls"]:
                    self.findings.append(("trigger|checkbox|callback-despite-do_callback=False", "handler called by set_state(..., do_callback=False)"))
                self.cnt("trigger_suppressed")
                return
            new = {False: True, True: "mixed", "mixed": False}[old]
            if m == 0:
                fn = w.toggle_state
            elif m == 1:
                fn = lambda: w.keypress((10,), " ")  # noqa: E731
            else:
                fn = lambda: w.set_state(new)  # noqa: E731
            slots = [E("change", [me, new]), E("postchange", [me, old])]
        else:
            return
        for e in slots:
            self.ev(e)
        self.emit_stack.append(EmitFrame(slots))
        self.emit_stack[-1].sink_depth = len(self.sinks)
        self.pins.append({sid})
        self.cnt("widget_triggers")
        try:
            fn()
        except RecursionError:
            raise
        except Exception as ex:  # noqa: BLE001
            slots[0]["exc"] = type(ex).__name__
        finally:
            self.pins.pop()
            self.emit_stack.pop()
        self.counts["widget_trigger_calls"] = self.counts.get("widget_trigger_calls", 0) + sum(len(e["calls"]) for e in slots)

    def op_newweak(self, op, h):
        self.newweak()

    def op_gc(self, op, h):
        gc.collect()
        self.ev({"t": "gc"})

    def op_kill(self, op, h):
        oid = op[1]
        if oid not in self.objs or any(oid in p for p in self.pins):
            return
        o = self.objs.pop(oid)
        self.ids.pop(id(o), None)
        wr = weakref.ref(o)
        self.aux.pop(oid, None)
        del o
        gc.collect()
        self.ev({"t": "kill", "oid": oid, "dead": wr() is None})


# ------------------------------------------------------------------ evaluation


def evaluate(wit):
    """run one history; returns (findings, stats, session)"""
    s = Session(wit["header"])
    try:
        s.run(wit["ops"])
    except RecursionError:
        return [("harness|recursion", "recursion limit")], {}, s
    finally:
        s.finish()
    findings, stats = signals_ref.check(wit["header"], s.events)
    return [*s.findings, *findings], stats, s


def family(sig):
    """signature without the list of list mutations seen during the emit (that part is recomputed after shrinking)"""
    return sig.split("|during:")[0]


def shrink(wit, fam, budget=150):
    """greedy: drop top-level ops, then handler acts, while a finding of the same family still reproduces"""

    def has(w):
        nonlocal budget
        budget -= 1
        try:
            fs, _, _ = evaluate(w)
        except Exception:  # noqa: BLE001
            return False
        return any(family(f[0]) == fam for f in fs)

    cur = wit
    changed = True
    while changed and budget > 0:
        changed = False
        i = len(cur["ops"]) - 1
        while i >= 0 and budget > 0:
            cand = {"header": cur["header"], "ops": cur["ops"][:i] + cur["ops"][i + 1 :]}
            if has(cand):
                cur = cand
                changed = True
            i -= 1
        # drop handler acts
        for i, op in enumerate(cur["ops"]):
            if op[0] == "connect" and op[3]["acts"] and budget > 0:
                for j in range(len(op[3]["acts"])):
                    spec = {"ret": op[3]["ret"], "acts": op[3]["acts"][:j] + op[3]["acts"][j + 1 :]}
                    nop = [*op[:3], spec, *op[4:]]
                    cand = {"header": cur["header"], "ops": cur["ops"][:i] + [nop] + cur["ops"][i + 1 :]}
                    if has(cand):
                        cur = cand
                        changed = True
                        break
    # drop unused senders / weak pool entries from the header
    used = signals_ref.canon(cur["ops"])
    hdr = dict(cur["header"])
    hdr["senders"] = {k: v for k, v in hdr["senders"].items() if f'"{k}"' in used} or cur["header"]["senders"]
    cand = {"header": hdr, "ops": cur["ops"]}
    if hdr != cur["header"] and has(cand):
        cur = cand
    return cur


_SHRUNK = {}


def judge(ctx, wit, count=True):
    try:
        findings, stats, s = evaluate(wit)
    except Exception as e:  # noqa: BLE001
        import traceback

        ctx.violation(f"C14|harness-or-urwid-exception|{type(e).__name__}", f"{type(e).__name__}: {e}\n{traceback.format_exc(limit=8)}", wit)
        return None
    if count:
        for k, v in stats.items():
            ctx.count("model:" + k, v)
        for k, v in s.counts.items():
            ctx.count(k, v)
        ctx.count("histories")
        ctx.count("api:" + wit["header"]["api"])
        for sid, k in s.kinds.items():
            ctx.count("sender:" + k)
        ctx.case(signals_ref.canon(wit), nontrivial=stats.get("emit", 0) > 0)
    seen = set()
    for sig, msg in findings:
        if sig in seen:
            continue
        seen.add(sig)
        if ctx.replaying:
            ctx.violation("C14|" + sig, msg, wit)
            continue
        n = _SHRUNK.get(sig, 0)
        _SHRUNK[sig] = n + 1
        if n >= 2:
            # this raw signature was already shrunk and reported (under the signature of its minimal form)
            ctx.count("violations_folded_into_shrunk_form")
            continue
        fam = family(sig)
        w = shrink(wit, fam)
        fs, _, _ = evaluate(w)
        hit = [f for f in fs if family(f[0]) == fam]
        if hit:
            ctx.violation("C14|" + hit[0][0], hit[0][1], w)
        else:
            ctx.violation("C14|" + sig, msg, wit)
    return s


# ------------------------------------------------------------------ exhaustive core

BEH = ["plain", "true", "disc_self", "disc_earlier", "disc_later", "connect_new", "emit_rec", "kill_earlier", "kill_later"]
STYLES = ["func", "meth", "obj"]


def beh_spec(b, i, n, disc, weakpat):
    """(ret, acts) or None when the behaviour does not exist at this position"""
    if b == "plain":
        return None, []
    if b == "true":
        return (True if i % 2 else "x"), []
    if b == "disc_self":
        return None, [[disc, i]]
    if b == "disc_earlier":
        return (None, [[disc, i - 1]]) if i > 0 else None
    if b == "disc_later":
        return (None, [[disc, i + 1]]) if i < n - 1 else None
    if b == "connect_new":
        return None, [["connect", "s0", "a", {"ret": None, "acts": []}, [], ["new"], None, "func"]]
    if b == "emit_rec":
        return None, [["emit", "s0", "a", ["r"]]]
    if b == "kill_earlier":
        return (None, [["kill", f"w{i - 1}"]]) if (weakpat and i > 0) else None
    if b == "kill_later":
        return (None, [["kill", f"w{i + 1}"]]) if (weakpat and i < n - 1) else None
    raise AssertionError(b)


def core_prefix_universe(n, disc, weakpat):
    u = [["emit", "s0", "a", ["p"]]]
    u += [[disc, i] for i in range(n)]
    u.append(["connect", "s0", "a", {"ret": 1, "acts": []}, [], ["late"], None, "meth"])
    if weakpat:
        u += [["kill", f"w{i}"] for i in range(n)]
    u.append(["disc_bogus", "s0", "a", "fresh-callable", 0])
    u.append(["reconnect", 0])
    return u


def core_cases(n, maxprefix, minprefix=0, kind="plain"):
    """yield witnesses of the exhaustive core for n handlers with minprefix..maxprefix ops before the final emit"""
    for api, disc, weakpat in itertools.product(("module", "fresh"), ("disc_key", "disc_args"), (0, 1)):
        header = {"api": api, "senders": {"s0": {"kind": kind, "names": ["a", "b"]}}, "nweak": n if weakpat else 0}
        uni = core_prefix_universe(n, disc, weakpat)
        prefixes = []
        for d in range(minprefix, maxprefix + 1):
            prefixes += [list(p) for p in itertools.product(uni, repeat=d)]
        for combo in itertools.product(BEH, repeat=n):
            specs = [beh_spec(b, i, n, disc, weakpat) for i, b in enumerate(combo)]
            if any(s is None for s in specs):
                continue
            conn = [
                ["connect", "s0", "a", {"ret": ret, "acts": acts}, [f"w{i}"] if weakpat else [], [f"h{i}"], None, STYLES[i % 3]]
                for i, (ret, acts) in enumerate(specs)
            ]
            for p in prefixes:
                yield {"header": header, "ops": [*conn, *p, ["emit", "s0", "a", ["x", 1]]]}


def uarg_core_cases():
    """one callback connected several times on one signal with differing deprecated positional user_arg (and the same
    weak_args / user_args); then disconnects by arguments with a matching / another / an omitted user_arg"""
    vals = ["depA", "depB", None]
    for api, wk, ua in itertools.product(("module", "fresh"), (0, 1), (0, 1)):
        header = {"api": api, "senders": {"s0": {"kind": "plain", "names": ["a", "b"]}}, "nweak": 1}
        weak = ["w0"] if wk else []
        uargs = ["u"] if ua else []
        for size in (1, 2, 3):
            for perm in itertools.permutations(vals, size):
                conn = [["connect", "s0", "a", {"ret": None, "acts": []}, weak, uargs, perm[0], "func"]]
                conn += [["connect_same", 0, {"uarg": v}] for v in perm[1:]]
                conn.append(["connect", "s0", "a", {"ret": 1, "acts": []}, weak, uargs, perm[0], "meth"])  # another callback, same args
                discs = [["disc_args", k] for k in range(size)]
                discs += [["disc_bogus", "s0", "a", "other-uarg", 0], ["disc_bogus", "s0", "a", "omit-uarg", 0], ["disc_bogus", "s0", "a", "other-uarg", size - 1]]
                for d1 in discs:
                    for d2 in [None, *discs]:
                        ops = [*conn, d1, ["emit", "s0", "a", ["x"]]]
                        if d2 is not None:
                            ops += [d2, ["emit", "s0", "a", ["y"]]]
                        yield {"header": header, "ops": ops}


def gc_core_cases():
    """a weak argument that is unreachable but not yet collected (member of a reference cycle) while the next API call
    runs with the automatic collector armed to fire after k container allocations, i.e. inside that call"""
    for api in ("module", "fresh"):
        for p, k in itertools.product(range(4), range(0, 6)):
            header = {"api": api, "senders": {"s0": {"kind": "plain", "names": ["a", "b"]}}, "nweak": 2, "gc_pressure": [k]}
            conn = [["connect", "s0", "a", {"ret": None, "acts": []}, ["w0"] if i == p else [], [f"h{i}"], None, STYLES[i % 3]] for i in range(4)]
            calls = [["disc_key", j] for j in range(4)] + [["disc_args", j] for j in range(4)]
            calls += [
                ["disc_bogus", "s0", "a", "fresh-key", 0],
                ["disc_bogus", "s0", "a", "fresh-callable", 0],
                ["connect", "s0", "a", {"ret": 1, "acts": []}, ["w1"], ["new"], None, "func"],
                ["emit", "s0", "a", ["g"]],
            ]
            for c in calls:
                yield {"header": header, "ops": [*conn, ["drop", "w0"], c, ["emit", "s0", "a", ["x"]]]}


def lazy_core_cases():
    """re-entrancy inside connect() / disconnect(): the weak_args / user_args iterable performs one op while it is consumed"""
    plain_new = ["connect", "s0", "a", {"ret": None, "acts": []}, [], ["nested"], None, "func"]
    acts = [
        ["kill", "w0"],
        ["kill", "w1"],
        ["disc_key", 0],
        ["disc_args", 0],
        ["disc_key", 1],
        plain_new,
        ["emit", "s0", "a", ["in"]],
        ["gc"],
        ["reconnect", 0],
    ]
    for api in ("module", "fresh"):
        header = {"api": api, "senders": {"s0": {"kind": "plain", "names": ["a", "b"]}}, "nweak": 3}
        for second_weak, new_weak, where, at, act in itertools.product((0, 1), (0, 1), ("weak", "user"), (0, 9), acts):
            base = [
                ["connect", "s0", "a", {"ret": None, "acts": []}, ["w0"], ["h0"], None, "func"],
                ["connect", "s0", "a", {"ret": 1, "acts": []}, ["w1"] if second_weak else [], ["h1"], None, "meth"],
            ]
            lazy = {"in": where, "at": at, "acts": [act]}
            yield {
                "header": header,
                "ops": [
                    *base,
                    ["connect", "s0", "a", {"ret": None, "acts": []}, ["w2"] if new_weak else [], ["new"], None, "obj", lazy],
                    ["emit", "s0", "a", ["x"]],
                    ["disc_key", -1],
                    ["emit", "s0", "a", ["y"]],
                ],
            }
            if new_weak == 0:
                yield {"header": header, "ops": [*base, ["disc_args", 1, lazy], ["emit", "s0", "a", ["x"]], ["disc_args", 0, lazy], ["emit", "s0", "a", ["y"]]]}


# ------------------------------------------------------------------ random histories


def rand_spec(rng, sids, names_of, depth, nweak):
    acts = []
    if depth < 2:
        for _ in range(rng.choice([0, 0, 1, 1, 1, 2])):
            acts.append(rand_act(rng, sids, names_of, depth + 1, nweak))
    return {"ret": rng.choice(RETS), "acts": acts}


def rand_name(rng, sid, names_of, p_bad=0.08):
    names = names_of[sid]
    if not names or rng.random() < p_bad:
        return rng.choice(["nope", "a", 7, "click"])
    return rng.choice(names)


def rand_connect(rng, sids, names_of, depth, nweak, sid=None, name=None):
    sid = sid or rng.choice(sids)
    name = name if name is not None else rand_name(rng, sid, names_of)
    weak = []
    r = rng.random()
    if r < 0.45:
        pool = [f"w{i}" for i in range(nweak)] + sids
        weak = [rng.choice(pool) for _ in range(1 if r < 0.35 else 2)]
    uargs = [rng.choice(["u", 3, "v", None]) for _ in range(rng.choice([0, 0, 1, 1, 2]))]
    uarg = rng.choice([None, None, None, None, "dep", 0, False])
    op = ["connect", sid, name, rand_spec(rng, sids, names_of, depth, nweak), weak, uargs, uarg, rng.choice(STYLES)]
    if depth < 2 and rng.random() < 0.15:
        op.append(rand_lazy(rng, sids, names_of, nweak, sid, name))
    return op


def rand_lazy(rng, sids, names_of, nweak, sid, name):
    """ops performed from inside connect()/disconnect() while it consumes weak_args / user_args"""
    acts = []
    for _ in range(rng.choice([1, 1, 2])):
        r = rng.random()
        cref = rng.randrange(0, 40)
        if r < 0.35:
            acts.append(["kill", f"w{rng.randrange(max(1, nweak))}"])
        elif r < 0.50:
            acts.append(["disc_key", cref])
        elif r < 0.62:
            acts.append(["disc_args", cref])
        elif r < 0.75:
            acts.append(rand_connect(rng, sids, names_of, 2, nweak, sid, name))
        elif r < 0.90:
            acts.append(["emit", sid, name, [] if name == "modified" else ["z"]])
        elif r < 0.95:
            acts.append(["reconnect", cref])
        else:
            acts.append(["gc"])
    return {"in": rng.choice(["weak", "user"]), "at": rng.randrange(0, 3), "acts": acts}


def rand_act(rng, sids, names_of, depth, nweak):
    """an op performed by a handler body"""
    r = rng.random()
    cref = rng.choice(["self", "self", rng.randrange(0, 40)])
    if r < 0.22:
        return ["disc_key", cref]
    if r < 0.44:
        return ["disc_args", cref]
    if r < 0.58:
        return rand_connect(rng, sids, names_of, depth, nweak)
    if r < 0.72:
        sid = rng.choice(sids)
        name = rand_name(rng, sid, names_of, 0.02)
        return ["emit", sid, name, [] if name == "modified" else [rng.choice(["n", 5])]]
    if r < 0.78:
        return ["trigger", rng.choice(sids), rng.randrange(8)]
    if r < 0.92:
        return ["kill", rng.choice([f"w{rng.randrange(max(1, nweak))}", rng.choice(sids)] + [f"w{rng.randrange(max(1, nweak))}"] * 3)]
    if r < 0.96:
        return ["reconnect", cref]
    return ["gc"]


def rand_history(rng, quick):
    api = rng.choice(["module", "fresh"])
    if api == "fresh":
        kinds = [rng.choice(FRESH_KINDS if rng.random() < 0.15 else ["plain", "plain2", "falsy", *LAYOUT_KINDS]) for _ in range(3)]
    else:
        r = rng.random()
        if r < 0.45:
            pool = list(WIDGET_KINDS)
        elif r < 0.8:
            pool = list(WIDGET_KINDS) + MODULE_KINDS
        else:
            pool = MODULE_KINDS
        kinds = [rng.choice(pool) for _ in range(3)]
    senders = {f"s{i}": {"kind": k, "names": kind_names(k)} for i, k in enumerate(kinds)}
    nweak = rng.randint(1, 4)
    header = {"api": api, "senders": senders, "nweak": nweak}
    pressure = rng.random() < 0.2
    if pressure:
        header["gc_pressure"] = [rng.choice([0, 0, 0, 1, 1, 2, 3, 5]) for _ in range(rng.randint(1, 5))]
    sids = list(senders)
    names_of = {sid: s["names"] for sid, s in senders.items()}
    ops = []
    focus_sid = rng.choice(sids)  # concentrate on one signal so handler lists get long enough to interact
    focus_name = rand_name(rng, focus_sid, names_of, 0.0)
    for _ in range(rng.randint(5, 40)):
        r = rng.random()
        cref = rng.randrange(0, 40)
        if r < 0.34:
            if rng.random() < 0.6:
                ops.append(rand_connect(rng, sids, names_of, 0, nweak, focus_sid, focus_name))
            else:
                ops.append(rand_connect(rng, sids, names_of, 0, nweak))
        elif r < 0.37:
            ops.append(["reconnect", cref])
        elif r < 0.40:
            ops.append(["connect_same", cref, rng.choice([{"uarg": rng.choice(["dep2", 5, "q", None])}, {"uarg": rng.choice(["dep2", 5, None])}, {"uargs": [rng.choice(["u2", 4])]}, {"weak": []}])])
        elif r < 0.47:
            ops.append(["disc_args", cref] + ([rand_lazy(rng, sids, names_of, nweak, focus_sid, focus_name)] if rng.random() < 0.2 else []))
        elif r < 0.54:
            ops.append(["disc_key", cref])
        elif r < 0.60:
            sid = rng.choice(sids)
            ops.append(
                ["disc_bogus", sid, rand_name(rng, sid, names_of, 0.2), rng.choice(["fresh-callable", "fresh-key", "other-uargs", "other-uarg", "other-uarg", "omit-uarg", "omit-uarg", "no-weak", "other-signal-key", "other-signal-args"]), cref]
            )
        elif r < 0.80:
            if rng.random() < 0.6:
                sid, name = focus_sid, focus_name
            else:
                sid = rng.choice(sids)
                name = rand_name(rng, sid, names_of, 0.03)
            args = [rng.choice(["e", 9, None, {"o": rng.choice(sids)}]) for _ in range(rng.choice([0, 1, 1, 2]))]
            if senders[sid]["kind"] in ("slw", "sflw", "slw_listbox"):
                args = []  # a ListBox connects its own zero-argument handler to 'modified'
            if senders[sid]["kind"] in WIDGET_KINDS and rng.random() < 0.7:
                ops.append(["trigger", sid, rng.randrange(16)])
            else:
                ops.append(["emit", sid, name, args])
        elif r < 0.86:
            ops.append(["trigger", rng.choice(sids), rng.randrange(16)])
        elif r < 0.95:
            if pressure and rng.random() < 0.7:
                ops.append(["drop", f"w{rng.randrange(nweak + 1)}"])
            else:
                ops.append(["kill", rng.choice([f"w{rng.randrange(nweak + 1)}"] * 4 + sids)])
        elif r < 0.98:
            ops.append(["newweak"])
            nweak += 1
        else:
            ops.append(["gc"])
    return {"header": header, "ops": ops}


def kill_sweep(rng, base):
    """the same history with one weak argument / sender killed at every history point"""
    oid = rng.choice([f"w{i}" for i in range(base["header"]["nweak"])] + list(base["header"]["senders"]))
    for i in range(len(base["ops"]) + 1):
        yield {"header": base["header"], "ops": base["ops"][:i] + [["kill", oid]] + base["ops"][i:]}


# ------------------------------------------------------------------ entry points


def setup():
    warnings.simplefilter("ignore")
    classes()
    import urwid
    from urwid import signals as S
    from urwid.widget.widget import Widget

    gc.collect()
    gc.freeze()  # everything imported so far is immortal anyway; keeps gc.collect() in the workload cheap
    reach.watch(
        S.Signals.emit,
        S.Signals.connect,
        S.Signals.disconnect,
        S.Signals.disconnect_by_key,
        S.Signals._call_callback,
        S.Signals.register,
        Widget._emit,
        urwid.ListWalker._modified,
    )
    # weakref_callback is a closure: watch its code object (a constant of connect's code)
    import types

    for c in S.Signals.connect.__code__.co_consts:
        if isinstance(c, types.CodeType) and c.co_name == "weakref_callback":
            reach.watch(types.FunctionType(c, {"__name__": "urwid.signals"}, "weakref_callback", None, tuple(types.CellType() for _ in c.co_freevars)))


# ------------------------------------------------------------------ lifetime judged by reference counting only
#
# The history workload above judges liveness after gc.collect(), which also frees a sender that the signal
# machinery has tied into a reference cycle.  "Never keeps a sender / weak argument alive" is judged here the
# strict way: cyclic gc disabled, every test object cycle-free (callbacks never refer to the sender), and the
# weakref must be dead immediately after the last outside reference is dropped.

LT_SHAPES = {
    # name: (number of weak args, user_args, deprecated user_arg)
    "none": (0, [], None),
    "u": (0, ["u"], None),
    "uu": (0, ["u", 3], None),
    "d": (0, [], "dep"),
    "ud": (0, ["u"], "dep"),
    "w": (1, [], None),
    "ww": (2, [], None),
    "www": (3, [], None),
    "wu": (1, ["u"], None),
    "wwuu": (2, ["u", 3], None),
    "wd": (1, [], "dep"),
    "wud": (1, ["u"], "dep"),
}
LT_KINDS = {"module": ["plain", "falsy", "metasub", "plain2", *LAYOUT_KINDS], "fresh": ["plain", "falsy", "plain2", *LAYOUT_KINDS]}
LT_STYLES = ["func", "obj", "meth"]


class _CB:
    """callback object that refers to nothing but its own counter"""

    def __init__(self):
        self.n = 0

    def __call__(self, *a):
        self.n += 1

    def meth(self, *a):
        self.n += 1
        return 1


def _mk_cb(style):
    c = _CB()
    if style == "obj":
        return c, (lambda: c)
    if style == "meth":
        return c, (lambda: c.meth)  # fresh bound method on every use

    def f(*a, _c=c):
        _c.n += 1

    return c, (lambda: f)


def lt_hist_cases():
    """enumerated step lists: every connection shape x every small history around it"""
    for shape in LT_SHAPES:
        nw = LT_SHAPES[shape][0]
        for si, style in enumerate(LT_STYLES):
            c = ["connect", "a", shape, style]
            yield "connected", [c]
            yield "disconnected_key", [c, ["disc_key", 0]]
            yield "disconnected_args", [c, ["disc_args", 0]]
            yield "emitted", [c, ["emit", "a"], ["emit", "a"]]
            yield "emitted_then_disconnected", [c, ["emit", "a"], ["disc_key", 0], ["emit", "a"]]
            yield "two_signals", [c, ["connect", 1, shape, LT_STYLES[(si + 1) % 3]], ["emit", 1], ["emit", "a"]]
            yield "duplicate", [c, ["reconnect", 0], ["emit", "a"]]
            yield "one_of_two_disconnected", [c, ["connect", "a", shape, style], ["disc_args", 0], ["emit", "a"]]
            yield "bogus_disconnects", [c, ["disc_bogus", "a"], ["emit", "a"]]
            if nw:
                yield "weak_dead", [c, ["killweak", 0], ["emit", "a"]]
                yield "weak_dead_after_emit", [c, ["emit", "a"], ["killweak", 0]]
                yield "weak_dead_one_of_two", [c, ["connect", "a", "w", style], ["killweak", 0], ["emit", "a"]]
                yield "mixed_with_plain", [["connect", "a", "none", style], c, ["connect", 1, "u", style], ["emit", "a"]]


def lt_rand_steps(rng):
    steps = []
    for _ in range(rng.randint(1, 10)):
        r = rng.random()
        if r < 0.45 or not steps:
            steps.append(["connect", rng.choice(["a", 1]), rng.choice(list(LT_SHAPES)), rng.choice(LT_STYLES)])
        elif r < 0.55:
            steps.append(["disc_key", rng.randrange(8)])
        elif r < 0.65:
            steps.append(["disc_args", rng.randrange(8)])
        elif r < 0.70:
            steps.append(["reconnect", rng.randrange(8)])
        elif r < 0.85:
            steps.append(["emit", rng.choice(["a", 1])])
        elif r < 0.95:
            steps.append(["killweak", rng.randrange(8)])
        else:
            steps.append(["disc_bogus", rng.choice(["a", 1])])
    return steps


def lifetime_case(desc):
    """desc = {"api", "kind", "steps"}; returns (findings, counts).  Runs with the cyclic gc disabled."""
    import urwid
    from urwid import signals as S

    findings = []
    counts = {}

    def cnt(k, n=1):
        counts[k] = counts.get(k, 0) + n

    api, kind = desc["api"], desc["kind"]
    cls, names = classes()[kind]
    # both flavours register signal names per class; for this part every sender class uses the names "a" and 1
    if api == "fresh":
        sg = S.Signals()
        sg.register(cls, ["a", 1])
        f_connect, f_disc, f_key, f_emit = sg.connect, sg.disconnect, sg.disconnect_by_key, sg.emit
    else:
        sg = None
        f_connect, f_disc, f_key, f_emit = urwid.connect_signal, urwid.disconnect_signal, urwid.disconnect_signal_by_key, urwid.emit_signal
    was_enabled = gc.isenabled()
    gc.disable()
    try:
        if sg is None:
            # module-level registry: add the extra name for this case only, restore afterwards
            reg = S._signals._supported
            saved = reg.get(cls)
            reg[cls] = ["a", 1]
        sender = cls()
        had_weak = False
        conns = []  # dicts: name, shape, cb counter, cb getter, key, weaks (list or None when killed), live

        def args_of(c):
            nw, ua, d = LT_SHAPES[c["shape"]]
            kw = {}
            if nw:
                kw["weak_args"] = list(c["weaks"])
            if ua:
                kw["user_args"] = list(ua)
            return (() if d is None else (d,)), kw

        for st in desc["steps"]:
            k = st[0]
            cnt("lt_op:" + k)
            c = o = counter = getter = None  # no stale references from the previous step
            if k == "connect":
                _, name, shape, style = st
                counter, getter = _mk_cb(style)
                c = {"name": name, "shape": shape, "counter": counter, "get": getter, "weaks": [WeakObj(False) for _ in range(LT_SHAPES[shape][0])], "live": True}
                pos, kw = args_of(c)
                c["key"] = f_connect(sender, name, getter(), *pos, **kw)
                del pos, kw  # kw holds the weak arguments strongly
                conns.append(c)
            elif k == "reconnect":
                if not conns:
                    continue
                o = conns[st[1] % len(conns)]
                if o["weaks"] is None:
                    continue
                c = dict(o, live=True)
                pos, kw = args_of(c)
                c["key"] = f_connect(sender, c["name"], c["get"](), *pos, **kw)
                del pos, kw
                conns.append(c)
            elif k == "disc_key":
                if not conns:
                    continue
                c = conns[st[1] % len(conns)]
                f_key(sender, c["name"], c["key"])
                c["live"] = False
            elif k == "disc_args":
                if not conns:
                    continue
                c = conns[st[1] % len(conns)]
                if c["weaks"] is None:
                    continue
                pos, kw = args_of(c)
                f_disc(sender, c["name"], c["get"](), *pos, **kw)
                del pos, kw
                # the earliest live identical connection goes
                for o in conns:
                    if o["live"] and o["counter"] is c["counter"] and o["name"] == c["name"] and o["weaks"] is c["weaks"]:
                        o["live"] = False
                        break
            elif k == "disc_bogus":
                f_disc(sender, st[1], _CB())
                f_key(sender, st[1], S.Key())
                f_disc(sender, "never-connected-name", _CB(), weak_args=[WeakObj(False)])
            elif k == "emit":
                before = [c["counter"].n for c in conns]
                f_emit(sender, st[1], "e")
                # per callback object: one call per live connection of it on this signal
                seen = set()
                for i, c in enumerate(conns):
                    if id(c["counter"]) in seen:
                        continue
                    seen.add(id(c["counter"]))
                    want = sum(1 for o in conns if o["counter"] is c["counter"] and o["live"] and o["name"] == st[1])
                    got = c["counter"].n - before[i]
                    cnt("lt_emit_count_checks")
                    if got != want:
                        findings.append(("lifetime|emit-call-count|" + ("dead-weak" if c["weaks"] is None else "live"), f"callback of connection {i} called {got}x, expected {want}x"))
            elif k == "killweak":
                if not conns:
                    continue
                c = conns[st[1] % len(conns)]
                if not c["weaks"]:
                    continue
                refs = [weakref.ref(w) for w in c["weaks"]]
                ws = c["weaks"]
                for o in conns:
                    if o["weaks"] is ws:
                        o["weaks"] = None
                        o["live"] = False
                del ws[:]
                del ws
                cnt("weak_arg_refcount_only_checks", len(refs))
                if any(r() is not None for r in refs):
                    findings.append(("liveness|weak-arg-not-freed-by-refcount", "a cycle-free weak argument survived the drop of its last outside reference (gc disabled)"))
                    gc.collect()
                # does the dead connection release its callback?  (observation only: not part of the statement)
                cbref = weakref.ref(c["counter"])
                users = [o for o in conns if o["counter"] is c["counter"] and o["live"]]
                if not users:
                    ctr = c["counter"]
                    had_weak = True
                    conns[:] = [o for o in conns if o["counter"] is not ctr]
                    o = c = ctr = None
                    cnt("dead_weak_connection_callback_released" if cbref() is None else f"dead_weak_connection_callback_retained:{kind}")
        # ---- the sender's last outside reference goes
        live = [c for c in conns if c["live"]]
        if any(LT_SHAPES[c["shape"]][0] for c in live):
            shape = "live-weak-args-connection"
        elif had_weak or any(LT_SHAPES[c["shape"]][0] for c in conns):
            shape = "only-removed-weak-args-connections"
        elif live:
            shape = "live-connections-without-weak-args"
        elif conns or "connect" in [st[0] for st in desc["steps"]]:
            shape = "only-removed-connections"
        else:
            shape = "never-connected"
        wr = weakref.ref(sender)
        del sender
        cnt("sender_lifetime_refcount_only_checks")
        cnt("sender_lifetime_refcount_only_checks:" + shape)
        for c in live:
            cnt("sender_lifetime_conn_shape:" + c["shape"])
        if wr() is not None:
            gc.collect()
            if wr() is None:
                findings.append((f"liveness|sender-freed-only-by-cycle-collector|{shape}", "sender (cycle-free, callbacks do not refer to it) survived the drop of its last reference with gc disabled; gc.collect() then freed it: the signal machinery made a reference cycle through the sender"))
            else:
                findings.append((f"liveness|sender-kept-alive-after-gc|{shape}", "sender still alive after last reference dropped and gc.collect()"))
        del conns, live
    finally:
        if sg is None:
            if saved is None:
                reg.pop(cls, None)
            else:
                reg[cls] = saved
        if was_enabled:
            gc.enable()
    return findings, counts


def lt_shrink(desc, sig):
    cur = desc
    i = len(cur["steps"]) - 1
    while i >= 0:
        cand = dict(cur, steps=cur["steps"][:i] + cur["steps"][i + 1 :])
        try:
            if any(f[0] == sig for f in lifetime_case(cand)[0]):
                cur = cand
        except Exception:  # noqa: BLE001
            pass
        i -= 1
    return cur


def judge_lifetime(ctx, desc, label=None):
    lay = f"|sender-layout={desc['kind']}" if desc["kind"] in LAYOUT_KINDS else ""
    try:
        findings, counts = lifetime_case(desc)
        findings = [(sg + lay, m) for sg, m in findings]
    except Exception as e:  # noqa: BLE001
        import traceback

        ctx.violation(f"C14|lifetime|harness-or-urwid-exception|{type(e).__name__}{lay}", f"{type(e).__name__}: {e}\n{traceback.format_exc(limit=8)}", {"lifetime": desc})
        return
    for k, v in counts.items():
        ctx.count(k, v)
    ctx.count("lifetime_cases")
    ctx.case(signals_ref.canon({"lifetime": desc}))
    seen = set()
    for sig, msg in findings:
        if sig in seen:
            continue
        seen.add(sig)
        if ctx.replaying:
            ctx.violation("C14|" + sig, msg, {"lifetime": desc})
            continue
        n = _SHRUNK.get(sig, 0)
        _SHRUNK[sig] = n + 1
        if n >= 2:
            ctx.count("violations_folded_into_shrunk_form")
            continue
        w = lt_shrink(desc, sig[: len(sig) - len(lay)] if lay else sig)
        ctx.violation("C14|" + sig, msg, {"lifetime": w})


def run_lifetime(ctx, frac):
    """controls first (is the sender kind cycle-free at all?), then the enumerated shapes, then random step lists"""
    usable = []
    for api, kinds in LT_KINDS.items():
        for kind in kinds:
            f, _ = lifetime_case({"api": api, "kind": kind, "steps": []})
            if f:
                ctx.count("lifetime_control_sender_not_cycle_free")
                continue
            ctx.count("lifetime_controls_ok")
            usable.append((api, kind))
    i = 0
    for api, kind in usable:
        for label, steps in lt_hist_cases():
            i += 1
            if ctx.mine(i) and ctx.more(0.3):
                judge_lifetime(ctx, {"api": api, "kind": kind, "steps": steps}, label)
                ctx.count("lifetime_enumerated_cases")
    ctx.sample({"lifetime": {"api": "module", "kind": "plain", "steps": [["connect", "a", "wu", "func"], ["emit", "a"]]}}, limit=5)
    rng = ctx.subrng("lifetime")
    n = 0
    while usable and ctx.more(frac) and n < ctx.pick(4000, 60000):
        n += 1
        api, kind = rng.choice(usable)
        judge_lifetime(ctx, {"api": api, "kind": kind, "steps": lt_rand_steps(rng)})
        ctx.count("lifetime_random_cases")



# ------------------------------------------------------------------ class families: registration through MetaSignals
#
# A case builds a family of sender classes (MetaSignals classes whose `signals` is a list literal, a list object
# shared with other classes, `Other.signals`, or absent; single / multiple / diamond bases; plain classes registered by
# hand) and after EVERY class creation / register call probes connect() for every (class so far, name) pair.

FAM_NAMES = ["a", "b", "c", "d", 7, "nope"]


def family_case(desc):
    import urwid
    from urwid import signals as S

    events = []
    lists = {}
    labels = []
    mixins = set()
    cls_of = {}
    inst = {}
    nstep = 0
    reg = S._signals._supported
    created = []
    try:
        for st in desc["steps"]:
            k = st[0]
            if k == "list":
                lists[st[1]] = list(st[2])
                continue
            if k == "class":
                _, c, bases, spec = st
                if c in cls_of or any(b not in cls_of for b in bases):
                    continue
                ns = {}
                if spec[0] == "lit":
                    ns["signals"] = list(spec[1])
                elif spec[0] == "shared":
                    if spec[1] not in lists:
                        continue
                    ns["signals"] = lists[spec[1]]
                elif spec[0] == "alias":
                    o = cls_of.get(spec[1])
                    if o is None or not isinstance(getattr(o, "signals", None), list):
                        continue
                    ns["signals"] = o.signals
                label = None
                if "signals" in ns:
                    # label of the list OBJECT (identity), so the model can tell which classes share one
                    label = next((lb for lb, obj in labels if obj is ns["signals"]), None)
                    if label is None:
                        label = f"list{len(labels)}"
                        labels.append((label, ns["signals"]))
                own = list(ns["signals"]) if "signals" in ns else None
                base_attr = {b: list(getattr(cls_of[b], "signals", [])) for b in bases}
                try:
                    cls = S.MetaSignals(c, tuple(cls_of[b] for b in bases), ns)
                except TypeError:
                    continue  # inconsistent MRO / duplicate base: not a class family
                cls_of[c] = cls
                created.append(cls)
                inst[c] = cls()
                events.append({"t": "class", "c": c, "bases": list(bases), "own": own, "base_attr": base_attr, "list": label, "how": spec[0]})
            elif k == "mixin":
                # an ORDINARY class (no metaclass) that may carry a `signals` list: ancestors of MetaSignals classes
                _, c, bases, spec = st
                if c in cls_of or any(b not in cls_of or b not in mixins for b in bases):
                    continue
                ns = {}
                if spec[0] == "lit":
                    ns["signals"] = list(spec[1])
                elif spec[0] == "shared":
                    if spec[1] not in lists:
                        continue
                    ns["signals"] = lists[spec[1]]
                label = None
                if "signals" in ns:
                    label = next((lb for lb, obj in labels if obj is ns["signals"]), None)
                    if label is None:
                        label = f"list{len(labels)}"
                        labels.append((label, ns["signals"]))
                own = list(ns["signals"]) if "signals" in ns else None
                try:
                    cls = type(c, tuple(cls_of[b] for b in bases), ns)
                except TypeError:
                    continue
                mixins.add(c)
                cls_of[c] = cls
                created.append(cls)
                inst[c] = cls()
                events.append({"t": "mixin", "c": c, "bases": list(bases), "own": own, "list": label})
            elif k == "plain":
                c = st[1]
                if c in cls_of:
                    continue
                cls = type(c, (), {})
                cls_of[c] = cls
                created.append(cls)
                inst[c] = cls()
                events.append({"t": "plain", "c": c})
            elif k == "register":
                _, c, names = st
                if c not in cls_of:
                    continue
                urwid.register_signal(cls_of[c], list(names))
                events.append({"t": "register", "c": c, "names": list(names)})
            else:
                raise AssertionError(st)
            nstep += 1
            # ---- the rejection clause for every (class, name) pair after every class creation / registration
            for c, o in inst.items():
                for name in FAM_NAMES:
                    cb = _CB()
                    e = {"t": "probe", "c": c, "name": name, "accepted": False, "exc": None, "called": None, "after": nstep}
                    try:
                        key = urwid.connect_signal(o, name, cb)
                    except Exception as ex:  # noqa: BLE001
                        e["exc"] = type(ex).__name__
                    else:
                        e["accepted"] = True
                        urwid.emit_signal(o, name)
                        e["called"] = cb.n == 1
                        urwid.disconnect_signal_by_key(o, name, key)
                    events.append(e)
    finally:
        for cls in created:
            reg.pop(cls, None)
    return signals_ref.check_family(events)


def family_directed():
    """the shapes named in the brief, each in a few creation orders"""
    base = ["class", "Base", [], ["lit", ["b"]]]
    base2 = ["class", "Base2", [], ["lit", ["c", "b"]]]
    for share in (["shared", 0], "alias"):
        later_spec = share if share != "alias" else ["alias", "A"]
        for later_bases in (["Base"], ["Base", "Base2"], ["Base2"]):
            for early_first in (True, False):
                a = ["class", "A", [], ["shared", 0]]
                b = ["class", "B", later_bases, later_spec]
                pre = [["list", 0, ["a"]], base, base2]
                if early_first:
                    yield {"steps": [*pre, a, b]}
                    yield {"steps": [["list", 0, ["a"]], a, base, base2, b]}
                    yield {"steps": [*pre, a, b, ["class", "C", [], ["shared", 0]]]}
                    yield {"steps": [*pre, a, b, ["class", "SubA", ["A"], ["lit", ["d"]]]]}
                elif share != "alias":
                    yield {"steps": [*pre, b, a]}
    # ordinary (non-metaclass) ancestors at depth >= 2 below a MetaSignals class, in several shapes and creation orders
    m1 = ["mixin", "M1", [], ["lit", ["a"]]]
    for m2spec in (["lit", ["b"]], ["absent"], ["lit", []]):
        for wspec in (["lit", ["c"]], ["absent"]):
            yield {"steps": [m1, ["mixin", "M2", ["M1"], m2spec], ["class", "W", ["M2"], wspec], ["class", "Sub", ["W"], ["lit", ["d"]]]]}
            yield {"steps": [m1, ["mixin", "M2", ["M1"], m2spec], ["mixin", "M3", ["M2"], ["absent"]], ["class", "W", ["M3"], wspec]]}
    # the second mix-in of a plain intermediate class without a list of its own
    yield {"steps": [m1, ["mixin", "M2", [], ["lit", ["b"]]], ["mixin", "Mixed", ["M1", "M2"], ["absent"]], ["class", "W", ["Mixed"], ["lit", ["c"]]]]}
    yield {"steps": [m1, ["mixin", "M2", [], ["lit", ["b"]]], ["mixin", "Mixed", ["M2", "M1"], ["lit", [7]]], ["class", "W", ["Mixed"], ["absent"]]]}
    # a plain class shadowing its plain grandparent's list; plain diamond; list objects shared between ordinary classes
    yield {"steps": [["mixin", "G", [], ["lit", ["a"]]], ["mixin", "P", ["G"], ["lit", ["b"]]], ["mixin", "C", ["P"], ["absent"]], ["class", "W", ["C"], ["absent"]], ["class", "V", ["C"], ["lit", ["a", "d"]]]]}
    yield {"steps": [["mixin", "R", [], ["lit", ["a"]]], ["mixin", "L1", ["R"], ["lit", ["b"]]], ["mixin", "L2", ["R"], ["lit", ["c"]]], ["mixin", "D", ["L1", "L2"], ["absent"]], ["class", "W", ["D"], ["lit", ["d"]]], ["mixin", "X", [], ["lit", [7]]], ["class", "W2", ["W", "X"], ["absent"]]]}
    yield {"steps": [["list", 0, ["a"]], ["mixin", "M1", [], ["shared", 0]], ["mixin", "M2", ["M1"], ["shared", 0]], ["mixin", "N", [], ["lit", ["b"]]], ["mixin", "M3", ["M2", "N"], ["absent"]], ["class", "W", ["M3"], ["shared", 0]], ["class", "A", [], ["shared", 0]]]}
    # metaclass base next to an ordinary chain, and a metaclass class between two ordinary layers
    yield {"steps": [["class", "B", [], ["lit", ["a"]]], ["mixin", "M", [], ["lit", ["b"]]], ["mixin", "N", ["M"], ["lit", ["c"]]], ["class", "W", ["B", "N"], ["absent"]], ["class", "W2", ["N", "B"], ["lit", ["d"]]]]}
    yield {"steps": [["mixin", "M", [], ["lit", ["b"]]], ["mixin", "N", ["M"], ["lit", ["c"]]], ["class", "W", ["N"], ["lit", ["a"]]], ["mixin", "O", [], ["lit", ["d"]]], ["mixin", "Q", ["O"], ["absent"]], ["class", "Z", ["W", "Q"], ["absent"]]]}
    # diamonds, duplicates, absent bodies, manual registration
    yield {"steps": [["class", "R", [], ["lit", ["a", "a", "b"]]], ["class", "L1", ["R"], ["lit", ["c"]]], ["class", "L2", ["R"], ["lit", ["d", "a"]]], ["class", "D", ["L1", "L2"], ["lit", [7, 7]]]]}
    yield {"steps": [["class", "R", [], ["lit", ["a"]]], ["class", "L1", ["R"], ["absent"]], ["class", "L2", ["R"], ["lit", ["d"]]], ["class", "D", ["L1", "L2"], ["absent"]], ["class", "E", ["D"], ["lit", ["c"]]]]}
    yield {"steps": [["class", "R", [], ["absent"]], ["class", "S", ["R"], ["absent"]], ["class", "T", ["S"], ["lit", ["a"]]]]}
    # a class without its own list and two signal-bearing bases, then subclassed (directly and through another signal-less class)
    yield {"steps": [["class", "B1", [], ["lit", ["a"]]], ["class", "B2", [], ["lit", ["b"]]], ["class", "X", ["B1", "B2"], ["absent"]], ["class", "Sub", ["X"], ["lit", ["c"]]]]}
    yield {"steps": [["class", "B1", [], ["lit", ["a"]]], ["class", "B2", [], ["lit", ["b", 7]]], ["class", "X", ["B1", "B2"], ["absent"]], ["class", "Y", ["X"], ["absent"]], ["class", "Sub", ["Y"], ["absent"]]]}
    yield {"steps": [["plain", "P"], ["register", "P", ["a"]], ["register", "P", ["b", 7]], ["class", "M", [], ["lit", ["c"]]], ["register", "M", ["a"]]]}
    yield {"steps": [["list", 0, ["a"]], ["list", 1, ["a"]], ["class", "A", [], ["shared", 0]], ["class", "Base", [], ["lit", ["b"]]], ["class", "B", ["Base"], ["shared", 1]]]}


def rand_family(rng):
    steps = [["list", i, [rng.choice(["a", "b", "c", 7]) for _ in range(rng.randint(0, 2))]] for i in range(rng.randint(1, 2))]
    names = []
    for i in range(rng.randint(2, 6)):
        c = f"K{i}"
        if rng.random() < 0.1:
            steps.append(["plain", c])
            names.append(c)
            continue
        if rng.random() < 0.3:
            mx = [st[1] for st in steps if st[0] == "mixin"]
            r = rng.random()
            spec = ["lit", [rng.choice(["a", "b", "c", "d", 7]) for _ in range(rng.randint(0, 2))]] if r < 0.55 else (["shared", rng.randrange(2)] if r < 0.7 else ["absent"])
            steps.append(["mixin", c, rng.sample(mx, min(len(mx), rng.choice([0, 1, 1, 2]))), spec])
            names.append(c)
            continue
        metas = [n for n in names if ["plain", n] not in steps]  # possible bases: metaclass classes and ordinary mix-ins
        bases = rng.sample(metas, min(len(metas), rng.choice([0, 0, 1, 1, 1, 2, 2]))) if metas else []
        r = rng.random()
        if r < 0.35:
            spec = ["lit", [rng.choice(["a", "b", "c", "d", 7]) for _ in range(rng.randint(0, 3))]]
        elif r < 0.70:
            spec = ["shared", rng.randrange(2)]
        elif r < 0.85 and metas:
            spec = ["alias", rng.choice(metas)]
        else:
            spec = ["absent"]
        steps.append(["class", c, bases, spec])
        names.append(c)
    for _ in range(rng.choice([0, 0, 1, 2])):
        steps.append(["register", rng.choice(names), [rng.choice(["a", "b", "c", "d", 7]) for _ in range(rng.randint(0, 2))]])
    return {"steps": steps}


def judge_family(ctx, desc):
    try:
        findings, stats = family_case(desc)
    except Exception as e:  # noqa: BLE001
        import traceback

        ctx.violation(f"C14|register|harness-or-urwid-exception|{type(e).__name__}", f"{type(e).__name__}: {e}\n{traceback.format_exc(limit=8)}", {"family": desc})
        return
    for k, v in stats.items():
        ctx.count("model:" + k, v)
    ctx.count("family_cases")
    ctx.case(signals_ref.canon({"family": desc}))
    seen = set()
    for sig, msg in findings:
        if sig in seen:
            continue
        seen.add(sig)
        cur = desc
        if not ctx.replaying:
            n = _SHRUNK.get(sig, 0)
            _SHRUNK[sig] = n + 1
            if n >= 2:
                ctx.count("violations_folded_into_shrunk_form")
                continue
            i = len(cur["steps"]) - 1
            while i >= 0:
                cand = {"steps": cur["steps"][:i] + cur["steps"][i + 1 :]}
                try:
                    if any(f[0] == sig for f in family_case(cand)[0]):
                        cur = cand
                except Exception:  # noqa: BLE001
                    pass
                i -= 1
        ctx.violation("C14|" + sig, msg, {"family": cur})


def run_family(ctx, frac):
    i = 0
    for desc in family_directed():
        i += 1
        if ctx.mine(i):
            judge_family(ctx, desc)
            ctx.count("family_directed_cases")
    ctx.sample({"family": next(iter(family_directed()))}, limit=6)
    rng = ctx.subrng("family")
    n = 0
    while ctx.more(frac) and n < ctx.pick(1500, 40000):
        n += 1
        judge_family(ctx, rand_family(rng))
        ctx.count("family_random_cases")


def run(ctx):
    setup()
    run_lifetime(ctx, 0.08)
    run_family(ctx, 0.16)
    idx = 0
    # directed fixed-size cores first (they are small and each targets one mechanism), then the big enumerated core
    for wit in lazy_core_cases():
        idx += 1
        if ctx.mine(idx) and ctx.more(0.6):
            judge(ctx, wit)
            ctx.count("lazy_core_histories")
    for wit in gc_core_cases():
        idx += 1
        if ctx.mine(idx) and ctx.more(0.6):
            judge(ctx, wit)
            ctx.count("gc_core_histories")
    for wit in uarg_core_cases():
        idx += 1
        if ctx.mine(idx) and ctx.more(0.6):
            judge(ctx, wit)
            ctx.count("user_arg_core_histories")
    # the n=2 core (every behaviour pair, <=1 op before the final emit) on every sender attribute layout,
    # followed by dropping the sender
    for kind in LAYOUT_KINDS:
        for wit in core_cases(2, 1, 0, kind):
            idx += 1
            if ctx.mine(idx) and ctx.more(0.6):
                wit["ops"].append(["kill", "s0"])
                judge(ctx, wit)
                ctx.count("layout_core_histories")
                ctx.count("layout_core_histories:" + kind)
    complete = {}
    plan = ctx.pick([(1, 2, 0), (2, 2, 0), (3, 1, 0)], [(1, 2, 0), (2, 2, 0), (3, 2, 0), (4, 1, 0), (4, 2, 2)])
    for n, maxprefix, minprefix in plan:
        done = True
        for wit in core_cases(n, maxprefix, minprefix):
            idx += 1
            if not ctx.mine(idx):
                continue
            if not ctx.more(0.75):
                done = False
                break
            judge(ctx, wit)
            ctx.count("core_histories")
            if n == 3:
                ctx.sample(wit, limit=1)
        complete[f"n={n},prefix={minprefix}..{maxprefix}"] = done
    ctx.extra["core_complete_in_budget"] = complete
    rng = ctx.rng
    k = 0
    while ctx.more(1.0):
        k += 1
        wit = rand_history(rng, ctx.quick)
        judge(ctx, wit)
        ctx.count("random_histories")
        if k <= 2:
            ctx.sample(wit, limit=3)
        if k % 4 == 0:
            for w2 in kill_sweep(rng, wit):
                if not ctx.more(1.02):
                    break
                judge(ctx, w2)
                ctx.count("kill_sweep_histories")
    reach.flush(ctx)


def replay(ctx, wit):
    setup()
    if "lifetime" in wit:
        return judge_lifetime(ctx, wit["lifetime"])
    if "family" in wit:
        return judge_family(ctx, wit["family"])
    wit = {"header": wit["header"], "ops": wit["ops"]}
    return judge(ctx, wit)
