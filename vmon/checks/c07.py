"""C07 ListBox window: history checker with glyph-identifiable spy items.

A case is a JSON recipe {walker, size, lbfocus, focus0, items, ops}.  The ops are applied to a real
urwid.ListBox over a real walker; the harness mirrors the list contents in a plain Python list (the
model of "the list's items in order").  At every 'render' op the canvas is judged against the
vertical concatenation of the items' own renderings at that width (spy rows are a pure function of
(ident, row, width); real widgets - Edit, Pile([]) - are rendered by themselves after the ListBox).
"""

from __future__ import annotations

import json
import re
import string
import traceback

from vmon import reach

PROPERTY = "C07"
LEVEL = "exploration"
SHARDS = {"quick": 8, "thorough": 16}
BUDGET = {"quick": 25.0, "thorough": 420.0}
REQUIRE = {
    "quick": {
        "directed:pending_focus_then_removal": 4500,
        "directed:walker:dictlax": 900,
        "directed:walker:dictv1": 900,
        "directed:walker:dictv2": 900,
        "directed:walker:slw": 900,
        "directed:walker:sflw": 900,
        "walker:dictlax": 100,
        "eval:ends_visible_no_raise": 800,
        "observer:modified_signals": 3000,
        "eval:focus_read_inside_modified_signal": 500,
        "eval:render_inside_modified_signal": 400,
        "observer:signals_inside_listbox_operation_not_judged": 1000,
        "eval:mouse1_on_unfocused_listbox": 30,
        "mouse_event:mouse press": 500,
        "mouse_event:shift mouse press": 8,
        "mouse_event:meta mouse press": 8,
        "mouse_event:shift meta mouse press": 8,
        "mouse_event:ctrl mouse press": 8,
        "mouse_event:shift ctrl mouse press": 8,
        "mouse_event:meta ctrl mouse press": 8,
        "mouse_event:shift meta ctrl mouse press": 8,
        "mouse_event:mouse release": 60,
        "mouse_event:shift mouse release": 8,
        "mouse_event:meta mouse release": 8,
        "mouse_event:shift meta mouse release": 8,
        "mouse_event:ctrl mouse release": 8,
        "mouse_event:shift ctrl mouse release": 8,
        "mouse_event:meta ctrl mouse release": 8,
        "mouse_event:shift meta ctrl mouse release": 8,
        "mouse_event:mouse drag": 60,
        "mouse_event:shift mouse drag": 8,
        "mouse_event:meta mouse drag": 8,
        "mouse_event:shift meta mouse drag": 8,
        "mouse_event:ctrl mouse drag": 8,
        "mouse_event:shift ctrl mouse drag": 8,
        "mouse_event:meta ctrl mouse drag": 8,
        "mouse_event:shift meta ctrl mouse drag": 8,
        "eval:mouse1_makes_focus:mouse press": 150,
        "eval:mouse1_makes_focus:shift mouse press": 15,
        "eval:mouse1_makes_focus:meta mouse press": 15,
        "eval:mouse1_makes_focus:shift meta mouse press": 15,
        "eval:mouse1_makes_focus:ctrl mouse press": 15,
        "eval:mouse1_makes_focus:shift ctrl mouse press": 15,
        "eval:mouse1_makes_focus:meta ctrl mouse press": 15,
        "eval:mouse1_makes_focus:shift meta ctrl mouse press": 15,
        "eval:non_press_keeps_focus": 200,
        "cover:page_key_on_tall_unselectable_focus": 150,
        "cover:list_with_repeated_widget_object": 1500,
        "cover:repeated_widget_object_visible_twice": 600,
        "eval:mouse1_on_repeated_widget_object": 50,
        "cover:refill_after_emptying": 600,
        "cover:refill_by_iadd_or_extend_after_emptying_with_high_focus": 150,
        "op:iadd": 400,
        "op:extend": 150,
        "op:imul0": 100,
        "op:imul2": 40,
        "op:setslice": 400,
        "op:pop": 60,
        "op:remove": 30,
        "op:reverse": 30,
        "op:sort": 15,
        "op:dup": 100,
        "op:clearm": 100,
        "eval:render_no_raise": 10000,
        "eval:slice": 10000,
        "eval:focus_row_visible": 8000,
        "eval:cursor_row_visible": 4000,
        "eval:no_blank_above": 8000,
        "eval:blank_below_only_if_all_shown": 2000,
        "eval:no_spurious_cursor": 5000,
        "eval:mouse1_makes_focus": 400,
        "eval:keypress_no_raise": 4000,
        "eval:mouse_no_raise": 1500,
        "cover:window_starts_inside_item": 2500,
        "cover:window_ends_inside_item": 4000,
        "cover:zero_row_item_in_list": 2000,
        "cover:focus_taller_than_box": 1500,
        "cover:render_served_from_cache": 1500,
        "walker:dictv1": 100,
        "walker:dictv2": 100,
        "walker:slw": 100,
        "walker:sflw": 100,
        "reach:widget.listbox.ListBox.calculate_visible": 10000,
        "reach:widget.listbox.ListBox._keypress_page_down": 500,
        "reach:widget.listbox.ListBox._keypress_page_up": 500,
        "reach:widget.listbox.ListBox.change_focus": 2000,
        "reach:widget.listbox.ListBox._set_focus_complete": 2000,
        "reach:widget.listbox.ListBox._set_focus_valign_complete": 1000
    },
    "thorough": {
        "directed:pending_focus_then_removal": 4500,
        "directed:walker:dictlax": 900,
        "directed:walker:dictv1": 900,
        "directed:walker:dictv2": 900,
        "directed:walker:slw": 900,
        "directed:walker:sflw": 900,
        "walker:dictlax": 1000,
        "eval:ends_visible_no_raise": 800,
        "observer:modified_signals": 30000,
        "eval:focus_read_inside_modified_signal": 5000,
        "eval:render_inside_modified_signal": 4000,
        "observer:signals_inside_listbox_operation_not_judged": 10000,
        "eval:mouse1_on_unfocused_listbox": 300,
        "mouse_event:mouse press": 5000,
        "mouse_event:shift mouse press": 80,
        "mouse_event:meta mouse press": 80,
        "mouse_event:shift meta mouse press": 80,
        "mouse_event:ctrl mouse press": 80,
        "mouse_event:shift ctrl mouse press": 80,
        "mouse_event:meta ctrl mouse press": 80,
        "mouse_event:shift meta ctrl mouse press": 80,
        "mouse_event:mouse release": 600,
        "mouse_event:shift mouse release": 80,
        "mouse_event:meta mouse release": 80,
        "mouse_event:shift meta mouse release": 80,
        "mouse_event:ctrl mouse release": 80,
        "mouse_event:shift ctrl mouse release": 80,
        "mouse_event:meta ctrl mouse release": 80,
        "mouse_event:shift meta ctrl mouse release": 80,
        "mouse_event:mouse drag": 600,
        "mouse_event:shift mouse drag": 80,
        "mouse_event:meta mouse drag": 80,
        "mouse_event:shift meta mouse drag": 80,
        "mouse_event:ctrl mouse drag": 80,
        "mouse_event:shift ctrl mouse drag": 80,
        "mouse_event:meta ctrl mouse drag": 80,
        "mouse_event:shift meta ctrl mouse drag": 80,
        "eval:mouse1_makes_focus:mouse press": 1500,
        "eval:mouse1_makes_focus:shift mouse press": 150,
        "eval:mouse1_makes_focus:meta mouse press": 150,
        "eval:mouse1_makes_focus:shift meta mouse press": 150,
        "eval:mouse1_makes_focus:ctrl mouse press": 150,
        "eval:mouse1_makes_focus:shift ctrl mouse press": 150,
        "eval:mouse1_makes_focus:meta ctrl mouse press": 150,
        "eval:mouse1_makes_focus:shift meta ctrl mouse press": 150,
        "eval:non_press_keeps_focus": 2000,
        "cover:page_key_on_tall_unselectable_focus": 1500,
        "cover:list_with_repeated_widget_object": 15000,
        "cover:repeated_widget_object_visible_twice": 6000,
        "eval:mouse1_on_repeated_widget_object": 500,
        "cover:refill_after_emptying": 6000,
        "cover:refill_by_iadd_or_extend_after_emptying_with_high_focus": 1500,
        "op:iadd": 4000,
        "op:extend": 1500,
        "op:imul0": 1000,
        "op:imul2": 400,
        "op:setslice": 4000,
        "op:pop": 600,
        "op:remove": 300,
        "op:reverse": 300,
        "op:sort": 150,
        "op:dup": 1000,
        "op:clearm": 1000,
        "eval:render_no_raise": 100000,
        "eval:slice": 100000,
        "eval:focus_row_visible": 80000,
        "eval:cursor_row_visible": 40000,
        "eval:no_blank_above": 80000,
        "eval:blank_below_only_if_all_shown": 20000,
        "eval:no_spurious_cursor": 50000,
        "eval:mouse1_makes_focus": 4000,
        "eval:keypress_no_raise": 40000,
        "eval:mouse_no_raise": 15000,
        "cover:window_starts_inside_item": 25000,
        "cover:window_ends_inside_item": 40000,
        "cover:zero_row_item_in_list": 20000,
        "cover:focus_taller_than_box": 15000,
        "cover:render_served_from_cache": 15000,
        "walker:dictv1": 1000,
        "walker:dictv2": 1000,
        "walker:slw": 1000,
        "walker:sflw": 1000,
        "reach:widget.listbox.ListBox.calculate_visible": 100000,
        "reach:widget.listbox.ListBox._keypress_page_down": 5000,
        "reach:widget.listbox.ListBox._keypress_page_up": 5000,
        "reach:widget.listbox.ListBox.change_focus": 20000,
        "reach:widget.listbox.ListBox._set_focus_complete": 20000,
        "reach:widget.listbox.ListBox._set_focus_valign_complete": 10000
    },
}
RULE = (
    "random histories (quick <=20 ops, thorough <=50 ops, each followed by a render with p=0.85) over a ListBox of 0..12 "
    "items: spy flow widgets (heights 0/1/2/3/5/12/25, +1..2 rows when narrower than 8 columns; unselectable, selectable, "
    "selectable with cursor protocol), real multi-line urwid.Edit and real 0-row Pile([]); walkers SimpleListWalker, "
    "SimpleFocusListWalker, dict-backed sparse-position walkers implementing list-walker API v2 (+positions) and v1 only; "
    "box (3..20)x(1..10); ops: keys up/down/page up/page down/home/end/x, mouse press (buttons 1-5) / release (0-3) / "
    "drag (1-3) under every event name the decoder produces (8 shift/meta/ctrl prefix combinations) at random cells, set_focus(pos, coming_from), set_focus_valign(top/middle/bottom/relative pct), resize, walker "
    "insert/delete/replace/del w[:]/clear()/+=/extend/*= 0,1,2/slice assignment/pop/remove/reverse/sort (list calls on the two "
    "bundled walkers, mapped to insert/delete on the dict walkers, mirrored in the harness's Python list), empty-then-refill "
    "sequences after moving the focus to a high index, in 25% of the histories the SAME widget object placed at several "
    "positions (recipes sharing an id; op dup = w.insert(j, w[i])), in 8% a 1-3 item list around a tall unselectable item "
    "with mostly paging/scrolling keys and button-1 presses, in 7% an unfocused ListBox (rendered and clicked with focus=False) "
    "around multi-row cursor items with set_focus/resize/button-1 presses, ListBox focus flag toggle; a fifth walker flavour 'dictlax' whose set_focus() only records the position (ListWalker.get_focus() "
    "answers (None, None) for a missing one); a directed, never-skipped core (every walker x 3 sizes x 2 lengths x 2 old/new pairs x "
    "3 coming_from x 5 removals x 5 next calls): set_focus(new) then the old focus position removed / list emptied before the "
    "next render / keypress / mouse_event / ends_visible; in 40% of the histories an application handler is connected to the walker's 'modified' signal "
    "(after the ListBox's own) which reads the focus and (30%) redraws the ListBox inside the signal; a case = the whole JSON recipe; distinct = distinct recipes; "
    "non-trivial = at least one render was judged; a history stops at its first failure; per shard the first 3 (quick) / 8 "
    "(thorough) failures of each base signature (clause + kind of mismatch or exception site) are shrunk and classified, "
    "further ones are only counted (failure:* counters)"
)
ASSUMES = [
    "the items' own renderings are trusted: 'vertical concatenation of the items' renderings' is built from item.render((maxcol,), focus) of the real Edit/Pile items (called after ListBox.render) and from the spies' pure row function",
    "the walker is trusted for which POSITION is the focus (walker.get_focus()); items are positions (the same widget object may sit at several), the order of items is the harness's own mirrored Python list; focus and mouse clauses are judged by position",
    "wrap_around=False walkers only (a cyclic list has no 'first'/'last' item)",
    "a focus item with 0 rows has no row to show: the 'one focus row visible' clause is not evaluated for it (counted as na:focus_has_zero_rows); all other clauses still apply",
    "when row texts are not unique (blank Edit lines) every consistent slice position is tried and the clauses are required of at least one (counted as ambiguous_window)",
    "keys are only sent while the ListBox has focus; set_focus is only called with existing positions on a non-empty list (IndexError is documented otherwise)",
    "the harness keeps the last rendered ListBox canvas alive, as a display screen does, so CanvasCache may serve ListBox.render (a missing invalidation then shows as a stale, judged canvas)",
    "a render / focus read made inside the walker's 'modified' signal is judged (same clauses as an ordinary render, list non-empty => focus not None) only when the signal comes from a list-mutating call of the history: the bundled walkers emit it when the mutation is complete, so it is a look at the list like any other; signals emitted while the ListBox is inside its own keypress/mouse_event/render (walker.set_focus from change_focus) are observed but not judged - the statement speaks about looks between operations; a blank canvas cached there is still caught by the following ordinary render because the harness keeps the drawn canvas alive",
    "mouse-press clause is judged only when the press immediately follows a judged render at the same size/focus flag, so 'visible item at that cell' is read from the canvas",
]

MUTATORS = ("insert", "delete", "replace", "clear", "clearm", "iadd", "extend", "imul", "setslice", "pop", "remove", "reverse", "sort", "dup")
GROW_LIMIT = 30
KEYS = ["up", "down", "page up", "page down", "home", "end", "x"]
IDS = string.ascii_lowercase + string.ascii_uppercase + "#$%&*+=?@~^!"
HEIGHTS = [1] * 8 + [2] * 3 + [3] * 3 + [5] * 2 + [12] * 2 + [25] * 2


# ------------------------------------------------------------------ recipes


def gen_item(rng, ident, zero_mode):
    r = rng.random()
    nx = rng.choice([1, 2]) if rng.random() < 0.15 else 0
    h = 0 if (zero_mode and rng.random() < 0.25) else rng.choice(HEIGHTS)
    if zero_mode and r < 0.06:
        return {"t": "pile0", "id": ident}
    if r < 0.32:
        return {"t": "spy", "id": ident, "h": h, "sel": False, "nx": nx}
    if r < 0.52:
        return {"t": "spy", "id": ident, "h": h, "sel": True, "nx": nx}
    if r < 0.76:
        return {"t": "cur", "id": ident, "h": h, "nx": nx, "cx": rng.randint(0, 6), "cy": rng.randint(0, max(0, h - 1))}
    lines = rng.choice([1, 1, 2, 3, 4, 12])
    return {"t": "edit", "id": ident, "lines": lines, "pos": rng.randint(0, 3 * lines)}


# every mouse event name the input decoder produces for press / release / drag: modifier prefixes in the order
# "shift ", "meta ", "ctrl " (urwid/display/escape.py read_mouse_info / read_sgrmouse_info)
MOUSE_PREFIXES = [("shift " if m & 1 else "") + ("meta " if m & 2 else "") + ("ctrl " if m & 4 else "") for m in range(8)]
MOUSE_EVENTS = [f"{p}mouse {a}" for a in ("press", "release", "drag") for p in MOUSE_PREFIXES]


def gen_mouse(rng, button1=False):
    prefix = "" if rng.random() < 0.5 else rng.choice(MOUSE_PREFIXES[1:])
    a = rng.random()
    if button1 or a < 0.8:
        action, button = "press", 1 if button1 else rng.choice([1, 1, 1, 1, 2, 3, 4, 5])
    elif a < 0.9:
        action, button = "release", rng.choice([0, 1, 2, 3])
    else:
        action, button = "drag", rng.choice([1, 1, 2, 3])
    return ["mouse", f"{prefix}mouse {action}", button, rng.randint(0, 19), rng.randint(0, 9)]


def gen_op(rng, new_item, repeat_mode):
    r = rng.random()
    if r < 0.40:
        return ["key", rng.choice(KEYS)]
    if r < 0.55:
        return gen_mouse(rng)
    if r < 0.65:
        return ["set_focus", rng.randint(0, 11), rng.choice([None, "above", "below"])]
    if r < 0.72:
        v = rng.choice(["top", "middle", "bottom", "rel"])
        return ["valign", ["relative", rng.choice([0, 10, 33, 50, 75, 100])] if v == "rel" else v]
    if r < 0.78:
        return ["resize", rng.randint(3, 20), rng.randint(1, 10)]
    if r < 0.96:
        # list-mutating calls on the walker (mirrored in the harness's Python list)
        m = rng.random()
        if repeat_mode and m < 0.2:
            return ["dup", rng.randint(0, 11), rng.randint(0, 12)]
        m = rng.random()
        if m < 0.24:
            return ["insert", rng.randint(0, 12), new_item()]
        if m < 0.46:
            return ["delete", rng.randint(0, 11)]
        if m < 0.60:
            return ["replace", rng.randint(0, 11), new_item()]
        if m < 0.64:
            return [rng.choice(["clear", "clearm"])]
        if m < 0.72:
            return ["iadd", [new_item() for _ in range(rng.randint(0, 3))]]
        if m < 0.77:
            return ["extend", [new_item() for _ in range(rng.randint(0, 3))]]
        if m < 0.82:
            return ["imul", rng.choice([0, 1, 2, 2])]
        if m < 0.90:
            sl = rng.choice([[None, None], [rng.randint(-3, 13), rng.randint(-3, 13)], [rng.randint(0, 12), None], [None, rng.randint(0, 12)]])
            return ["setslice", sl[0], sl[1], [new_item() for _ in range(rng.choice([0, 0, 1, 2, 3]))]]
        if m < 0.94:
            return ["pop", rng.choice([-1, rng.randint(0, 11)])]
        if m < 0.96:
            return ["remove", rng.randint(0, 11)]
        if m < 0.98:
            return ["reverse"]
        if m < 0.99:
            return ["sort"]
        return ["dup", rng.randint(0, 11), rng.randint(0, 12)]
    if r < 0.98:
        return ["lbfocus", rng.random() < 0.5]
    return ["render"]


def gen_refill(rng, new_item):
    """empty-then-refill: focus moved to a high index, list emptied by one of the calls a user has for that,
    refilled with a few items by one of the growing calls"""
    ops = [rng.choice([["set_focus", rng.randint(4, 11), rng.choice([None, "above", "below"])], ["key", "end"], ["key", "page down"]])]
    if rng.random() < 0.8:
        ops.append(["render"])
    ops.append(rng.choice([["clear"], ["clearm"], ["setslice", None, None, []], ["imul", 0], ["setslice", 0, None, []]]))
    if rng.random() < 0.5:
        ops.append(["render"])
    k = rng.choice(["iadd", "iadd", "iadd", "extend", "setslice", "insert"])
    items = [new_item() for _ in range(rng.randint(1, 4))]
    if k == "setslice":
        ops.append(["setslice", None, None, items])
    elif k == "insert":
        ops.append(["insert", 0, items[0]])
    else:
        ops.append([k, items])
    ops.append(["render"])
    return ops


def gen_case(rng, max_ops):
    ids = iter(IDS)
    zero_mode = rng.random() < 0.35
    repeat_mode = rng.random() < 0.25
    pool = []

    def new_item():
        # in repeat mode an item may be an earlier recipe again: the SAME widget object at another position
        if repeat_mode and pool and rng.random() < 0.3:
            sel = [r for r in pool if r["t"] in ("cur", "edit") or r.get("sel")]
            return dict(rng.choice(sel if sel and rng.random() < 0.7 else pool))
        r = gen_item(rng, next(ids), zero_mode)
        if repeat_mode and r["t"] in ("spy", "cur") and r["h"] > 3 and rng.random() < 0.7:
            r["h"] = rng.choice([1, 1, 2])  # several small items visible at once
        pool.append(r)
        return r

    ops = []
    items = []
    # scroll mode: a short list around a tall unselectable item, mostly paging / line scrolling inside it and
    # button-1 presses (the ListBox scrolls by shifting the focus item, no focus change)
    scroll_mode = rng.random() < 0.08
    try:
        n = 0 if rng.random() < 0.03 else rng.randint(1, 12)
        if scroll_mode:
            n = rng.randint(1, 3)
        items = [new_item() for _ in range(n)]
        if scroll_mode:
            items[rng.randrange(n)] = {"t": "spy", "id": next(ids), "h": rng.choice([12, 25]), "sel": False, "nx": 0}
        # unfocused mode: a ListBox that is displayed and clicked WITHOUT focus (the unfocused pane of a Columns),
        # around multi-row items whose cursor row was set programmatically; set_focus / resize / button-1 presses
        unfocused_mode = not scroll_mode and rng.random() < 0.07
        if unfocused_mode:
            items = []
            for _ in range(rng.randint(2, 6)):
                if rng.random() < 0.5:
                    h = rng.choice([3, 5, 12])
                    r = {"t": "cur", "id": next(ids), "h": h, "nx": 0, "cx": rng.randint(0, 6), "cy": rng.randint(0, h - 1)}
                    if rng.random() < 0.3:
                        lines = rng.choice([3, 4, 12])
                        r = {"t": "edit", "id": r["id"], "lines": lines, "pos": rng.randint(0, 3 * lines)}
                    pool.append(r)
                    items.append(r)
                else:
                    items.append(new_item())
        nops = rng.randint(max(3, max_ops // 3), max_ops)
        for _ in range(nops):
            if unfocused_mode and rng.random() < 0.8:
                m = rng.random()
                if m < 0.25:
                    ops.append(["set_focus", rng.randint(0, 11), rng.choice([None, "above", "below"])])
                elif m < 0.5:
                    ops.append(["resize", rng.randint(3, 20), rng.randint(1, 10)])
                elif m < 0.9:
                    ops.append(gen_mouse(rng, button1=True))
                else:
                    ops.append(["lbfocus", rng.random() < 0.3])
                if rng.random() < 0.85:
                    ops.append(["render"])
                continue
            if scroll_mode and rng.random() < 0.8:
                m = rng.random()
                if m < 0.55:
                    ops.append(["key", rng.choice(["page down", "page up", "down", "up"])])
                elif m < 0.85:
                    ops.append(gen_mouse(rng, button1=True))
                else:
                    ops.append(["set_focus", rng.randint(0, 11), rng.choice([None, "above", "below"])])
                if rng.random() < 0.85:
                    ops.append(["render"])
                continue
            if rng.random() < 0.05:
                ops.extend(gen_refill(rng, new_item))
                continue
            ops.append(gen_op(rng, new_item, repeat_mode))
            if ops[-1][0] != "render" and rng.random() < 0.85:
                ops.append(["render"])
    except StopIteration:
        pass
    if not ops or ops[-1][0] != "render":
        ops.append(["render"])
    return {
        "walker": rng.choice(["slw"] * 3 + ["sflw"] * 3 + ["dictv2"] * 2 + ["dictv1"] + ["dictlax"]),
        "size": [rng.randint(3, 20), rng.randint(1, 10)],
        "lbfocus": (rng.random() < 0.92) and not unfocused_mode,
        "focus0": rng.randint(0, 11) if rng.random() < 0.3 else None,
        "observer": rng.choice(["none"] * 6 + ["draw"] * 3 + ["read"]),
        "items": items,
        "ops": ops,
    }


def opkind(op):
    if op is None:
        return "init"
    k = op[0]
    if k == "key":
        return "key:" + op[1].replace(" ", "")
    if k == "mouse":
        return op[1].split()[-1] + str(op[2])  # press1 / release0 / drag1 (a needed modifier prefix is named by classify)
    if k == "set_focus":
        return f"set_focus:{op[2]}"
    if k == "valign":
        return "valign:" + (op[1] if isinstance(op[1], str) else "relative")
    if k == "imul":
        return f"imul{op[1]}"
    return k


def exckind(e):
    msg = (str(e).splitlines() or [""])[0]
    msg = re.sub(r"<[^>]*>", "W", msg)
    msg = re.sub(r"\(?-?\d+(, ?-?\d+)*\)?", "N", msg)
    msg = re.sub(r"[^A-Za-z]+", "_", msg).strip("_")
    entry = ("cached_render", "finalize", "render", "keypress", "mouse_event", "calculate_visible", "get_cursor_coords", "ends_visible")
    names = [f.name for f in traceback.extract_tb(e.__traceback__) if "/urwid/" in f.filename and f.name not in entry]
    return f"{type(e).__name__}:{msg[:48]}|in={'>'.join(names[-2:])}"


class Failure(Exception):
    def __init__(self, clause, kind, msg):
        super().__init__(msg)
        self.clause = clause
        self.kind = kind
        self.msg = msg


class NullCount:
    def __call__(self, key, n=1):
        pass


# ------------------------------------------------------------------ executing one case


class Run:
    def __init__(self, case, count=None):
        import urwid
        from vmon.monitors import c07_spies as S

        self.urwid = urwid
        self.S = S
        self.case = case
        self.count = count or NullCount()
        self.log = []
        self.size = tuple(case["size"])
        self.lbfocus = bool(case["lbfocus"])
        self.objs = {}
        self.model = [self.make_item(r) for r in case["items"]]
        wk = case["walker"]
        self.wk = wk
        if wk == "slw":
            self.walker = urwid.SimpleListWalker(list(self.model))
        elif wk == "sflw":
            self.walker = urwid.SimpleFocusListWalker(list(self.model))
        elif wk == "dictv2":
            self.walker = S.DictWalkerV2(list(self.model))
        elif wk == "dictlax":
            self.walker = S.DictWalkerLax(list(self.model))
        else:
            self.walker = S.DictWalkerV1(list(self.model))
        if case.get("focus0") is not None and self.model:
            self.walker.set_focus(self.pos_of(case["focus0"] % len(self.model)))
        self.lb = urwid.ListBox(self.walker)
        # an application handler on the walker's "modified" signal, connected after the ListBox's own
        self.observer = case.get("observer", "none")
        self.in_mutator = False
        self.in_signal = False
        self.signal_failure = None
        self.failed_in_signal = False
        self.drew_in_signal = False
        self.stale_focus_redraw = False
        self.sig_pos = None
        if self.observer != "none":
            urwid.connect_signal(self.walker, "modified", self.on_modified)
        self.last_op = None
        self.layout = None  # (candidates, owners, shown) of the last judged render, valid until the next op
        self.step = -1
        self.renders = 0
        self.held = None
        self.pre_focus = None
        self.emptied_with_focus = None

    # ---- items
    def make_item(self, r):
        """one widget object per ident: a recipe whose id was already built yields the SAME object again
        (the same widget sitting at several positions of the list)"""
        urwid, S = self.urwid, self.S
        t = r["t"]
        if r["id"] in self.objs:
            return self.objs[r["id"]]
        if t == "spy":
            w = S.SpyFlow(r["id"], r["h"], r["sel"], r.get("nx", 0), self.log)
        elif t == "cur":
            w = S.SpyCursorFlow(r["id"], r["h"], r.get("nx", 0), self.log, r.get("cx", 0), r.get("cy", 0))
        elif t == "edit":
            text = "\n".join(f"{r['id']}{i}" for i in range(r["lines"]))
            w = urwid.Edit("", text, multiline=True)
            w.set_edit_pos(min(r.get("pos", 0), len(text)))
        elif t == "pile0":
            w = urwid.Pile([])
        else:
            raise ValueError(t)
        w._c07 = r
        self.objs[r["id"]] = w
        return w

    def item_rows(self, w, maxcol, focus):
        r = w._c07
        if r["t"] in ("spy", "cur"):
            return [self.S.spy_row_text(r["id"], i, maxcol) for i in range(self.S.spy_height(r["h"], r.get("nx", 0), maxcol))]
        canv = w.render((maxcol,), focus)
        return [b"".join(seg[2] for seg in row).decode("ascii", "replace") for row in canv.content()]

    def item_height(self, w, maxcol):
        r = w._c07
        if r["t"] in ("spy", "cur"):
            return self.S.spy_height(r["h"], r.get("nx", 0), maxcol)
        return w.rows((maxcol,), False)

    def pos_of(self, idx):
        if self.wk in ("slw", "sflw"):
            return idx
        return self.walker.pos_of_index(idx)

    def focus_index(self):
        """(focus widget, index of the focus POSITION in the mirrored list or None).  Items are positions:
        the same widget object may sit at several of them."""
        w, pos = self.walker.get_focus()
        if w is None:
            return None, None
        if self.wk in ("slw", "sflw"):
            idx = pos
        else:
            idx = self.walker.keys.index(pos) if pos in self.walker.keys else None
        if not isinstance(idx, int) or not 0 <= idx < len(self.model) or self.model[idx] is not w:
            return w, None
        return w, idx

    # ---- observer inside the walker's "modified" signal
    def on_modified(self):
        """what an application does that redraws (loop.draw_screen()) or looks at the focus whenever the list changes.

        Judged only when the signal comes from a list-mutating call made by the history itself: the bundled walkers emit
        "modified" when the mutation is complete, so list and focus are in their final state and a render there is a
        render like any other.  Signals emitted while the ListBox is inside its own keypress / mouse_event / render
        (walker.set_focus from change_focus etc.) find a ListBox that is half-way through an operation; the statement
        speaks about looks between operations, so there the observer only reads the focus and is not judged."""
        self.count("observer:modified_signals")
        if self.in_signal or self.signal_failure is not None:
            return
        if not self.in_mutator:
            self.walker.get_focus()
            self.count("observer:signals_inside_listbox_operation_not_judged")
            return
        self.in_signal = True
        try:
            w, fi = self.focus_index()
            self.count("eval:focus_read_inside_modified_signal")
            self.sig_pos = self.walker.get_focus()[1]
            try:
                lbw = self.lb.focus
                lbpos = self.lb.focus_position if self.model else None
            except Exception as e:  # noqa: BLE001
                lbw = lbpos = f"raises {type(e).__name__}: {e}"
                w = None
            if self.model and (w is None or lbw is None or fi is None):
                raise Failure("focus-valid", "no-valid-focus", f"inside 'modified': walker.get_focus()={self.walker.get_focus()!r} lb.focus={lbw!r} lb.focus_position={lbpos!r} although the list has {len(self.model)} items")
            if self.observer == "draw":
                self.count("eval:render_inside_modified_signal")
                self.drew_in_signal = True
                self.render_and_check()
                self.sig_pos = self.walker.get_focus()[1]  # a first render may itself move the focus (first selectable)
        except Failure as f:
            self.signal_failure = f
            self.failed_in_signal = True
        finally:
            self.in_signal = False

    # ---- classification of the state at failure
    def state_sig(self):
        maxcol, maxrow = self.size
        try:
            w, fi = self.focus_index()
        except Exception:  # noqa: BLE001
            w, fi = None, None
        hs = [self.item_height(it, maxcol) for it in self.model]
        if w is None or fi is None:
            fclass = "none"
            fi = None
        else:
            h = hs[fi]
            hc = "h0" if h == 0 else ("h1" if h == 1 else ("tall" if h > maxrow else "multi"))
            t = w._c07["t"]
            kind = {"cur": "cursor", "edit": "edit", "pile0": "unsel"}.get(t) or ("sel" if w._c07.get("sel") else "unsel")
            fclass = f"{kind},{hc}"
        zero = "none"
        if any(h == 0 for h in hs):
            zero = "list"
            if fi is not None:
                if hs[fi] == 0:
                    zero = "focus"
                else:
                    # a 0-row item within maxrow rows of the focus item (either side) can take part in the view
                    for rng_ in (range(fi - 1, -1, -1), range(fi + 1, len(hs))):
                        dist = 0
                        for j in rng_:
                            if hs[j] == 0:
                                zero = "view"
                                break
                            dist += hs[j]
                            if dist >= maxrow:
                                break
        repeat = len({id(it) for it in self.model}) < len(self.model)
        return {"op": opkind(self.last_op), "zero": zero, "focus": fclass, "repeat": repeat}

    # ---- ops
    def apply(self, op):
        k = op[0]
        lb = self.lb
        if k == "render":
            self.render_and_check()
            return
        layout = self.layout
        self.layout = None
        self.last_op = op
        self.pre_focus = None
        if k == "mouse":
            self.pre_focus = self.state_sig()["focus"]  # the focus class before the press (a failed press moves it)
        self.count("op:" + opkind(op).split(":")[0])
        n = len(self.model)
        if k == "key":
            if not self.lbfocus:
                self.count("skipped:key_while_unfocused")
                return
            self.count("eval:keypress_no_raise")
            if op[1] in ("page down", "page up") and self.state_sig()["focus"] == "unsel,tall":
                self.count("cover:page_key_on_tall_unselectable_focus")
            try:
                lb.keypress(self.size, op[1])
            except Exception as e:  # noqa: BLE001
                raise Failure("raise", exckind(e), f"keypress({self.size},{op[1]!r}) raised {type(e).__name__}: {e}\n{traceback.format_exc(limit=8)}") from None
        elif k == "mouse":
            _k, ev, button, col, row = op
            col %= self.size[0]
            row %= self.size[1]
            target = None
            is_press = ev.endswith("mouse press")
            self.count("mouse_event:" + ev)
            before = self.focus_index()[1] if (layout is not None and not is_press) else None
            if layout is not None and is_press and button == 1:
                cands, owners, _shown = layout
                ts = {owners[p + row][2] if row < kk else None for p, kk in cands}
                if len(ts) == 1 and None not in ts:
                    target = owners[cands[0][0] + row]
            self.count("eval:mouse_no_raise")
            try:
                lb.mouse_event(self.size, ev, button, col, row, self.lbfocus)
            except Exception as e:  # noqa: BLE001
                raise Failure("raise", exckind(e), f"mouse_event({self.size},{ev!r},{button},{col},{row},{self.lbfocus}) raised {type(e).__name__}: {e}\n{traceback.format_exc(limit=8)}") from None
            if layout is not None and not is_press:
                # judged only right after a judged render: no pending focus change can be completed by this call
                self.count("eval:non_press_keeps_focus")
                nidx = self.focus_index()[1]
                if nidx != before:
                    raise Failure("mouse-nonpress", "focus-moved", f"{ev!r} button {button} at col {col} row {row} moved the focus from list index {before} to {nidx}")
            if target is not None and target[0].selectable():
                self.count("eval:mouse1_makes_focus")
                self.count("eval:mouse1_makes_focus:" + ev)
                if not self.lbfocus:
                    self.count("eval:mouse1_on_unfocused_listbox")
                tw, _trow, tidx = target
                if sum(1 for it in self.model if it is tw) > 1:
                    self.count("eval:mouse1_on_repeated_widget_object")
                now, nidx = self.focus_index()
                if nidx != tidx:
                    kind = "focus-not-on-pressed-item" if now is not tw else "focus-on-other-position-of-same-widget"
                    raise Failure(
                        "mouse1-focus",
                        kind,
                        f"{ev!r} button 1 at col {col} row {row} on visible selectable item {tw._c07} at list index {tidx} left focus on {getattr(now, '_c07', None)} at list index {nidx}",
                    )
        elif k == "set_focus":
            if n == 0:
                self.count("skipped:set_focus_on_empty")
                return
            pos = self.pos_of(op[1] % n)
            try:
                lb.set_focus(pos, op[2])
            except Exception as e:  # noqa: BLE001
                raise Failure("raise", exckind(e), f"set_focus({pos},{op[2]!r}) raised {type(e).__name__}: {e}") from None
        elif k == "ends_visible":
            self.count("eval:ends_visible_no_raise")
            try:
                lb.ends_visible(self.size, self.lbfocus)
            except Exception as e:  # noqa: BLE001
                raise Failure("raise", exckind(e), f"ends_visible({self.size}, {self.lbfocus}) raised {type(e).__name__}: {e}\n{traceback.format_exc(limit=8)}") from None
        elif k == "valign":
            v = op[1] if isinstance(op[1], str) else tuple(op[1])
            try:
                lb.set_focus_valign(v)
            except Exception as e:  # noqa: BLE001
                raise Failure("raise", exckind(e), f"set_focus_valign({v!r}) raised {type(e).__name__}: {e}") from None
        elif k == "resize":
            self.size = (op[1], op[2])
        elif k == "lbfocus":
            self.lbfocus = bool(op[1])
        elif k in MUTATORS:
            try:
                was = (n, self.focus_index()[1])
                self.in_mutator = True
                try:
                    self.mutate(op, n)
                finally:
                    self.in_mutator = False
                if self.signal_failure is not None:
                    raise self.signal_failure
                if self.drew_in_signal:
                    self.drew_in_signal = False
                    if self.walker.get_focus()[1] != self.sig_pos:
                        # the walker moved its focus after emitting "modified" (and did not emit again): the canvas
                        # drawn inside the signal shows another focus than the list has now
                        self.stale_focus_redraw = True
                        self.count("cover:focus_adjusted_after_modified_signal_redraw")
                if n and not self.model:
                    self.emptied_with_focus = was[1]  # list just emptied; where the focus was
                elif self.model and not n:
                    if self.emptied_with_focus and k in ("iadd", "extend") and len(self.model) <= self.emptied_with_focus:
                        self.count("cover:refill_by_iadd_or_extend_after_emptying_with_high_focus")
                    self.count("cover:refill_after_emptying")
                    self.emptied_with_focus = None
            except Failure:
                raise
            except Exception as e:  # noqa: BLE001
                raise Failure("raise", exckind(e), f"walker {op} raised {type(e).__name__}: {e}\n{traceback.format_exc(limit=8)}") from None
        else:
            raise ValueError(op)

    def mutate(self, op, n):
        """apply one list-mutating call.  The mirrored list is updated BEFORE the walker is called (stepwise for the
        dict walkers' multi-call ops), so that an observer running inside the walker's "modified" signal - which the
        walkers emit when the mutation is complete - is judged against the list as it is at that moment."""
        k = op[0]
        simple = self.wk in ("slw", "sflw")
        wk = self.walker
        old = list(self.model)
        if k == "insert":
            idx = op[1] % (n + 1)
            w = self.make_item(op[2])
            self.model.insert(idx, w)
            if simple:
                wk.insert(idx, w)
            elif not wk.insert_at(idx, w):
                self.model[:] = old
                self.count("skipped:no_room_for_key")
        elif k == "delete":
            if n == 0:
                self.count("skipped:delete_on_empty")
                return
            idx = op[1] % n
            del self.model[idx]
            if simple:
                del wk[idx]
            else:
                wk.delete_at(idx)
        elif k == "replace":
            if n == 0:
                self.count("skipped:replace_on_empty")
                return
            idx = op[1] % n
            w = self.make_item(op[2])
            self.model[idx] = w
            if simple:
                wk[idx] = w
            else:
                wk.replace_at(idx, w)
        elif k in ("clear", "clearm"):
            del self.model[:]
            if not simple:
                wk.clear_all()
            elif k == "clear":
                del wk[:]
            else:
                wk.clear()
        elif k in ("iadd", "extend"):
            if n > GROW_LIMIT:
                self.count("skipped:list_too_long")
                return
            ws = [self.make_item(r) for r in op[1]]
            if simple:
                self.model.extend(ws)
                if k == "iadd":
                    wk += ws
                    if wk is not self.walker:
                        raise TypeError("walker += items returned another object")
                else:
                    wk.extend(ws)
            else:
                for w in ws:
                    self.model.append(w)
                    if not wk.insert_at(len(self.model) - 1, w):
                        self.model.pop()
                        self.count("skipped:no_room_for_key")
                        break
        elif k == "imul":
            m = op[1]
            if m == 2 and n > GROW_LIMIT // 2:
                self.count("skipped:list_too_long")
                return
            if simple:
                self.model *= m
                wk *= m
                if wk is not self.walker:
                    raise TypeError("walker *= n returned another object")
            elif m == 0:
                del self.model[:]
                wk.clear_all()
            elif m == 2:
                self.count("skipped:not_a_list_walker")
        elif k == "setslice":
            if n > GROW_LIMIT:
                self.count("skipped:list_too_long")
                return
            ws = [self.make_item(r) for r in op[3]]
            if simple:
                self.model[op[1] : op[2]] = ws
                wk[op[1] : op[2]] = ws
            else:
                start, stop, _st = slice(op[1], op[2]).indices(n)
                for i in range(max(start, stop) - 1, start - 1, -1):
                    del self.model[i]
                    wk.delete_at(i)
                for j, w in enumerate(ws):
                    self.model.insert(start + j, w)
                    if not wk.insert_at(start + j, w):
                        del self.model[start + j]
                        self.count("skipped:no_room_for_key")
                        break
        elif k in ("pop", "remove"):
            if n == 0:
                self.count("skipped:delete_on_empty")
                return
            idx = (n - 1) if op[1] == -1 else op[1] % n
            if k == "remove":
                idx = next(i for i, it in enumerate(old) if it is old[idx])  # first occurrence
            del self.model[idx]
            if not simple:
                wk.delete_at(idx)
            elif k == "pop":
                got = wk.pop(-1 if op[1] == -1 else idx)
                if got is not old[idx]:
                    raise TypeError("walker.pop(i) returned another object than walker[i]")
            else:
                wk.remove(old[idx])
        elif k in ("reverse", "sort"):
            if not simple:
                self.count("skipped:not_a_list_walker")
            elif k == "reverse":
                self.model.reverse()
                wk.reverse()
            else:
                self.model.sort(key=lambda w: w._c07["id"])
                wk.sort(key=lambda w: w._c07["id"])
        elif k == "dup":
            if n == 0 or n > GROW_LIMIT:
                self.count("skipped:dup")
                return
            w = old[op[1] % n]
            idx = op[2] % (n + 1)
            self.model.insert(idx, w)
            if simple:
                wk.insert(idx, wk[op[1] % n])
            elif not wk.insert_at(idx, w):
                self.model[:] = old
                self.count("skipped:no_room_for_key")

    # ---- the oracle
    def render_and_check(self):
        maxcol, maxrow = self.size
        lb, count = self.lb, self.count
        count("eval:render_no_raise")
        try:
            canv = lb.render(self.size, focus=self.lbfocus)
            content = [b"".join(seg[2] for seg in row) for row in canv.content()]
            ccur = canv.cursor
        except Exception as e:  # noqa: BLE001
            raise Failure("raise", exckind(e), f"render({self.size}, focus={self.lbfocus}) raised {type(e).__name__}: {e}\n{traceback.format_exc(limit=8)}") from None
        self.renders += 1
        # CanvasCache holds canvases weakly; a display screen keeps the last drawn canvas alive, and so do we:
        # otherwise the ListBox's cached canvas dies at once and a missing invalidation could never show
        from_cache = canv is self.held
        if from_cache:
            count("cover:render_served_from_cache")
        self.held = canv
        shown = [b.decode("ascii", "replace") for b in content]
        fw, fi = self.focus_index()
        # concatenation of all items at this width
        full = []
        owners = []
        span = None
        for idx, it in enumerate(self.model):
            rows = self.item_rows(it, maxcol, self.lbfocus and idx == fi)
            if idx == fi:
                span = (len(full), len(full) + len(rows))
            for i, t in enumerate(rows):
                full.append(t)
                owners.append((it, i, idx))
        count("eval:slice")
        if len(shown) != maxrow or any(len(t) != maxcol for t in shown):
            raise Failure("slice", "shape", f"canvas is {len(shown)} rows x {sorted({len(t) for t in shown})} cols for size {self.size}")
        blank = " " * maxcol
        # candidates (p, k): shown[:k] == full[p:p+k] and shown[k:] all blank
        cands = []
        kmin = maxrow
        while kmin > 0 and shown[kmin - 1] == blank:
            kmin -= 1
        for k in range(kmin, maxrow + 1):
            if k == 0:
                cands.append((0, 0))
                continue
            first = shown[0]
            for p in range(0, len(full) - k + 1):
                if full[p] == first and full[p : p + k] == shown[:k]:
                    cands.append((p, k))
        if full:
            count("eval:no_blank_above")
        if not cands:
            raise Failure("slice", self.diagnose(shown, full, blank), self.describe(shown, full, span, ccur))
        if len(cands) > 1:
            count("ambiguous_window")
        if kmin < maxrow:
            count("eval:blank_below_only_if_all_shown")
        valid = [(p, k) for p, k in cands if k == maxrow or (p == 0 and k == len(full))]
        if not valid:
            p, k = cands[0]
            kind = "rows-hidden-above" if p > 0 else "before-end-of-list"
            raise Failure("blank-below", kind, self.describe(shown, full, span, ccur))
        cands = valid
        # focus row visible
        if fw is not None and span is None:
            raise Failure("focus-visible", "focus-position-not-in-list", f"walker focus {self.walker.get_focus()!r} is not a position of the list holding that widget (list has {len(self.model)} items)")
        if span is not None:
            if span[0] == span[1]:
                count("na:focus_has_zero_rows")
            else:
                count("eval:focus_row_visible")
                ok = [(p, k) for p, k in cands if span[0] < p + k and span[1] > p]
                if not ok:
                    p, k = cands[0]
                    kind = "focus-above-window" if span[1] <= p else "focus-below-window"
                    raise Failure("focus-visible", kind, self.describe(shown, full, span, ccur))
                cands = ok
        # cursor
        want = None
        if self.lbfocus and fw is not None and fw.selectable() and hasattr(fw, "get_cursor_coords"):
            want = fw.get_cursor_coords((maxcol,))
        if want is not None:
            count("eval:cursor_row_visible")
            cx, cy = want
            rows_ok = [(p, k) for p, k in cands if 0 <= span[0] + cy - p < k]
            if not rows_ok:
                p, k = cands[0]
                kind = "cursor-row-above-window" if span[0] + cy < p else "cursor-row-below-window"
                raise Failure("cursor", kind, self.describe(shown, full, span, ccur) + f" item cursor={want}")
            ok = [(p, k) for p, k in rows_ok if ccur == (cx, span[0] + cy - p)]
            if not ok:
                kind = "canvas-cursor-missing" if ccur is None else "canvas-cursor-elsewhere"
                raise Failure("cursor", kind, self.describe(shown, full, span, ccur) + f" item cursor={want}")
            cands = ok
        else:
            count("eval:no_spurious_cursor")
            if ccur is not None:
                raise Failure("cursor", "spurious-canvas-cursor", self.describe(shown, full, span, ccur))
        # coverage classes
        p, k = cands[0]
        if k and owners[p][1] > 0:
            count("cover:window_starts_inside_item")
        if k == maxrow and p + k < len(full) and owners[p + k][1] > 0:
            count("cover:window_ends_inside_item")
        if span is not None and span[1] - span[0] > maxrow:
            count("cover:focus_taller_than_box")
        if len(full) > maxrow:
            count("cover:list_longer_than_box")
        if len({id(it) for it in self.model}) < len(self.model):
            count("cover:list_with_repeated_widget_object")
            if len({id(owners[p + i][0]) for i in range(k)}) < len({owners[p + i][2] for i in range(k)}):
                count("cover:repeated_widget_object_visible_twice")
        if any(it._c07["t"] == "pile0" or (it._c07["t"] != "edit" and self.item_height(it, maxcol) == 0) for it in self.model):
            count("cover:zero_row_item_in_list")
        self.layout = (cands, owners, shown)
        if not self.in_signal and not from_cache:
            self.stale_focus_redraw = False  # the ListBox has really been drawn again since the in-signal redraw

    def diagnose(self, shown, full, blank):
        idx = {}
        for i, t in enumerate(full):
            idx.setdefault(t, []).append(i)
        body = list(shown)
        while body and body[-1] == blank:
            body.pop()
        lead = 0
        while lead < len(body) and body[lead] == blank and blank not in idx:
            lead += 1
        if lead:
            rest = body[lead:]
            if any(full[p : p + len(rest)] == rest for p in range(len(full) - len(rest) + 1)):
                return "blank-above"
        if any(t != blank and t not in idx for t in body):
            return "row-not-in-any-item"
        if any(t == blank and t not in idx for t in body):
            return "blank-inside"
        prev = None
        for t in body:
            c = idx[t]
            if len(c) != 1:
                prev = None
                continue
            if prev is not None:
                if c[0] > prev + 1:
                    return "gap"
                if c[0] <= prev:
                    return "repeat-or-out-of-order"
            prev = c[0]
        return "other"

    def describe(self, shown, full, span, ccur):
        return f"size={self.size} focus={self.lbfocus} shown={[t.rstrip() for t in shown]} full={[t.rstrip('. ') for t in full]} focus_span={span} canvas_cursor={ccur}"

    def execute(self):
        """returns None or (base signature, state parts, msg, step)"""
        for i, op in enumerate(self.case["ops"]):
            self.step = i
            try:
                self.apply(op)
            except Failure as f:
                st = self.state_sig()
                if f.clause == "mouse1-focus" and self.pre_focus:
                    st["focus"] = self.pre_focus
                base = f"C07|{f.clause}|{f.kind}"
                if self.failed_in_signal:
                    base += "|at=inside-modified-signal"
                if f.clause == "focus-valid" and self.failed_in_signal:
                    return base, st, f.msg, i
                if self.stale_focus_redraw and not self.failed_in_signal and f.clause != "raise":
                    # one mechanism whatever clause notices it first: an ordinary render served the canvas that was
                    # drawn inside the signal before the walker adjusted its focus
                    return "C07|stale-redraw|focus-adjusted-after-modified-signal", st, f"[{f.clause}|{f.kind}] {f.msg}", i
                if f.clause != "raise":
                    base += f"|op={st['op']}|focus={st['focus'].split(',')[0].replace('edit', 'cursor')}"
                return base, st, f.msg, i
        return None


def map_op(op, fn):
    k = op[0]
    if k in ("insert", "replace"):
        return [k, op[1], fn(op[2])]
    if k in ("iadd", "extend"):
        return [k, [fn(r) for r in op[1]]]
    if k == "setslice":
        return [k, op[1], op[2], [fn(r) for r in op[3]]]
    return op


def map_case(case, fn):
    """apply fn to every item recipe of the case (initial items and the ones carried by ops)"""
    return dict(case, items=[fn(r) for r in case["items"]], ops=[map_op(o, fn) for o in case["ops"]])


def all_recipes(case):
    out = {}
    map_case(case, lambda r: out.setdefault(r["id"], r))
    return out


def lift_zero(r):
    """the same item with at least one row"""
    if r["t"] == "pile0":
        return {"t": "spy", "id": r["id"], "h": 1, "sel": False, "nx": 0}
    if r["t"] in ("spy", "cur") and r["h"] == 0:
        return dict(r, h=1)
    return r


def primary(case, count=None):
    """execute the case; returns (Run, None) or (Run, (base signature, state parts, msg, step))"""
    r = Run(case, count)
    return r, r.execute()


def reproduces(case, base):
    try:
        _r, res = primary(case)
    except Exception:  # noqa: BLE001
        return False
    return res is not None and res[0] == base


SIGNAL_ORDER_BASES = ("C07|stale-redraw|", "C07|focus-valid|no-valid-focus|at=inside-modified-signal")


def classify(wit, base, st):
    """full signature of a (shrunk) witness.

    The shrinker removes every feature it can while the base signature (clause, kind of mismatch / exception
    site) still reproduces: 0-row items are given a row, the walker is turned into SimpleFocusListWalker, the
    ListBox is given focus.  What is left in the witness is therefore necessary for it, and is named:
    zero=<focus|view|none>, walker=<any|slw|sflw|dictv1|dictv2> (a walker is named only if no other walker class
    reproduces it), listbox=unfocused, list=repeated-widget-object (the same widget object at two positions)."""
    zero = {"focus": "focus", "view": "view", "list": "view", "none": "none"}[st["zero"]]
    walker = wit["walker"]
    others = {"slw": ("sflw", "dictv2"), "sflw": ("slw", "dictv2")}.get(walker, ("sflw", "slw"))
    if any(reproduces(dict(wit, walker=o), base) for o in others):
        walker = "any"  # not specific to one walker class
    if base.startswith(SIGNAL_ORDER_BASES):
        return f"{base}|walker={wit['walker']}"  # about the walker class's own signal/focus order: always named
    sig = base
    if st.get("repeat"):
        sig += "|list=repeated-widget-object"
    if wit.get("observer", "none") != "none" and "|at=inside-modified-signal" not in base:
        sig += "|observer=" + wit["observer"]  # a handler on the walker's "modified" signal is necessary for the witness
    last = wit["ops"][-1]
    if last[0] == "mouse" and not last[1].startswith("mouse "):
        sig += "|event=with-modifier-prefix"  # the shrinker could not strip the prefix from the failing event
    if not wit["lbfocus"] or any(o[0] == "lbfocus" for o in wit["ops"]):
        if not reproduces(dict(wit, lbfocus=True, ops=[o for o in wit["ops"] if o[0] != "lbfocus"]), base):
            sig += "|listbox=unfocused"
    return f"{sig}|zero={zero}|walker={walker}"


def run_case(case, count=None):
    """execute + classify without shrinking; returns (Run, None) or (Run, (sig, msg, step))"""
    r, res = primary(case, count)
    if res is None:
        return r, None
    base, st, msg, step = res
    return r, (classify(case, base, st), msg, step)


# ------------------------------------------------------------------ shrinking


def shrink(case, base, step, max_runs=220):
    """delta-debug the recipe while the same base signature reproduces"""
    best = dict(case, ops=case["ops"][: step + 1])
    runs = [0]

    def same(c):
        if runs[0] >= max_runs:
            return False
        runs[0] += 1
        return reproduces(c, base)

    def variants_item(r):
        out = []
        if r["t"] == "pile0" or (r["t"] in ("spy", "cur") and r["h"] == 0):
            out.append(lift_zero(r))
        if r["t"] in ("spy", "cur"):
            if r.get("nx"):
                out.append(dict(r, nx=0))
            for h in (1, 2, 3, 5, 12):
                if 0 < h < r["h"]:
                    out.append(dict(r, h=h, cy=0) if r["t"] == "cur" else dict(r, h=h))
            if r["t"] == "cur" and (r.get("cx") or r.get("cy")):
                out.append(dict(r, cx=0, cy=0))
        elif r["t"] == "edit":
            if r["lines"] > 1:
                out.append(dict(r, lines=1, pos=0))
                out.append(dict(r, lines=2, pos=0))
            if r.get("pos"):
                out.append(dict(r, pos=0))
        return out

    progress = True
    while progress and runs[0] < max_runs:
        progress = False
        # drop ops (never the last one: it is the failing step)
        i = len(best["ops"]) - 2
        while i >= 0:
            c = dict(best, ops=best["ops"][:i] + best["ops"][i + 1 :])
            if same(c):
                best = c
                progress = True
            i -= 1
        # drop items
        i = len(best["items"]) - 1
        while i >= 0:
            c = dict(best, items=best["items"][:i] + best["items"][i + 1 :])
            if same(c):
                best = c
                progress = True
            i -= 1
        # canonical walker / flags
        patches = [{"walker": "sflw"}, {"walker": "slw"}, {"walker": "dictv2"}, {"focus0": None}, {"size": [10, best["size"][1]]}, {"observer": "none"}]
        for patch in patches:
            if all(best.get(k) == v for k, v in patch.items()):
                continue
            if patch.get("walker") == "dictv2" and best["walker"] != "dictv1":
                continue
            if patch.get("walker") == "slw" and best["walker"] in ("slw", "sflw"):
                continue
            if "walker" in patch and base.startswith(SIGNAL_ORDER_BASES):
                continue  # the walker class is the subject of these signatures
            c = dict(best, **patch)
            if same(c):
                best = c
                progress = True
        if not best["lbfocus"] or any(o[0] == "lbfocus" for o in best["ops"]):
            c = dict(best, lbfocus=True, ops=[o for o in best["ops"] if o[0] != "lbfocus"])
            if same(c):
                best = c
                progress = True
        # plain mouse event names
        for i, op in enumerate(best["ops"]):
            if op[0] == "mouse" and not op[1].startswith("mouse "):
                c = dict(best, ops=best["ops"][:i] + [["mouse", "mouse " + op[1].split()[-1], *op[2:]]] + best["ops"][i + 1 :])
                if same(c):
                    best = c
                    progress = True
        # drop elements of the item lists carried by iadd / extend / setslice
        for i in range(len(best["ops"]) - 1, -1, -1):
            op = best["ops"][i]
            li = {"iadd": 1, "extend": 1, "setslice": 3}.get(op[0])
            if li is None:
                continue
            j = len(op[li]) - 1
            while j >= 0:
                op = best["ops"][i]
                nop = list(op)
                nop[li] = op[li][:j] + op[li][j + 1 :]
                c = dict(best, ops=best["ops"][:i] + [nop] + best["ops"][i + 1 :])
                if same(c):
                    best = c
                    progress = True
                j -= 1
        # simplify items: one recipe per ident, changed at every place it occurs (initial list and inside ops)
        for ident, r in all_recipes(best).items():
            for v in variants_item(r):
                c = map_case(best, lambda x, ident=ident, v=v: v if x["id"] == ident else x)
                if same(c):
                    best = c
                    progress = True
                    break
    return best


# ------------------------------------------------------------------ driver

_SEEN: dict = {}
_SHRINK_TIME = [0.0]


def standalone(case):
    return "cd /verif && /venv/bin/python -B -c \"import sys,json; sys.path[:0]=['/repo','/verif']; from vmon.checks import c07; print(c07.run_case(json.loads(sys.argv[1]))[1])\" '" + json.dumps(case) + "'"


def short(base):
    return base[4:].replace("|", "/")[:110]


def report(ctx, case, res):
    """shrink, classify, report.  Only the first K failures per base signature and shard are shrunk and
    classified (bounded cost on a tree with frequent known failures); all are counted."""
    import time

    base, st, msg, step = res
    _SEEN[base] = _SEEN.get(base, 0) + 1
    ctx.count("failure:" + short(base))
    k = ctx.pick(3, 8)
    if _SEEN[base] > k or _SHRINK_TIME[0] > 0.45 * ctx.budget:
        ctx.count("failures_counted_not_classified")
        return
    t0 = time.monotonic()
    wit = shrink(case, base, step)
    _r, res2 = primary(wit)
    if res2 is None or res2[0] != base:  # cannot happen (shrink only accepts reproducing candidates)
        wit, res2 = dict(case, ops=case["ops"][: step + 1]), res
    sig = classify(wit, base, res2[1])
    _SHRINK_TIME[0] += time.monotonic() - t0
    ctx.count("failures_shrunk_and_classified")
    ctx.violation(sig, res2[2] + "\nstandalone: " + standalone(wit), wit)


WALKERS = ("slw", "sflw", "dictv2", "dictv1", "dictlax")


def directed_pending_focus_cases():
    """never-skipped core: set_focus(new, coming_from) and then the OLD focus position is removed (or more, or the
    whole list emptied) before the next render / keypress / mouse_event / ends_visible, for every walker flavour
    (in particular the custom ones: validating and non-validating set_focus) at several sizes"""
    for wk in WALKERS:
        for size in ([10, 1], [6, 4], [20, 10]):
            for n in (3, 8):
                items = [{"t": "spy", "id": IDS[i], "h": 1, "sel": i % 2 == 0, "nx": 0} if i != 1 else {"t": "edit", "id": IDS[i], "lines": 1, "pos": 0} for i in range(n)]
                for old, new in ((n - 1, 0), (1, n - 1)):
                    for cf in (None, "above", "below"):
                        for removal in ("old", "old+first", "old+last", "clear", "all-but-new"):
                            if removal == "old":
                                rm = [["delete", old]]
                            elif removal == "old+first":
                                rm = [["delete", old], ["delete", 0]]
                            elif removal == "old+last":
                                rm = [["delete", old], ["pop", -1]]
                            elif removal == "clear":
                                rm = [["clear"]]
                            else:
                                rm = [["delete", i] for i in range(n - 1, -1, -1) if i != new]
                            for nxt in (["render"], ["key", "down"], ["key", "page up"], ["mouse", "mouse press", 1, 1, 0], ["ends_visible"]):
                                ops = [["set_focus", old, None], ["render"], ["set_focus", new, cf], *rm, nxt, ["render"], ["key", "up"], ["render"]]
                                yield {"walker": wk, "size": size, "lbfocus": True, "focus0": None, "observer": "none", "items": items, "ops": ops}


def run(ctx):
    import urwid

    LB = urwid.ListBox
    reach.watch(
        LB.calculate_visible,
        LB.render,
        LB.change_focus,
        LB.shift_focus,
        LB.make_cursor_visible,
        LB._set_focus_complete,
        LB._set_focus_valign_complete,
        LB._set_focus_first_selectable,
        LB._keypress_up,
        LB._keypress_down,
        LB._keypress_page_up,
        LB._keypress_page_down,
        LB._keypress_max_left,
        LB._keypress_max_right,
        LB.mouse_event,
        LB.get_focus_offset_inset,
    )
    rng = ctx.rng
    max_ops = ctx.pick(20, 50)
    for i, case in enumerate(directed_pending_focus_cases()):
        if not ctx.mine(i):
            continue
        r, res = primary(case, ctx.count)
        ctx.count("directed:pending_focus_then_removal")
        ctx.count("directed:walker:" + case["walker"])
        ctx.case(json.dumps(case, sort_keys=True), nontrivial=True)
        if res is not None:
            ctx.count("histories_with_failure")
            report(ctx, case, res)
    n = 0
    while ctx.more(1.0):
        n += 1
        case = gen_case(rng, max_ops)
        r, res = primary(case, ctx.count)
        ctx.count("histories")
        ctx.count("walker:" + case["walker"])
        ctx.count("ops_applied", r.step + 1)
        for e in r.log:
            ctx.count("spy_call:" + e[0])
        ctx.case(json.dumps(case, sort_keys=True), nontrivial=r.renders > 0)
        if n <= 1:
            ctx.sample(case)
        if res is not None:
            ctx.count("histories_with_failure")
            report(ctx, case, res)
    reach.flush(ctx)


def replay(ctx, wit):
    r, res = primary(wit, ctx.count)
    ctx.case(json.dumps(wit, sort_keys=True))
    if res is not None:
        base, st, msg, step = res
        ctx.violation(classify(wit, base, st), msg, wit)
    return res
