"""C03 text layout: every character once, in order, within the width.

The real StandardTextLayout / Text / apply_text_layout run on enumerated and random texts;
vmon.models.c03_layout (no urwid imports, wcwidth + own decoders) judges
  * the layout STRUCTURE (segments decoded independently, order/disjointness, omitted characters,
    line fit, 'any' fill, 'space' break positions, alignment pad, unrenderable text), and
  * the RENDERED rows of Text.render (bytes and charset runs), Text.rows, Text.pack.
Widgets are long-lived and reconfigured through set_text / .wrap / .align so the cached line
translation and the canvas cache are in the loop.
"""

from __future__ import annotations

import itertools

from vmon import reach
from vmon.models import c03_layout as M

PROPERTY = "C03"
LEVEL = "exploration"
SHARDS = {"quick": 8, "thorough": 16}
BUDGET = {"quick": 30.0, "thorough": 420.0}
REQUIRE = {
    "cases": 5000,
    "segments_decoded": 5000,
    "order_checks": 5000,
    "omitted_chars_judged": 2000,
    "omitted_zero_width_only_line_chars": 20,
    "wrap_spaces_consumed": 300,
    "any_fill_checks": 500,
    "space_break_checks": 300,
    "space_breaks_next_to_wide": 10,
    "space_texts_with_overlong_word": 100,
    "align_checks": 5000,
    "unrenderable_checks": 100,
    "rows_rendered": 10000,
    "row_bytes_compared": 10000,
    "rows_eq_checks": 5000,
    "pack_checks": 2000,
    "ellipsis_rows_with_mark": 200,
    "clip_rows_windowed": 200,
    "cache_coherence_checks": 2000,
    "window_checks": 60,
    "same_config_other_width_cases": 500,
    "text_only_change_cases": 150,
    "rows_before_render_checks": 2500,
    "random_cases": 200,
    "markup_cases": 1500,
    "markup_empty_cases:bare-empty": 800,
    "markup_empty_cases:attributed-empty": 300,
    "malformed_utf8_cases": 1000,
    "malformed_utf8_cases:F4-above-10FFFF": 100,
    "malformed_utf8_cases:lead-F5-F7": 50,
    "malformed_utf8_cases:overlong": 100,
    "malformed_utf8_cases:surrogate": 50,
    "malformed_utf8_cases:truncated-sequence": 100,
    "malformed_utf8_cases:lone-continuation": 50,
    "fixed_finding_directed_cases": 2000,
    "pack_fixed_checks": 500,
    "pack_fixed_multi_line": 200,
    "pack_fixed_widest_line_is_not_longest": 30,
    "long_line_cases": 1000,
    "long_line_width_gt_256_cases": 500,
    "long_line_cases:wide/bytes": 150,
    "long_line_cases:wide/str": 150,
    "long_line_cases:utf8/bytes": 60,
    "long_line_cases:utf8/str": 60,
    "long_line_cases:narrow/bytes": 30,
    "control_char_cases": 3000,
    "control_char_all_ascii_str_cases": 1500,
    "exh_strings:PCtl": 20,
    "encoding_interleave_cases": 2000,
    "encoding_switches_same_width": 1200,
    "encoding_switches_same_width_trimmed_ellipsis": 150,
    "exh_strings:P0": 15,
    "dec_glyph_rows": 20,
    "enc:utf8/str": 2000,
    "enc:utf8/bytes": 2000,
    "enc:wide/str": 1000,
    "enc:wide/bytes": 1000,
    "enc:narrow/str": 1000,
    "enc:narrow/bytes": 1000,
}
RULE = (
    "case = (encoding, str|bytes text, width, wrap, align) evaluated on a long-lived Text widget (reconfigured through "
    "set_text/.wrap/.align; rows() before and after render(); pack()). Alphabet {a,b,space,newline,wide 漢,combining acute} "
    "filtered per encoding to characters whose encoded length equals their wcwidth (iso8859-1 gets é instead). "
    "P0: every string of length <=3 (quick) / <=4 (thorough) x widths 1..6 x {any,space,clip,ellipsis} x {left,center,right} "
    "x {str,bytes} x {utf-8, euc-jp, iso8859-1}; PA/PB: every string up to length 5 (quick) / 7 (thorough) x widths x wraps "
    "with rotating alignment (PA: utf-8 str + euc-jp/iso8859-1 bytes, PB: the other text type); PC: full alignment product "
    "on a stride. Phases run in this order inside ~78% of the time budget (counters exh_strings:<phase>; "
    "exh_phase_complete:<phase> = number of shards that finished it). Rest of the budget: random texts to length 60 over "
    "ASCII/Latin-1/CJK/combining/ZWJ/VS16/emoji/line-drawing, widths to 40, encodings utf-8, euc-jp, gbk, big5, iso8859-1, "
    "ascii, koi8-r, plus same-config-other-width and text-only-change follow-ups (translation cache), pack(())/render(()) "
    "and shift_line/trim_line window views. Ellipsis/clip directed set under every encoding name of urwid's wide class that Python "
    "has a codec for (euc-jp, euc-kr, euc-cn, gb2312, gbk, big5, uhc, eucjp, euckr, euccn), the multi-byte codecs urwid classes "
    "as narrow (shift_jis, cp932, cp949, johab, big5hkscs, gb18030, euc_jis_2004, shift_jisx0213, hz, iso2022_jp) and the 8-bit / "
    "utf-8 families: 7 texts x widths 1..8 x 3 aligns x str/bytes. Every case named by the fixed C03 findings (4 fixes) with all "
    "alignments, neighbouring widths and window shifts, on every shard. Long lines: texts of 150..1500 characters (all double-width, double-width after 1/2/3 "
    "ASCII bytes, wide words, mixed, combining runs, ASCII words, unbroken ASCII, several long lines) x widths "
    "{255,256,257,300,511,512,513,1000} x 4 wraps, rotating alignment, as str and bytes under utf-8, euc-jp, gbk, big5, "
    "iso8859-1, cp1252. ASCII control characters (TAB, NUL, DEL, other C0 except newline and SO/SI; zero "
    "columns in str and utf-8 bytes, one column in 8-bit byte texts) appear in the random pools (incl. an all-ASCII style) and "
    "in a small exhaustive phase PCtl: every string of length <=4 (quick) / <=5 (thorough) over {a,space,TAB,newline(,DEL)} "
    "containing a control character x widths x wraps x aligns (utf-8 str; utf-8 and iso8859-1 bytes rotating). Encoding histories: fixed and random cases are laid out at the same width under "
    "interleaved encodings in one process (utf-8, cp1252, mac_roman, iso8859-1, cp1251, euc-jp, ascii, gbk; forward and "
    "reversed), including 8-bit code pages whose ellipsis string equals utf-8's but encodes to other bytes. distinct = distinct case tuples; non-trivial = text non-empty"
)
ASSUMES = [
    "display width of a code point = max(0, wcwidth.wcwidth(cp)); str texts are judged by code point, bytes by the encoding mode",
    "texts contain only characters representable in the target encoding with encoded length == width (wide/narrow); ASCII control "
    "characters are in the domain as str only under utf-8 (zero columns by wcwidth<0 -> 0) and as bytes everywhere (one column per "
    "byte in wide/narrow); SO/SI and C1 controls are excluded; what a terminal does with control bytes is not judged (C04)",
    "pack(()) / render(()) (unlimited width): pack(()) == (widest line by the layout's own measure, number of newline-separated lines) "
    "and render(()) has exactly that size",
    "a word is a maximal run of non-space narrow characters; a boundary next to a double-width character is a legal 'space' break",
    "'space' break rule is applied when every word of the whole text fits",
    "each omitted space/newline needs its own line break (two spaces at a wrap = two wrap points, one an empty line)",
    "clip/ellipsis 'fits' is judged on rendered rows; clip with center/right alignment shows the window given by the (negative) spare columns",
    "ellipsis mark: one of '…', '...', '..', '.' in the target encoding, required only for width >= 2; at width 1 ellipsis behaves as clip",
    "a zero-width-only line in clip/ellipsis may be rendered blank or with its zero-width characters",
    "text with a character wider than the width in any/space => exactly one empty line",
    "the global encoding may change between layouts in one process (documented: 'a single global setting ... you may change'), "
    "but a widget is only used under the encoding it was created under: widgets are kept per encoding and encodings are interleaved",
]

EXH_ENCODINGS = [("utf-8", "utf8"), ("euc-jp", "wide"), ("iso8859-1", "narrow")]
RND_ENCODINGS = [
    ("utf-8", "utf8"),
    ("utf-8", "utf8"),
    ("euc-jp", "wide"),
    ("gbk", "wide"),
    ("big5", "wide"),
    ("iso8859-1", "narrow"),
    ("ascii", "narrow"),
    ("koi8-r", "narrow"),
    # 8-bit code pages that contain U+2026 as ONE byte: their ellipsis string is the same as utf-8's, the bytes differ
    ("cp1252", "narrow"),
    ("cp1251", "narrow"),
    ("cp1250", "narrow"),
    ("mac_roman", "narrow"),
]
# the order in which one (text, width, wrap, align) case is laid out under several encodings IN ONE PROCESS
# (module-level caches keyed without the encoding only show under such histories); also run reversed
ENC_CYCLE = ["utf-8", "cp1252", "utf-8", "mac_roman", "iso8859-1", "cp1251", "euc-jp", "ascii", "cp1252", "gbk", "utf-8"]
WRAPS = ("any", "space", "clip", "ellipsis")
ALIGNS = ("left", "center", "right")
BASE_ALPHABET = ["a", "b", " ", "\n", "漢", "́"]
NARROW_EXTRA = "é"  # replaces the unencodable wide/zero-width characters in the narrow exhaustive alphabet
RANDOM_POOL = (
    list("abcdefgxyzABC0123.,;-") + [" "] * 8 + ["\n"] * 2 + list("éü£ж") + list("漢字あア한Ａ中") * 2 + ["́", "̈", "‍", "​", "️", "😀", "─", "│"]
)


# ASCII control characters: zero columns by urwid's own width table (wcwidth < 0 -> 0) in str and utf-8 bytes, one
# column (one byte) in wide/narrow byte texts.  SO/SI (0x0e, 0x0f) are charset shifts handled by apply_target_encoding
# (C17) and stay out.  What a terminal does with them is C04's business.
CONTROLS = frozenset(chr(c) for c in [*range(0x00, 0x0A), *range(0x0B, 0x0E), *range(0x10, 0x20), 0x7F])
CONTROL_POOL = ["\t", "\t", "\x00", "\x01", "\x07", "\x08", "\x0b", "\x0c", "\r", "\x1b", "\x1f", "\x7f"]


# every name urwid.util.set_encoding puts into the "wide" class for which Python has a codec ...
WIDE_NAMES = ["euc-jp", "euc-kr", "euc-cn", "gb2312", "gbk", "big5", "uhc", "eucjp", "euckr", "euccn"]
# ... and multi-byte codecs that urwid classes as "narrow" (one column per byte): the encoded ellipsis is 2+ bytes there
NARROW_MULTIBYTE = ["shift_jis", "cp932", "cp949", "johab", "big5hkscs", "gb18030", "euc_jis_2004", "shift_jisx0213", "hz", "iso2022_jp"]
ELLIPSIS_ENCODINGS = WIDE_NAMES + NARROW_MULTIBYTE + ["utf-8", "ascii", "iso8859-1", "koi8-r", "cp1252", "cp1251", "cp1250", "mac_roman"]
ASCII_CONTROL_POOL = list("abcxyz01.,") + [" "] * 5 + ["\n"] + CONTROL_POOL
RANDOM_POOL = RANDOM_POOL + ["\t", "\x00", "\x7f", "\r"]
_MODES = dict(EXH_ENCODINGS + RND_ENCODINGS)
_MODES.update({e: "wide" for e in WIDE_NAMES})
_MODES.update({e: "narrow" for e in NARROW_MULTIBYTE})
REQUIRE.update({f"ellipsis_trimmed_directed:{e}": 30 for e in ELLIPSIS_ENCODINGS})


def mode_of(enc):
    return _MODES[enc]


def fit_text(s, enc, as_bytes=False):
    """the str restricted to the characters that are in the documented domain for enc"""
    mode = mode_of(enc)
    return "".join(c for c in s if valid_char(c, enc, mode, as_bytes))


def interleave(ctx, st, s, width, wrap, align, order, as_bytes=False):
    """one case under a sequence of encodings at the same width, in this process"""
    last = None
    for enc in order:
        t = fit_text(s, enc, as_bytes)
        text = to_bytes(t, enc, mode_of(enc)) if as_bytes else t
        run_one(ctx, st, {"enc": enc, "text": text, "width": width, "wrap": wrap, "align": align}, light=True)
        ctx.count("encoding_interleave_cases")
        if last is not None and last != enc:
            ctx.count("encoding_switches_same_width")
            if wrap == "ellipsis" and max((M.Dec(t, "utf8").cwidth(a, b) for a, b in M.Dec(t, "utf8").paragraphs()), default=0) > width >= 2:
                ctx.count("encoding_switches_same_width_trimmed_ellipsis")
        last = enc


def valid_char(ch, enc, mode, as_bytes=False):
    if ch in ("\n", " "):
        return True
    if ch in CONTROLS:
        # str: only where encoded length need not equal the width (utf-8); bytes: a plain byte in every mode
        return mode == "utf8" or as_bytes
    w = M.cw(ch)
    if ord(ch) < 0x20 or ord(ch) == 0x7F or 0x80 <= ord(ch) < 0xA0:
        return False
    if mode == "utf8":
        return True
    if ch in M.DEC_GLYPHS:
        return True  # str only; dropped from bytes texts by the generator
    try:
        b = ch.encode(enc)
    except UnicodeEncodeError:
        return False
    if mode == "wide":
        if len(b) == 2:
            # model classifier and the half-width exclusions: both bytes must form a plain double-byte character
            return w == 2 and b[0] >= 0x81 and 0x40 <= b[1] <= 0xFE and b[1] != 0x7F
        return len(b) == 1 and w == 1 and b[0] < 0x80
    return len(b) == 1 and w == 1


_alpha_cache = {}


def alphabet(enc, mode, pool, as_bytes=False):
    key = (enc, id(pool), as_bytes)
    if key not in _alpha_cache:
        _alpha_cache[key] = [c for c in pool if valid_char(c, enc, mode, as_bytes)]
    return _alpha_cache[key]


def to_bytes(s, enc, mode):
    if mode != "utf8":
        s = "".join(c for c in s if c not in M.DEC_GLYPHS)
    return s.encode(enc)


# ------------------------------------------------------------------ evaluation of one case


class State:
    """long-lived widgets, one per (encoding, text type); tracks the previous configuration for witnesses"""

    def __init__(self):
        self.widgets = {}
        self.prev = {}
        self.cur_enc = None
        self.dec_key = None
        self.dec_val = None
        self.sig_cache = {}
        self.recent = []


def set_enc(st, enc):
    import urwid

    if st.cur_enc != enc:
        urwid.util.set_encoding(enc)
        st.cur_enc = enc


def build_markup(spec):
    """JSON-safe markup spec -> urwid text markup: ["L", e...] list, ["T", attr, e] tuple, str / bytes leaf"""
    if isinstance(spec, (str, bytes)):
        return spec
    if spec[0] == "L":
        return [build_markup(e) for e in spec[1:]]
    return (spec[1], build_markup(spec[2]))


def markup_leaves(spec, attr=None, out=None):
    out = [] if out is None else out
    if isinstance(spec, (str, bytes)):
        out.append((attr, spec))
    elif spec[0] == "L":
        for e in spec[1:]:
            markup_leaves(e, attr, out)
    else:
        markup_leaves(spec[2], spec[1], out)
    return out


def markup_text(spec):
    leaves = markup_leaves(spec)
    if any(isinstance(t, bytes) for _a, t in leaves):
        return b"".join(t for _a, t in leaves)
    return "".join(t for _a, t in leaves)


def markup_shape(spec):
    """where the empty strings sit: kind(prev,next) with kind bare|attributed, neighbours attr|plain|start|end"""
    leaves = markup_leaves(spec)
    out = []
    for i, (a, t) in enumerate(leaves):
        if len(t):
            continue
        prev = next((("attr" if pa is not None else "plain") for pa, pt in reversed(leaves[:i]) if len(pt)), "start")
        nxt = next((("attr" if na is not None else "plain") for na, nt in leaves[i + 1 :] if len(nt)), "end")
        k = f"{'bare' if a is None else 'attributed'}-empty({prev},{nxt})"
        if k not in out:
            out.append(k)
    return "+".join(out[:2]) or "no-empty"


def malformed_class(b):
    """abstract class of the first undecodable unit of a utf-8 byte text (None if well-formed)"""
    i = 0
    while i < len(b):
        cp, j = M.utf8_one(b, i)
        if cp is None:
            x = b[i]
            nxt = b[i + 1] if i + 1 < len(b) else None
            if 0x80 <= x <= 0xBF:
                return "lone-continuation"
            if x in (0xC0, 0xC1) or (x == 0xE0 and nxt is not None and 0x80 <= nxt < 0xA0) or (x == 0xF0 and nxt is not None and 0x80 <= nxt < 0x90):
                return "overlong"
            if x == 0xED and nxt is not None and 0xA0 <= nxt <= 0xBF:
                return "surrogate"
            if x == 0xF4 and nxt is not None and 0x90 <= nxt <= 0xBF:
                return "F4-above-10FFFF"
            if 0xF5 <= x <= 0xF7:
                return "lead-F5-F7"
            if x >= 0xF8:
                return "lead-F8-FF"
            return "truncated-sequence"
        i = j
    return None


def check_case(ctx, st, case, collect, fresh=False, light=False):
    """Evaluate one case on the real code; append (clause, kind, msg) to collect.  Returns nothing."""
    import urwid
    from urwid import text_layout as TL

    enc, text, width, wrap, align = case["enc"], case["text"], case["width"], case["wrap"], case["align"]
    mode = mode_of(enc)
    set_enc(st, enc)
    C = ctx.counters
    if st.dec_key == (enc, text) and type(st.dec_key[1]) is type(text):
        D, E = st.dec_val
    else:
        D = M.Dec(text, mode)
        E = M.Enc(enc, mode)
        st.dec_key, st.dec_val = (enc, text), (D, E)
    key = (enc, isinstance(text, bytes))
    prev = case.get("prev")
    tw = None if fresh else st.widgets.get(key)
    try:
        if tw is None:
            if prev:
                tw = urwid.Text(prev["text"], align=prev["align"], wrap=prev["wrap"])
                try:
                    tw.rows((prev["width"],))
                    tw.render((prev["width"],))
                except Exception:  # noqa: BLE001  (judged when that configuration was the case)
                    pass
                if prev["text"] != text or type(prev["text"]) is not type(text):
                    tw.set_text(text)
                if prev["align"] != align:
                    tw.align = align
                if prev["wrap"] != wrap:
                    tw.wrap = wrap
            else:
                tw = urwid.Text(build_markup(case["markup_spec"]) if "markup_spec" in case else text, align=align, wrap=wrap)
                if "markup_spec" in case:
                    C["markup_cases"] += 1
                    if tw.text != text or type(tw.text) is not type(text):
                        collect.append(("markup", "text!=concatenation-of-leaves", f"text {tw.text!r} expected {text!r}"))
            if not fresh:
                st.widgets[key] = tw
        else:
            if tw.text != text or type(tw.text) is not type(text):
                tw.set_text(text)
            if tw.align != align:
                tw.align = align
            if tw.wrap != wrap:
                tw.wrap = wrap
    except Exception as e:  # noqa: BLE001
        collect.append(("configure", f"raise:{type(e).__name__}", repr(e)))
        st.widgets.pop(key, None)
        return

    # ---- layout structure
    try:
        L = tw.get_line_translation(width)
    except Exception as e:  # noqa: BLE001
        collect.append(("layout", f"raise:{type(e).__name__}", repr(e)[:300]))
        st.widgets.pop(key, None)
        return
    if not light:
        try:
            L2 = TL.default_layout.layout(text, width, align, wrap)
            C["cache_coherence_checks"] += 1
            if L2 != L:
                collect.append(("cache", "widget-translation!=fresh-layout", f"widget {L!r} fresh {L2!r}"))
        except Exception as e:  # noqa: BLE001
            collect.append(("layout", f"raise:{type(e).__name__}", repr(e)[:300]))
    V, lines = M.judge_structure(D, width, wrap, align, L, C)
    for v in V:
        collect.append(("layout:" + v[0], v[1], v[2] + f" ; structure={L!r}"))

    # ---- render (rows() first: it then has to compute the translation itself instead of reading the cached canvas)
    n_before = None
    if not fresh and (width + len(text)) % 2:
        try:
            n_before = tw.rows((width,))
        except Exception as e:  # noqa: BLE001
            collect.append(("rows", exc_kind(e), repr(e)[:300]))
    try:
        canv = tw.render((width,))
        rows = list(canv.text)
        content = list(canv.content())
    except Exception as e:  # noqa: BLE001
        collect.append(("render", exc_kind(e), repr(e)[:300].replace("\n", " ") + f" ; structure={L!r}"))
        st.widgets.pop(key, None)
        rows = None
    if rows is not None:
        C["rows_rendered"] += len(rows)
        if canv.cols() != width:
            collect.append(("render", "canvas-cols!=width", f"{canv.cols()} != {width}"))
        # every row exactly `width` columns, judged by our decoder on the row bytes
        for ri, r in enumerate(rows if (wrap in ("clip", "ellipsis") or V) else ()):
            C["row_fit_checks"] += 1
            rw = sum(M.Dec(r, mode).widths)
            if rw != width:
                collect.append(("render:fit", "row-wider-than-width" if rw > width else "row-narrower-than-width", f"row {ri} {r!r} is {rw} columns, width {width}"))
                break
        if not V and lines is not None:
            exp = M.expected_rows(D, E, width, wrap, align, lines)
            if len(exp) != len(rows):
                collect.append(("render", "row-count!=lines", f"{len(rows)} rows, expected {len(exp)}: {rows!r}"))
            else:
                for ri, (alts, r, crow) in enumerate(zip(exp, rows, content)):
                    C["row_bytes_compared"] += 1
                    hit = None
                    for ai, (eb, ecs) in enumerate(alts):
                        if eb == r:
                            hit = (ai, ecs)
                            break
                    if hit is None:
                        collect.append(("render:row", _row_kind(D, wrap, width, ri), f"row {ri}: got {r!r}, expected {' or '.join(repr(a[0]) for a in alts)} ; structure={L!r}"))
                        break
                    got_cs = []
                    got_bytes = b""
                    for _a, cs, bs in crow:
                        got_cs += [cs] * len(bs)
                        got_bytes += bs
                    if got_bytes != r:
                        collect.append(("render:content", "content()-bytes!=text-row", f"row {ri}: {got_bytes!r} vs {r!r}"))
                        break
                    if "0" in hit[1]:
                        C["dec_glyph_rows"] += 1
                    if got_cs != hit[1]:
                        collect.append(("render:charset", "charset-runs-misplaced", f"row {ri} {r!r}: cs per byte {got_cs} expected {hit[1]} ; structure={L!r}"))
                        break
                if wrap == "ellipsis":
                    for (a, b), r in zip(D.paragraphs(), rows):
                        if D.cwidth(a, b) > width >= 2:
                            C["ellipsis_rows_with_mark"] += 1
                if wrap in ("clip", "ellipsis"):
                    for a, b in D.paragraphs():
                        if D.cwidth(a, b) > width:
                            C["clip_rows_windowed"] += 1
        # rows() / pack()
        try:
            n = tw.rows((width,))
            C["rows_eq_checks"] += 1
            if n_before is not None:
                C["rows_before_render_checks"] += 1
            if n != len(rows) or canv.rows() != len(rows) or (n_before is not None and n_before != len(rows)):
                collect.append(("rows", "rows()!=rendered-lines", f"rows()={n} rows()-before-render={n_before} canvas.rows()={canv.rows()} rendered {len(rows)}"))
        except Exception as e:  # noqa: BLE001
            collect.append(("rows", f"raise:{type(e).__name__}", repr(e)[:300]))
        if not light:
            try:
                pc, pr = tw.pack((width,))
                C["pack_checks"] += 1
                if pr != len(rows):
                    collect.append(("pack", "pack-rows!=rendered-lines", f"pack={pc, pr} rendered {len(rows)}"))
                elif not 0 <= pc <= width:
                    collect.append(("pack", "pack-cols-outside-width", f"pack={pc, pr} width {width}"))
            except Exception as e:  # noqa: BLE001
                collect.append(("pack", f"raise:{type(e).__name__}", repr(e)[:300]))


def exc_kind(e):
    """exception type + abstract detail (never concrete values)"""
    k = f"raise:{type(e).__name__}"
    a = e.args
    if type(e).__name__ == "ValueError" and len(a) == 1 and isinstance(a[0], tuple) and len(a[0]) == 3 and all(isinstance(x, int) for x in a[0]):
        sc, s0, e0 = a[0]
        k += f":segment(sc{'=0' if sc == 0 else '<0' if sc < 0 else '>0'},{'empty-range' if s0 == e0 else 'nonempty-range'})"
    elif type(e).__name__ == "CanvasError" and a and "wider than the maxcol" in str(a[0]):
        k += ":row-wider-than-maxcol"
    return k


def _row_kind(D, wrap, width, ri):
    if wrap in ("any", "space"):
        return "row!=shown-ranges"
    paras = D.paragraphs()
    a, b = paras[ri] if ri < len(paras) else (0, 0)
    lw = D.cwidth(a, b)
    if lw <= width:
        return "fitting-line-row-mismatch"
    return "trimmed-line-row-mismatch"


def check_fixed(ctx, st, case, collect):
    """pack(()) / render(()) -- the unlimited-width view"""
    import urwid

    enc, text = case["enc"], case["text"]
    mode = mode_of(enc)
    set_enc(st, enc)
    D = M.Dec(text, mode)
    paras = D.paragraphs()
    want = (max(D.cwidth(a, b) for a, b in paras), len(paras))
    if len(paras) > 1:
        ctx.counters["pack_fixed_multi_line"] += 1
        most = max(paras, key=lambda ab: (D.ends[ab[1] - 1] - D.starts[ab[0]]) if ab[1] > ab[0] else 0)
        if D.cwidth(*most) != want[0]:
            ctx.counters["pack_fixed_widest_line_is_not_longest"] += 1
    try:
        tw = urwid.Text(text, align=case["align"], wrap=case["wrap"])
        got = tw.pack(())
        ctx.counters["pack_fixed_checks"] += 1
        if tuple(got) != want:
            collect.append(("pack-fixed", "pack()!=(max-line-width,lines)", f"pack()={got} expected {want}"))
        elif want[0] >= 1:
            c = tw.render(())
            if (c.cols(), c.rows()) != want:
                collect.append(("pack-fixed", "render(())-size!=pack()", f"{c.cols(), c.rows()} vs {want}"))
    except Exception as e:  # noqa: BLE001
        collect.append(("pack-fixed", exc_kind(e), repr(e)[:300]))


def check_window(ctx, st, case, collect):
    """shift_line + trim_line + apply_text_layout: a view of one line shifted left by k columns
    must be the k-column-offset window of that line (what a clipped, shifted view shows)."""
    from urwid import text_layout as TL
    from urwid.canvas import apply_text_layout

    enc, text, width, k = case["enc"], case["text"], case["width"], case["shift"]
    mode = mode_of(enc)
    set_enc(st, enc)
    D = M.Dec(text, mode)
    E = M.Enc(enc, mode)
    paras = D.paragraphs()
    if len(paras) != 1 or D.cwidth(0, D.n) - k < width or k < 0:
        return
    try:
        L = TL.default_layout.layout(text, width, "left", "clip")
        line = TL.shift_line(L[0], -k)
        canv = apply_text_layout(text, [], [line], width)
        row = canv.text[0]
        crow = next(iter(canv.content()))
    except Exception as e:  # noqa: BLE001
        collect.append(("window", exc_kind(e), repr(e)[:300]))
        return
    ctx.counters["window_checks"] += 1
    eb, ecs = M.window_row(D, E, 0, D.n, k, width)
    if row != eb:
        collect.append(("window", "row!=window-of-line", f"shift {k}: got {row!r} expected {eb!r}"))
        return
    got_cs = []
    for _a, cs, bs in crow:
        got_cs += [cs] * len(bs)
    if "0" in ecs:
        ctx.counters["dec_glyph_rows"] += 1
    if got_cs != ecs:
        collect.append(("window:charset", "charset-runs-misplaced", f"shift {k} row {row!r}: cs {got_cs} expected {ecs}"))


# ------------------------------------------------------------------ signatures, shrinking, reporting

_LRU_OBJECTS = None


def clear_module_caches():
    """forget every functools cache in urwid modules so that a witness is judged from a clean process state"""
    import sys

    global _LRU_OBJECTS
    if _LRU_OBJECTS is None or _LRU_OBJECTS[0] != len(sys.modules):
        found = []
        for name, mod in list(sys.modules.items()):
            if name == "urwid" or name.startswith("urwid."):
                for v in list(vars(mod).values()):
                    cc = getattr(v, "cache_clear", None)
                    if callable(cc) and hasattr(v, "cache_info"):
                        found.append(cc)
        _LRU_OBJECTS = (len(sys.modules), found)
    for cc in _LRU_OBJECTS[1]:
        cc()


def evaluate(ctx, case):
    """fresh, self-contained evaluation of a witness -> set of (clause, kind) and messages.
    case['hist'] = earlier (encoding, width, wrap) layouts of the process, replayed first with a trimmed probe text."""
    import urwid

    clear_module_caches()
    st = State()
    out = []
    for enc, w, wrap in case.get("hist") or ():
        set_enc(st, enc)
        try:
            urwid.Text("x" * (w + 4) + " y", wrap=wrap).render((w,))
        except Exception:  # noqa: BLE001  (judged when that was the case)
            pass
    k = case.get("kind", "case")
    if k == "fixed":
        check_fixed(ctx, st, case, out)
    elif k == "window":
        check_window(ctx, st, case, out)
    else:
        check_case(ctx, st, case, out, fresh=True)
    return out


def shrink(ctx, case, core):
    """greedy: keep a simplification while the same (clause, kind) still shows"""

    def still(c):
        snap = dict(ctx.counters)
        try:
            return any((a, b) == core for a, b, _ in evaluate(ctx, c))
        finally:
            ctx.counters.clear()
            ctx.counters.update(snap)

    cur = dict(case)
    if cur.get("hist"):
        c = dict(cur, hist=None)
        if still(c):
            cur = c
        else:
            # keep the shortest suffix of the encoding history that still reproduces, then drop single entries
            h = list(cur["hist"])
            for n in range(1, len(h) + 1):
                if still(dict(cur, hist=h[-n:])):
                    h = h[-n:]
                    break
            i = 0
            while i < len(h) and len(h) > 1:
                h2 = h[:i] + h[i + 1 :]
                if still(dict(cur, hist=h2)):
                    h = h2
                else:
                    i += 1
            cur = dict(cur, hist=h)
    if cur.get("prev") is not None:
        c = dict(cur, prev=None)
        if still(c):
            cur = c
    if not still(cur):
        return None
    for _pass in range(12):
        before = dict(cur)
        if "align" in cur and cur["align"] != "left":
            c = dict(cur, align="left")
            if still(c):
                cur = c
        if "markup_spec" in cur:
            # only whole top-level elements of a list markup are removed; the text follows the markup
            sp = cur["markup_spec"]
            i = 1
            while isinstance(sp, list) and sp[0] == "L" and i < len(sp) and len(sp) > 2:
                sp2 = sp[:i] + sp[i + 1 :]
                c = dict(cur, markup_spec=sp2, text=markup_text(sp2))
                if still(c):
                    cur, sp = c, sp2
                else:
                    i += 1
            for wd in range(1, cur["width"]):
                c = dict(cur, width=wd)
                if still(c):
                    cur = c
                    break
            if cur == before:
                break
            continue
        if cur["enc"] != "utf-8":
            try:
                t = cur["text"]
                t2 = t.decode(cur["enc"]).encode("utf-8") if isinstance(t, bytes) else t
                c = dict(cur, enc="utf-8", text=t2)
                if still(c):
                    cur = c
            except Exception:  # noqa: BLE001
                pass
        if isinstance(cur["text"], bytes):
            try:
                c = dict(cur, text=cur["text"].decode(cur["enc"]))
                if still(c):
                    cur = c
            except Exception:  # noqa: BLE001
                pass
        # drop chunks (long texts), then single characters
        t = cur["text"]
        chars = list(t) if isinstance(t, str) else [t[D0:D1] for D0, D1 in _bounds(t, cur["enc"])]
        size = len(chars) // 2
        tries = 0
        while size >= 4 and tries < 120:
            i = 0
            while i < len(chars) and tries < 120:
                tries += 1
                cand = chars[:i] + chars[i + size :]
                t2 = "".join(cand) if isinstance(t, str) else b"".join(cand)
                c = dict(cur, text=t2)
                if still(c):
                    cur = c
                    chars = cand
                else:
                    i += size
            size //= 2
        changed = True
        rounds = 0
        while changed and rounds < 200:
            changed = False
            t = cur["text"]
            chars = list(t) if isinstance(t, str) else [t[D0:D1] for D0, D1 in _bounds(t, cur["enc"])]
            for i in range(len(chars)):
                rounds += 1
                cand = chars[:i] + chars[i + 1 :]
                t2 = "".join(cand) if isinstance(t, str) else b"".join(cand)
                c = dict(cur, text=t2)
                if still(c):
                    cur = c
                    changed = True
                    break
        # replace wide / odd characters by a plain narrow one
        t = cur["text"]
        chars = list(t) if isinstance(t, str) else [t[D0:D1] for D0, D1 in _bounds(t, cur["enc"])]
        for i in range(len(chars)):
            if chars[i] in ("a", b"a", " ", b" ", "\n", b"\n"):
                continue
            for rep in ("a", "aa"):
                cand = list(chars)
                cand[i] = rep if isinstance(t, str) else rep.encode()
                t2 = "".join(cand) if isinstance(t, str) else b"".join(cand)
                c = dict(cur, text=t2)
                if still(c):
                    cur = c
                    chars = cand
                    break
        for wd in range(1, cur["width"]):
            c = dict(cur, width=wd)
            if still(c):
                cur = c
                break
        if cur.get("shift"):
            for k in range(0, cur["shift"]):
                c = dict(cur, shift=k)
                if still(c):
                    cur = c
                    break
        if cur == before:
            break
    return cur


def _bounds(b, enc):
    d = M.Dec(b, mode_of(enc))
    return list(zip(d.starts, d.ends))


def report(ctx, case, collected, cache=None):
    seen = set()
    for clause, kind, msg in collected:
        core = (clause, kind)
        if core in seen:
            continue
        seen.add(core)
        # the same mechanism usually fires thousands of times: shrink the first few per abstract class only
        ck = None
        if cache is not None and not ctx.replaying:
            pm = mode_of(case["enc"])
            ck = (core, case.get("kind"), case.get("wrap"), case.get("align"), pm, isinstance(case["text"], bytes), M.Dec(case["text"], pm).shape(case["width"]))
            ent = cache.get(ck)
            if ent is not None and ent[0] >= 2 and ent[1] in ctx.violations:
                ctx.violations[ent[1]]["n"] += 1
                ctx.count("violations_raw")
                ctx.count("violations_not_reshrunk")
                continue
        small = shrink(ctx, case, core)
        if small is None:
            # reproduces only on the long-lived widget: keep the case with its history
            small = dict(case, hist=None)
            path = "long-process-history-only"
        else:
            path = "with-history" if small.get("prev") else "fresh"
            if small.get("hist"):
                path = "after-other-encoding" if any(h[0] != small["enc"] for h in small["hist"]) else "after-earlier-layout"
            for a, b, m in evaluate_quiet(ctx, small):
                if (a, b) == core:
                    msg = m
                    break
        mode = mode_of(small["enc"])
        D = M.Dec(small["text"], mode)
        ttype = "bytes" if isinstance(small["text"], bytes) else "str"
        parts = ["C03", clause, kind]
        if "wrap" in small and small.get("kind") != "window":
            parts.append(f"wrap={small['wrap']}")
            parts.append(f"align={small['align'] if small['align'] != 'left' else 'any'}")
        parts.append(f"enc={mode if small['enc'] != 'utf-8' else 'any'}")
        parts.append(f"text={ttype if ttype == 'bytes' else 'any'}")
        shape = D.shape(small["width"])
        if "markup_spec" in small:
            shape = "markup:" + markup_shape(small["markup_spec"])
        elif ttype == "bytes" and mode == "utf8" and malformed_class(small["text"]):
            shape = "malformed-utf8:" + malformed_class(small["text"])
        parts.append(f"shape={shape}")
        if path != "fresh":
            parts.append(path)
        sig = "|".join(parts)
        wit = dict(small)
        wit["code"] = witness_code(small)
        ctx.violation(sig, f"{clause} {kind}: {msg}", wit)
        if ck is not None:
            ent = cache.get(ck)
            cache[ck] = ((ent[0] + 1) if ent and ent[1] == sig.replace(" ", "_") else 1, sig.replace(" ", "_"))


def evaluate_quiet(ctx, case):
    snap = dict(ctx.counters)
    try:
        return evaluate(ctx, case)
    finally:
        ctx.counters.clear()
        ctx.counters.update(snap)


def witness_code(c):
    k = c.get("kind", "case")
    head = "import urwid; "
    for enc, w, wrap in c.get("hist") or ():
        probe = "x" * (w + 4) + " y"
        head += f"urwid.set_encoding({enc!r}); urwid.Text({probe!r}, wrap={wrap!r}).render(({w},)); "
    head += f"urwid.set_encoding({c['enc']!r}); "
    if k == "window":
        return head + (
            f"from urwid import text_layout as TL; from urwid.canvas import apply_text_layout; t={c['text']!r}; "
            f"print(apply_text_layout(t, [], [TL.shift_line(TL.default_layout.layout(t,{c['width']},'left','clip')[0], {-c['shift']})], {c['width']}).text)"
        )
    if k == "fixed":
        return head + f"t=urwid.Text({c['text']!r}); print(t.pack(()), t.render(()).text)"
    pre = ""
    if c.get("prev"):
        p = c["prev"]
        pre = f"t=urwid.Text({p['text']!r}, align={p['align']!r}, wrap={p['wrap']!r}); t.rows(({p['width']},)); t.render(({p['width']},)); "
        if p["text"] != c["text"]:
            pre += f"t.set_text({c['text']!r}); "
        if p["align"] != c["align"]:
            pre += f"t.align={c['align']!r}; "
        if p["wrap"] != c["wrap"]:
            pre += f"t.wrap={c['wrap']!r}; "
    elif "markup_spec" in c:
        pre = f"t=urwid.Text({build_markup(c['markup_spec'])!r}, align={c['align']!r}, wrap={c['wrap']!r}); "
        return head + pre + f"print(t.render(({c['width']},)).text, list(t.render(({c['width']},)).content()))"
    else:
        pre = f"t=urwid.Text({c['text']!r}, align={c['align']!r}, wrap={c['wrap']!r}); "
    return head + pre + f"print(t.get_line_translation({c['width']}), t.rows(({c['width']},))); print(t.render(({c['width']},)).text)"


# ------------------------------------------------------------------ workload


def run_one(ctx, st, case, light=False):
    out = []
    kind = case.get("kind", "case")
    if kind == "case":
        key = (case["enc"], isinstance(case["text"], bytes))
        case["prev"] = st.prev.get(key)
        case["hist"] = list(st.recent)
        if "markup_spec" in case:
            case["prev"] = None
            check_case(ctx, st, case, out, fresh=True, light=light)
        else:
            check_case(ctx, st, case, out, light=light)
        ent = [case["enc"], case["width"], case["wrap"]]
        if ent in st.recent:
            st.recent.remove(ent)
        st.recent.append(ent)
        del st.recent[:-24]
        st.prev[key] = {k: case[k] for k in ("text", "width", "wrap", "align")}
        ctx.counters["cases"] += 1
        ctx.counters[f"enc:{mode_of(case['enc'])}/{'bytes' if key[1] else 'str'}"] += 1
        ctx.counters[f"wrap:{case['wrap']}"] += 1
    elif kind == "fixed":
        check_fixed(ctx, st, case, out)
    else:
        check_window(ctx, st, case, out)
    t = case["text"]
    ctx.case((kind, case["enc"], t if isinstance(t, str) else t.hex(), case["width"], case.get("wrap"), case.get("align"), case.get("shift")), nontrivial=len(t) > 0)
    if out:
        report(ctx, case, out, st.sig_cache)
        st.cur_enc = None  # shrinking switched the global encoding
    return out


def exhaustive_alphabet(enc, mode):
    if mode == "utf8":
        return list(BASE_ALPHABET)
    if mode == "wide":
        return [c for c in BASE_ALPHABET if valid_char(c, enc, mode)]
    return [c for c in BASE_ALPHABET if valid_char(c, enc, mode)] + [NARROW_EXTRA]


def run(ctx):
    import urwid
    from urwid import canvas as CV
    from urwid import text_layout as TL
    from urwid import util as U
    from urwid.widget import text as WT

    saved = (U._target_encoding, U._use_dec_special, urwid.str_util.get_byte_encoding())
    reach.watch(
        TL.StandardTextLayout.layout,
        TL.StandardTextLayout.calculate_text_segments,
        TL.StandardTextLayout._calculate_trimmed_segments,
        TL.StandardTextLayout.align_layout,
        TL.StandardTextLayout.pack,
        TL.LayoutSegment.subseg,
        TL.line_width,
        TL.shift_line,
        TL.trim_line,
        CV.apply_text_layout,
        WT.Text.render,
        WT.Text.rows,
        WT.Text.pack,
        WT.Text.get_line_translation,
        urwid.str_util.calc_text_pos,
        urwid.str_util.calc_width,
        urwid.str_util.move_prev_char,
        urwid.str_util.is_wide_char,
        U.calc_trim_text,
    )
    try:
        _run(ctx)
    finally:
        U._target_encoding, U._use_dec_special = saved[0], saved[1]
        urwid.str_util.set_byte_encoding(saved[2])
        reach.flush(ctx)


def _run(ctx):
    st = State()
    rng = ctx.rng
    maxlen = ctx.pick(5, 7)
    widths = range(1, 7)
    ctx.sample({"enc": "utf-8", "text": "a 漢́b", "width": 3, "wrap": "space", "align": "center"})

    # ---- directed: line-drawing glyphs behind a cut double-width character (charset runs), wide/narrow encodings
    for enc in ("euc-jp", "iso8859-1", "utf-8"):
        mode = mode_of(enc)
        wide = "漢" if mode != "narrow" else None
        for t in ("a漢─b", "漢─", "a漢─", "ab─│c", "─a│", "漢漢─│"):
            if wide is None and "漢" in t:
                continue
            for w in (1, 2, 3, 4):
                for wrap in WRAPS:
                    for al in ALIGNS:
                        run_one(ctx, st, {"enc": enc, "text": t, "width": w, "wrap": wrap, "align": al})
                for k in range(0, 5):
                    run_one(ctx, st, {"kind": "window", "enc": enc, "text": t, "width": w, "shift": k})

    # ---- directed: the same case under interleaved encodings (forward and reversed order), str and bytes
    inter_texts = ["The quick brown fox\njumps over", "abc def ghi", "ab", "a b c d e f g", "héllo wörld… ok", "x" * 15, "漢字 ab 漢字漢字", "ab\n\ncdefgh ij"]
    k = 0
    for s0 in inter_texts:
        for w in (1, 2, 3, 4, 5, 7, 9, 12):
            for wrap in WRAPS:
                k += 1
                if not ctx.mine(k):
                    continue
                order = ENC_CYCLE if k % 2 else ENC_CYCLE[::-1]
                interleave(ctx, st, s0, w, wrap, ALIGNS[k % 3], order, as_bytes=bool(k // 2 % 2))

    # ---- directed, never skipped: text markup with empty strings at every position (bare "" / b"" and attributed ("b","")
    # between attributed, un-attributed and nested elements).  The text is the concatenation of the leaves; an empty
    # leaf must not change what is rendered (content() rows are compared byte for byte with the text rows).
    def mk(spec, as_bytes):
        if isinstance(spec, str):
            return spec.encode() if as_bytes else spec
        if spec[0] == "L":
            return ["L", *[mk(e, as_bytes) for e in spec[1:]]]
        return ["T", spec[1], mk(spec[2], as_bytes)]

    el7 = ["x", ["T", "a", "x"], ["T", "b", "yz"], "", ["T", "b", ""], ["L", ["T", "a", "x"], ""], ["T", "a", ["L", "x", "", "yz"]]]
    el5 = ["x", ["T", "a", "x"], ["T", "b", "yz"], "", ["T", "b", ""]]
    specs = [["L", *t] for n in (1, 2, 3) for t in itertools.product(el7, repeat=n)] + [["L", *t] for t in itertools.product(el5, repeat=4)]
    specs += [["T", "a", ["L", *t]] for t in itertools.product(["x", "", "yz"], repeat=3)]
    k = 0
    for spec in specs:
        if not any(len(t) == 0 for _a, t in markup_leaves(spec)):
            continue
        for as_bytes in (False, True):
            sp = mk(spec, as_bytes)
            text = markup_text(sp)
            for w in (2, 6):
                k += 1
                if not ctx.mine(k):
                    continue
                for wi, wrap in enumerate(WRAPS if w == 2 else (WRAPS[k % 4],)):
                    run_one(ctx, st, {"enc": "utf-8", "text": text, "markup_spec": sp, "width": w, "wrap": wrap, "align": ALIGNS[(k + wi) % 3]}, light=True)
                    ctx.count(f"markup_empty_cases:{markup_shape(sp).split('+')[0].split('(')[0]}")

    # ---- directed, never skipped: malformed UTF-8 in byte texts (each undecodable byte is one column)
    bad = [
        b"\xf4\x90\x80\x80", b"\xf4\x9f\xbf\xbf", b"\xf4\xa0\x80\x80", b"\xf4\xbf\xbf\xbf", b"\xf5\x80\x80\x80", b"\xf7\xbf\xbf\xbf",
        b"\xf8\x88\x80\x80\x80", b"\xff", b"\xfe", b"\xc0\x80", b"\xc1\xbf", b"\xe0\x80\x80", b"\xe0\x9f\xbf", b"\xf0\x80\x80\x80", b"\xf0\x8f\xbf\xbf",
        b"\xed\xa0\x80", b"\xed\xbf\xbf", b"\x80", b"\xbf", b"\xe6\xbc", b"\xe6", b"\xf0\x9f\x98", b"\xf0\x9f", b"\xc3", b"\xf4\x8f\xbf\xbf", b"\xf0\x90\x80\x80",
    ]
    frames = [(b"", b""), (b"a", b"b"), (b"ab ", b" cd"), ("漢".encode(), "字".encode()), (b"a\xcc\x81", b"\n x"), (b"", b"\xe6\xbc\xa2"), (b"\xe6\xbc", b"\xa2")]
    k = 0
    for bseq in bad:
        for pre, post in frames:
            text = pre + bseq + post
            cls = malformed_class(text) or "well-formed"
            for w in (1, 2, 3, 4, 6):
                k += 1
                if not ctx.mine(k):
                    continue
                for wi, wrap in enumerate(WRAPS):
                    run_one(ctx, st, {"enc": "utf-8", "text": text, "width": w, "wrap": wrap, "align": ALIGNS[(k + wi) % 3]}, light=bool(k % 2))
                    ctx.count("malformed_utf8_cases")
                    ctx.count(f"malformed_utf8_cases:{cls}")

    # ---- directed: the ellipsis clauses under EVERY encoding name of urwid's wide class and the multi-byte codecs it
    # classes as narrow (the mark must be measured in the target encoding), plus the 8-bit and utf-8 families
    k = 0
    for enc in ELLIPSIS_ENCODINGS:
        for s0 in ("abcdef", "abcdef ghij\nkl", "漢字漢字漢", "中文中文中", "한국어한국", "ab漢cd中e한f", "ｱｲｳｴｵｶ"):
            for as_bytes in (False, True):
                t = fit_text(s0, enc, as_bytes)
                if len(t) < 3:
                    continue
                text = to_bytes(t, enc, mode_of(enc)) if as_bytes else t
                lw = max(M.Dec(text, mode_of(enc)).cwidth(a, b) for a, b in M.Dec(text, mode_of(enc)).paragraphs())
                for w in range(1, 9):
                    k += 1
                    if not ctx.mine(k):
                        continue
                    for al in ALIGNS:
                        run_one(ctx, st, {"enc": enc, "text": text, "width": w, "wrap": "ellipsis", "align": al}, light=al != "left")
                        if lw > w >= 2:
                            ctx.count(f"ellipsis_trimmed_directed:{enc}")
                    run_one(ctx, st, {"enc": enc, "text": text, "width": w, "wrap": "clip", "align": ALIGNS[k % 3]}, light=True)

    # ---- directed: every case named by the fixed C03 findings (KNOWN_FINDINGS.txt fixed: lines / their commit messages),
    # with all alignments and the neighbouring widths.  Run by every shard (small).
    named = [
        # ba58766 subseg empty segment
        ("utf-8", "漢", (1,), ("clip", "ellipsis")),
        ("utf-8", "a漢", (1, 2), ("clip", "ellipsis")),
        ("utf-8", "漢a", (1, 2), ("clip", "ellipsis")),
        ("utf-8", "漢漢", (1, 2, 3), ("clip", "ellipsis")),
        ("euc-jp", "漢", (1,), ("clip", "ellipsis")),
        # e0fc36b zero-column text segments
        ("utf-8", "́ a", (1, 2), WRAPS),
        ("utf-8", "́", (1, 5), WRAPS),
        ("utf-8", "a\ń\nb", (1, 5), WRAPS),
        ("utf-8", "中 ️ a1", (1, 2, 3), WRAPS),
        ("utf-8", "aa ️ aa", (1, 2), WRAPS),
        ("utf-8", "̈字", (1, 2), WRAPS),
        ("utf-8", "́漢", (2,), ("ellipsis", "clip")),
        # f61c50e ellipsis mark width
        ("ascii", "abcdef", (2, 3, 4, 5, 6), ("ellipsis",)),
        ("iso8859-1", "abcdef", (2, 3, 4, 5, 6), ("ellipsis",)),
        ("ascii", "abcdefgh", (3, 4, 5), ("ellipsis",)),
        ("euc-jp", "abcdef", (2, 3, 4, 5), ("ellipsis",)),
        ("gbk", "abcdef", (2, 3, 4, 5), ("ellipsis",)),
        ("big5", "abcdef", (2, 3, 4, 5), ("ellipsis",)),
        ("uhc", "abcdef", (2, 3, 4, 5), ("ellipsis",)),
        ("euc-jp", "漢漢", (2, 3), ("ellipsis",)),
        ("euc-jp", "a漢cdef", (2, 3, 4, 5), ("ellipsis",)),
        ("utf-8", "a漢cdef", (2, 3, 4, 5), ("ellipsis",)),
        ("utf-8", "ab漢def", (2, 3, 4, 5), ("ellipsis",)),
        # 0a93769 charset runs behind a padding segment
        ("euc-jp", "a漢─", (1, 2, 3), ("clip", "ellipsis", "any")),
        ("euc-jp", "a漢b─c│d", (4, 5, 6), ("clip",)),
        ("gbk", "a漢─", (2,), ("clip",)),
    ]
    for enc, t, ws, wraps in named:
        for as_bytes in (False, True):
            tt = fit_text(t, enc, as_bytes)
            text = to_bytes(tt, enc, mode_of(enc)) if as_bytes else tt
            for w in ws:
                for wrap in wraps:
                    for al in ALIGNS:
                        run_one(ctx, st, {"enc": enc, "text": text, "width": w, "wrap": wrap, "align": al})
                        ctx.count("fixed_finding_directed_cases")
                lw = sum(M.Dec(text, mode_of(enc)).widths)
                if "\n" not in tt:
                    for sh in range(0, max(0, lw - w) + 1):
                        run_one(ctx, st, {"kind": "window", "enc": enc, "text": text, "width": w, "shift": sh})
                        ctx.count("fixed_finding_directed_cases")

    # ---- directed: unlimited-width view of multi-line texts whose widest line is not the one with most characters
    k = 0
    for a_line in ("hello", "ab", "a", "abc", "", "á́́", "\t\tab"):
        for b_line in ("你好吗", "漢", "漢字", "漢a", "😀😀"):
            for t in (a_line + "\n" + b_line, b_line + "\n" + a_line, a_line + "\n" + b_line + "\n" + a_line + "x"):
                for enc in ("utf-8", "euc-jp", "gbk"):
                    k += 1
                    if not ctx.mine(k):
                        continue
                    for as_bytes in (False, True):
                        tt = fit_text(t, enc, as_bytes)
                        text = to_bytes(tt, enc, mode_of(enc)) if as_bytes else tt
                        for wrap in WRAPS:
                            run_one(ctx, st, {"kind": "fixed", "enc": enc, "text": text, "width": 1, "wrap": wrap, "align": ALIGNS[(k + len(wrap)) % 3]})

    # ---- exhaustive, small: all-ASCII texts with control characters (zero columns in str / utf-8 bytes, one column per
    # byte in 8-bit byte texts): utf-8 str with every alignment, utf-8 bytes and iso8859-1 bytes with rotating alignment
    ctl_alpha = ["a", " ", "\t", "\n"] + ctx.pick([], ["\x7f"])
    k = 0
    for ln in range(1, ctx.pick(4, 5) + 1):
        for tup in itertools.product(ctl_alpha, repeat=ln):
            if "\t" not in tup and "\x7f" not in tup:
                continue
            k += 1
            if not ctx.mine(k) or not ctx.more(0.6):
                continue
            s0 = "".join(tup)
            for w in widths:
                for wrap in WRAPS:
                    for al in ALIGNS:
                        run_one(ctx, st, {"enc": "utf-8", "text": s0, "width": w, "wrap": wrap, "align": al}, light=al != "left")
                        ctx.count("control_char_cases")
                        ctx.count("control_char_all_ascii_str_cases")
                    al = ALIGNS[(k + w + len(wrap)) % 3]
                    for enc in ("utf-8", "iso8859-1"):
                        run_one(ctx, st, {"enc": enc, "text": s0.encode(enc), "width": w, "wrap": wrap, "align": al}, light=True)
                        ctx.count("control_char_cases")
            ctx.count("exh_strings:PCtl")

    # ---- directed: LONG lines at LARGE widths (bounded look-back / quadratic helpers only show beyond a few hundred bytes)
    lrng = ctx.subrng("long")
    long_widths = (255, 256, 257, 300, 511, 512, 513, 1000)

    def long_texts(n):
        wide = lrng.choice("漢字あア")
        yield "all-wide", wide * n
        yield "ascii1+wide", "a" + wide * n
        yield "ascii2+wide", "ab" + wide * n
        yield "ascii3+wide+ascii+wide", "abc" + wide * (n // 2) + "x" + wide * (n // 2)
        yield "wide-words", " ".join(wide * lrng.randint(1, 40) for _ in range(max(1, n // 20)))
        yield "mixed", "".join(lrng.choice([wide, wide, wide, "a", "b", " ", "é"]) for _ in range(n))
        yield "combining-runs", "".join("a" + "́" * lrng.randint(0, 30) + lrng.choice(["", " ", wide]) for _ in range(n // 8))
        yield "ascii-words", " ".join("w" * lrng.randint(1, 30) for _ in range(n // 12))
        yield "ascii-unbroken", "x" * n
        yield "lines", "\n".join(("a" * lrng.randint(0, 3) + wide * lrng.randint(100, 400)) for _ in range(3))

    k = 0
    for n in (150, 300, 700, 1500):
        for label, s0 in long_texts(n):
            for enc in ("utf-8", "euc-jp", "gbk", "big5", "iso8859-1", "cp1252"):
                for as_bytes in (True, False):
                    t = fit_text(s0, enc, as_bytes)
                    if len(t) < 100:
                        continue
                    text = to_bytes(t, enc, mode_of(enc)) if as_bytes else t
                    for w in long_widths:
                        k += 1
                        if not ctx.mine(k) or not ctx.more(0.72):
                            continue
                        for wi, wrap in enumerate(WRAPS):
                            run_one(ctx, st, {"enc": enc, "text": text, "width": w, "wrap": wrap, "align": ALIGNS[(k + wi) % 3]}, light=True)
                            ctx.count("long_line_cases")
                            ctx.count(f"long_line_cases:{mode_of(enc)}/{'bytes' if as_bytes else 'str'}")
                            if w > 256:
                                ctx.count("long_line_width_gt_256_cases")

    # ---- exhaustive core, in phases ordered by value so that a budget cut (loaded machine) loses the least:
    #   P0  every string of length <= 3 (quick) / 4 (thorough): full product widths x wraps x aligns x {str, bytes} x 3 encodings
    #   PA  every longer string: widths x wraps, alignment rotating; utf-8 as str, euc-jp / iso8859-1 as bytes
    #   PB  the other text type of PA (utf-8 bytes; euc-jp / iso8859-1 str)
    #   PC  full alignment product on a stride of the longer strings
    # Each shard counts the phases it completed (counter exh_phase_complete:<P> == number of shards when complete).
    frac = ctx.pick(0.86, 0.86)
    ctx.extra["exhaustive_maxlen"] = maxlen
    short = ctx.pick(3, 4)

    def strings(lens):
        i = 0
        for ln in lens:
            for enc, mode in EXH_ENCODINGS:
                alpha = exhaustive_alphabet(enc, mode)
                for tup in itertools.product(alpha, repeat=ln):
                    i += 1
                    if ctx.mine(i):
                        yield i // ctx.nshards, ln, enc, mode, "".join(tup)

    def phase(name, lens, body):
        for j, ln, enc, mode, s in strings(lens):
            if not ctx.more(frac):
                ctx.count(f"exh_phase_complete:{name}", 0)
                return False
            body(j, ln, enc, mode, s)
            ctx.count(f"exh_strings:{name}")
        ctx.count(f"exh_phase_complete:{name}")
        return True

    def text_only(enc, text):
        """change nothing but the text (same width / wrap / align as the widget's previous case)"""
        pv = st.prev.get((enc, isinstance(text, bytes)))
        if pv and pv["text"] != text:
            run_one(ctx, st, {"enc": enc, "text": text, "width": pv["width"], "wrap": pv["wrap"], "align": pv["align"]}, light=True)
            ctx.count("text_only_change_cases")

    def fixed_pair(j, enc, s):
        """unlimited-width view: pack(()) == (widest line, number of lines) and render(()) has that size"""
        run_one(ctx, st, {"kind": "fixed", "enc": enc, "text": s, "width": 1, "wrap": WRAPS[j % 4], "align": ALIGNS[j % 3]})
        run_one(ctx, st, {"kind": "fixed", "enc": enc, "text": s.encode(enc), "width": 1, "wrap": WRAPS[(j + 1) % 4], "align": ALIGNS[(j + 1) % 3]})

    def p0(j, ln, enc, mode, s):
        for text in (s, s.encode(enc)):
            text_only(enc, text)
            for w in widths:
                for wrap in WRAPS:
                    for al in ALIGNS:
                        run_one(ctx, st, {"enc": enc, "text": text, "width": w, "wrap": wrap, "align": al}, light=al != "left")
        # same configuration at descending then ascending widths: only the translation cache can tell them apart
        for text in (s, s.encode(enc)):
            for w in (6, 3, 5, 2, 1, 4):
                run_one(ctx, st, {"enc": enc, "text": text, "width": w, "wrap": WRAPS[j % 4], "align": ALIGNS[j % 3]}, light=True)
                ctx.count("same_config_other_width_cases")
        fixed_pair(j, enc, s)

    def rotating(primary):
        def body(j, ln, enc, mode, s):
            as_str = (mode == "utf8") == primary
            text = s if as_str else s.encode(enc)
            if primary and "\n" in s:
                fixed_pair(j, enc, s)
            for w in widths:
                for wrap in WRAPS:
                    al = ALIGNS[(j + w + len(wrap)) % 3]
                    run_one(ctx, st, {"enc": enc, "text": text, "width": w, "wrap": wrap, "align": al}, light=True)

        return body

    def pc(j, ln, enc, mode, s):
        if j % ctx.pick(8, 5):
            return
        for text in (s, s.encode(enc)):
            for w in widths:
                for wrap in WRAPS:
                    for al in ALIGNS:
                        run_one(ctx, st, {"enc": enc, "text": text, "width": w, "wrap": wrap, "align": al}, light=True)

    longer = range(short + 1, maxlen + 1)
    ok = phase("P0", range(0, short + 1), p0)
    ok = ok and phase("PA", longer, rotating(True))
    ok = ok and phase("PB", longer, rotating(False))
    ok = ok and phase("PC", longer, pc)
    ctx.extra["exhaustive_complete_shard0"] = ok

    # ---- random
    k = 0
    while ctx.more(1.0) and k < ctx.pick(200000, 5000000):
        k += 1
        enc, mode = rng.choice(RND_ENCODINGS)
        as_bytes = rng.random() < 0.5
        style = rng.random()
        n = rng.randint(0, 60) if style < 0.7 else rng.randint(0, 12)
        if style < 0.18:
            # all-ASCII lines with control characters (zero columns in str / utf-8 bytes, one in 8-bit byte texts)
            alpha = alphabet(enc, mode, ASCII_CONTROL_POOL, as_bytes)
            n = min(n, 24)
            s = "".join(rng.choice(alpha) for _ in range(n))
        elif style < 0.4:
            alpha = alphabet(enc, mode, RANDOM_POOL, as_bytes)
            sub = rng.sample(alpha, min(len(alpha), 4)) + [" "]
            s = "".join(rng.choice(sub) for _ in range(n))
        else:
            alpha = alphabet(enc, mode, RANDOM_POOL, as_bytes)
            s = "".join(rng.choice(alpha) for _ in range(n))
        text = to_bytes(s, enc, mode) if as_bytes else s
        if any(c in CONTROLS for c in s):
            ctx.count("control_char_cases")
            if not as_bytes and s.isascii():
                ctx.count("control_char_all_ascii_str_cases")
        lw = max((M.Dec(text, mode).cwidth(a, b) for a, b in M.Dec(text, mode).paragraphs()), default=0)
        w = rng.randint(1, 40) if rng.random() < 0.5 else max(1, min(40, lw + rng.randint(-6, 2)))
        if rng.random() < 0.15:
            w = rng.randint(1, 3)
        case = {"enc": enc, "text": text, "width": w, "wrap": rng.choice(WRAPS), "align": rng.choice(ALIGNS)}
        run_one(ctx, st, case)
        ctx.counters["random_cases"] += 1
        if k <= 2:
            ctx.sample({k2: v for k2, v in case.items() if k2 not in ("prev", "hist")})
        if rng.random() < 0.3:
            cut = rng.randint(0, len(s))
            s2 = s[cut:] + s[:cut] + rng.choice(("", "a", " b"))
            text_only(enc, s2 if isinstance(text, str) else to_bytes(s2, enc, mode))
        if rng.random() < 0.4:
            for _ in range(2):
                w2 = max(1, w + rng.choice((-7, -3, -2, -1, 1, 2, 5)))
                run_one(ctx, st, dict(case, width=w2), light=True)
                ctx.count("same_config_other_width_cases")
        if rng.random() < 0.25:
            others = rng.sample(ENC_CYCLE, 3)
            interleave(ctx, st, s, w, case["wrap"], case["align"], [enc, *others, enc], as_bytes=isinstance(text, bytes))
        r = rng.random()
        if r < 0.25:
            run_one(ctx, st, dict(case, kind="fixed", prev=None))
        elif r < 0.3 and "\n" not in s:
            t1 = text.replace("\n", "") if isinstance(text, str) else text.replace(b"\n", b"")
            run_one(ctx, st, {"kind": "window", "enc": enc, "text": t1, "width": max(1, min(w, 8)), "shift": rng.randint(0, 12)})


def replay(ctx, wit):
    import urwid
    from urwid import util as U

    saved = (U._target_encoding, U._use_dec_special, urwid.str_util.get_byte_encoding())
    try:
        case = {k: v for k, v in wit.items() if k != "code"}
        out = evaluate(ctx, case)
        ctx.case(("replay", repr(case)))
        if out:
            report(ctx, case, out)
    finally:
        U._target_encoding, U._use_dec_special = saved[0], saved[1]
        urwid.str_util.set_byte_encoding(saved[2])
