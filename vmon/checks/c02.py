"""C02 canvas algebra == plain cell grid.

Random expression trees of canvas operations are evaluated twice: on the real urwid canvas
classes and on vmon.models.grid (a plain 2-D array of cells).  After evaluation the oracle
compares size, every cell (text, attribute, charset flag), cursor / pop-up coordinates, that no
operand canvas changed, that content_delta applied to the old rows gives the new rows, and that a
finalized canvas refuses every mutator.
"""

from __future__ import annotations

import json

from vmon import reach
from vmon.models import grid as G

PROPERTY = "C02"
LEVEL = "exploration"
SHARDS = {"quick": 8, "thorough": 16}
BUDGET = {"quick": 25.0, "thorough": 420.0}
REQUIRE = {
    "trees_compared": 2000,
    "cells_compared": 200000,
    "wide_cut_cells_seen": 200,
    "delta_pairs": 300,
    "delta_skips_seen": 200,
    "operand_fingerprints_rechecked": 5000,
    "finalized_mutator_refusals": 500,
    "cursor_compared": 300,
    "repeated_nonidempotent_map_trees": 100,
    "operand_sequence:iter": 500,
    "operand_sequence:gen": 500,
    "operand_sequence:reversed": 500,
    "operand_sequence:tuple": 500,
    "popup_compared": 50,
    "malformed_utf8_cases": 100,
}
RULE = (
    "random expression trees (depth<=4 quick, <=7 thorough; root size 1..14 cols x 1..7 rows) over leaves TextCanvas "
    "(rows of ASCII / double-width / zero-width / multi-byte characters with random attribute and charset runs, short "
    "rows padded by the canvas, optional cursor / pop-up), SolidCanvas; operators CanvasCombine, CanvasJoin (pad or trim "
    "to the given column count), CanvasOverlay, pad_trim_left_right, pad_trim_top_bottom, trim, trim_end, "
    "fill_attr_apply / fill_attr (chains), CompositeCanvas re-wrap, in-place or on a fresh wrapper, finalize at random "
    "nodes; x encodings utf8 / wide (euc-jp) / narrow; content_delta pairs = a tree and a sibling with one leaf replaced "
    "sharing every other leaf object, plus identical and unrelated pairs. distinct = distinct (mode, tree descriptor); "
    "non-trivial = tree has at least one operator node"
)
ASSUMES = [
    "attribute and charset run boundaries of leaf canvases coincide with character boundaries",
    "when several operands carry a cursor (or pop-up) the result must carry one of them, translated; with one it is exact",
    "a double-width character cut by a trim / overlay edge becomes one space with that character's attribute and no charset flag",
    "zero-width characters belong to the cell of the character before them, carry its attribute and charset flag, and no row starts with one",
    "a content_delta row that is a bare integer n means 'n columns unchanged' (leaf canvases compared with themselves answer that way)",
    "the top canvas handed to CanvasOverlay is a CompositeCanvas, as every in-tree caller does",
    "in UTF-8 mode a byte that does not start a well-formed character (lone continuation or lead byte, truncated, over-long, above U+10FFFF; one fragment at a time, surrogate forms not generated) is one cell of its own, as str_util documents for invalid sequences",
    "operations outside their domain (unequal widths in a stack, overlay not inside, trims leaving nothing) are not generated",
]

MODES = {"utf8": "utf-8", "wide": "euc-jp", "narrow": "ascii"}
ATTRS = [None, None, "a", "b", "c", 1]
NONIDEMPOTENT_MAPS = [
    [["a", "b"], ["b", "a"]],
    [["a", "b"], ["b", "c"]],
    [["a", "b"], ["b", "c"], ["c", "a"]],
    [[None, "a"], ["a", None]],
    [[None, "a"], ["a", "b"], [1, None]],
    [["c", 1], [1, "c"], ["a", "c"]],
]
NARROW = "abcxyzABC .-_|"
WIDE = "漢字あ"
ZERO = "́̀"
MULTI1 = "éß"  # multi-byte, single width
EMOJI = "😀"
DECALT = "qxlkmj"
RAWMARK = "\ue000"  # item "char" = RAWMARK + latin-1 image of bytes that are NOT well-formed utf-8: one cell per byte
MALFORMED = [
    b"\x80",  # lone continuation byte
    b"\xc3",  # lone lead byte
    b"\xe3\x81",  # truncated 3-byte form
    b"\xf4\x90\x80\x80",  # 4-byte form just above U+10FFFF
    b"\xf4\xbf\xbf\xbf",
    b"\xf5\x80\x80\x80",  # lead byte beyond F4
    b"\xf0\x80\x80\x80",  # over-long
    b"\xe0\x80\x80",
    b"\xc0\x80",
    b"\xff",
]


# ---------------------------------------------------------------- generator


def gen_row(rng, mode, width, malformed=False):
    """list of [char, attr, cs] whose display width is <= width (may be shorter)"""
    items = []
    lastraw = False
    target = width if rng.random() < 0.7 else rng.randint(0, width)
    w = 0
    a = rng.choice(ATTRS)
    cs = None
    while w < target:
        if rng.random() < 0.3:
            a = rng.choice(ATTRS)
        r = rng.random()
        cs = None
        if malformed and not lastraw and rng.random() < 0.18:
            frag = rng.choice(MALFORMED)
            if len(frag) <= target - w:
                # never two fragments in a row: their concatenation could be a well-formed character
                items.append([RAWMARK + frag.decode("latin-1"), a, None])
                w += len(frag)
                lastraw = True
                continue
        lastraw = False
        if mode != "narrow" and r < 0.3 and target - w >= 2:
            ch, cw = rng.choice(WIDE), 2
            if mode == "utf8" and rng.random() < 0.1:
                ch = EMOJI
        elif mode == "utf8" and r < 0.38:
            ch, cw = rng.choice(MULTI1), 1
        elif r < 0.48:
            ch, cw, cs = rng.choice(DECALT), 1, rng.choice(["0", "0", "U"])
        else:
            ch, cw = rng.choice(NARROW), 1
        items.append([ch, a, cs])
        w += cw
        if mode == "utf8" and rng.random() < 0.12:
            items.append([rng.choice(ZERO), a, cs])
    return items


class Gen:
    def __init__(self, rng, mode, maxdepth):
        self.rng = rng
        self.mode = mode
        self.maxdepth = maxdepth
        self.next_id = 0
        self.cursor_p = 0.25
        self.malformed = False

    def nid(self):
        self.next_id += 1
        return self.next_id

    def leaf(self, cols, rows):
        rng = self.rng
        if rng.random() < 0.15:
            ch = rng.choice("x.#" + ("─" if self.mode != "utf8" else "é"))
            return {"op": "solid", "id": self.nid(), "ch": ch, "cols": cols, "rows": rows, "fin": int(rng.random() < 0.5)}
        n = {
            "op": "text",
            "id": self.nid(),
            "cols": cols,
            "rows": [gen_row(rng, self.mode, cols, self.malformed) for _ in range(rows)],
            "fin": int(rng.random() < 0.5),
        }
        if rng.random() < self.cursor_p:
            n["cursor"] = [rng.randrange(cols), rng.randrange(rows)]
            self.cursor_p *= 0.3
        if rng.random() < 0.06:
            n["popup"] = [rng.randrange(cols), rng.randrange(rows)]
        return n

    def split(self, total, k):
        cuts = sorted(self.rng.sample(range(1, total), k - 1))
        return [b - a for a, b in zip([0, *cuts], [*cuts, total])]

    def tree(self, cols, rows, depth=0):
        rng = self.rng
        if depth >= self.maxdepth or rng.random() < 0.18 + 0.08 * depth:
            return self.leaf(cols, rows)
        ops = ["padlr", "padtb", "trim", "trimend", "map", "fillattr", "wrap", "overlay"]
        if rows >= 2:
            ops += ["combine", "combine"]
        if cols >= 2:
            ops += ["join", "join"]
        op = rng.choice(ops)
        n = {"op": op, "fin": int(rng.random() < 0.4), "inplace": int(rng.random() < 0.5)}
        d = depth + 1
        if op == "combine":
            k = rng.randint(2, min(4, rows))
            n["c"] = [self.tree(cols, r, d) for r in self.split(rows, k)]
            n["focus"] = rng.randrange(k)
        elif op == "join":
            k = rng.randint(2, min(4, cols))
            parts = []
            tall = rng.randrange(k)
            for i, c in enumerate(self.split(cols, k)):
                cc = max(1, c + rng.choice([0, 0, 0, -1, -2, 1, 2]))
                rr = rows if i == tall else rng.choice([rows, rng.randint(1, rows)])
                parts.append([self.tree(cc, rr, d), c])
            n["parts"] = parts
            n["focus"] = rng.randrange(k)
        elif op == "overlay":
            w = rng.randint(1, cols)
            h = rng.randint(1, rows)
            n["left"] = rng.randint(0, cols - w)
            n["top"] = rng.randint(0, rows - h)
            n["c"] = [self.tree(w, h, d), self.tree(cols, rows, d)]
        elif op == "padlr":
            for _ in range(20):
                l, r = rng.randint(-3, 3), rng.randint(-3, 3)
                if cols - l - r >= 1 and cols - max(0, l) - max(0, r) >= 1:
                    break
            else:
                l = r = 0
            n["l"], n["r"] = l, r
            n["c"] = [self.tree(cols - l - r, rows, d)]
        elif op == "padtb":
            for _ in range(20):
                t, b = rng.randint(-2, 2), rng.randint(-2, 2)
                if rows - t - b >= 1 and rows - max(0, t) - max(0, b) >= 1:
                    break
            else:
                t = b = 0
            n["t"], n["b"] = t, b
            n["c"] = [self.tree(cols, rows - t - b, d)]
        elif op == "trim":
            top = rng.randint(0, 3)
            extra = rng.randint(0, 2)
            n["top"] = top
            n["count"] = rows if (extra or rng.random() < 0.5) else None
            n["c"] = [self.tree(cols, rows + top + extra, d)]
        elif op == "trimend":
            end = rng.randint(1, 3)
            n["end"] = end
            n["c"] = [self.tree(cols, rows + end, d)]
        elif op == "map":
            keys = rng.sample(ATTRS[1:] + ["zz"], rng.randint(0, 4))
            n["map"] = [[k, rng.choice(["m1", "m2", "a", "b", None])] for k in dict.fromkeys(keys)]
            if rng.random() < 0.3:
                # a mapping that is not idempotent (swap / chain / cycle), applied two or three times in a
                # row - directly or with a wrapper / padding in between (equal dict objects, not the same one)
                n["map"] = [list(kv) for kv in rng.choice(NONIDEMPOTENT_MAPS)]
                inner = self.tree(cols, rows, d)
                for _ in range(rng.randint(1, 2)):
                    between = rng.choice(["none", "none", "wrap", "padlr"])
                    if between == "wrap":
                        inner = {"op": "wrap", "fin": int(rng.random() < 0.4), "inplace": 0, "c": [inner]}
                    elif between == "padlr":
                        inner = {"op": "padlr", "fin": 0, "inplace": int(rng.random() < 0.5), "l": 0, "r": 0, "c": [inner]}
                    inner = {"op": "map", "fin": int(rng.random() < 0.3), "inplace": int(rng.random() < 0.5), "map": [list(kv) for kv in n["map"]], "c": [inner], "repeat": 1}
                n["c"] = [inner]
                return n
            n["c"] = [self.tree(cols, rows, d)]
        elif op == "fillattr":
            n["a"] = rng.choice(["f1", "a", 7])
            n["c"] = [self.tree(cols, rows, d)]
        elif op == "wrap":
            n["c"] = [self.tree(cols, rows, d)]
        return n


def children_of(n):
    if n["op"] == "join":
        return [p[0] for p in n["parts"]]
    return n.get("c", [])


def leaves(n, out=None):
    out = [] if out is None else out
    if n["op"] in ("text", "solid"):
        out.append(n)
    for c in children_of(n):
        leaves(c, out)
    return out


def count_ops(n):
    return (0 if n["op"] in ("text", "solid") else 1) + sum(count_ops(c) for c in children_of(n))


# ---------------------------------------------------------------- model evaluation


def enc(ch, mode):
    if ch[:1] == RAWMARK:
        return ch[1:].encode("latin-1")
    return ch.encode(MODES[mode])


def item_cells(ch, a, cs, mode):
    if ch[:1] == RAWMARK:
        return [(bytes([b]), 1, a, cs) for b in enc(ch, mode)]
    return [(enc(ch, mode), (G.char_width(ch) if mode == "utf8" else len(enc(ch, mode))), a, cs)]


def model_eval(n, mode) -> G.Grid:
    op = n["op"]
    if op == "text":
        rows = []
        for r in n["rows"]:
            items = [cell for ch, a, cs in r for cell in item_cells(ch, a, cs, mode)]
            items += G.blank_row(n["cols"] - G.row_width(items))
            rows.append(items)
        g = G.Grid(n["cols"], rows)
        if "cursor" in n:
            g.cursors = [tuple(n["cursor"])]
        if "popup" in n:
            g.popups = [(n["popup"][0], n["popup"][1], n["id"])]
        return g
    if op == "solid":
        if n["ch"] == "─":
            it = (b"q", 1, None, "0")
        else:
            it = (enc(n["ch"], mode), 1, None, None)
        return G.Grid(n["cols"], [[it] * n["cols"] for _ in range(n["rows"])])
    cs = [model_eval(c, mode) for c in children_of(n)]
    if op == "combine":
        return G.stack(cs)
    if op == "join":
        return G.join([(g, p[1]) for g, p in zip(cs, n["parts"])])
    if op == "overlay":
        return G.overlay(cs[1], cs[0], n["left"], n["top"])
    (g,) = cs
    if op == "padlr":
        return G.pad_trim_lr(g, n["l"], n["r"])
    if op == "padtb":
        return G.pad_trim_tb(g, n["t"], n["b"])
    if op == "trim":
        return G.trim(g, n["top"], n["count"])
    if op == "trimend":
        return G.trim_end(g, n["end"])
    if op == "map":
        return G.attr_map(g, {k: v for k, v in n["map"]})
    if op == "fillattr":
        return G.attr_map(g, {None: n["a"]})
    if op == "wrap":
        return g.copy()
    raise AssertionError(op)


# ---------------------------------------------------------------- real evaluation


class PopTag:
    def __init__(self, i):
        self.i = i


class Real:
    seq_counts: dict = {}  # operand-sequence container kinds handed to CanvasCombine / CanvasJoin (flushed by run)

    """evaluates a descriptor on the real canvas classes, remembering every canvas it made"""

    def __init__(self, mode, leafcache=None):
        self.mode = mode
        self.leafcache = {} if leafcache is None else leafcache
        self.made = []  # (label, canvas, fingerprint)
        self.widget = object()

    def rle(self, vals_lens):
        out = []
        for v, ln in vals_lens:
            if out and out[-1][0] == v:
                out[-1] = (v, out[-1][1] + ln)
            else:
                out.append((v, ln))
        return out

    def fingerprint(self, c):
        rows = [tuple((a, cs, bytes(t)) for a, cs, t in row) for row in c.content()]
        return (c.cols(), c.rows(), tuple(rows), tuple(sorted((k, v[0], v[1]) for k, v in c.coords.items())))

    def note(self, label, c):
        self.made.append((label, c, self.fingerprint(c)))

    def finalize(self, n, c):
        if n.get("fin") and not c.widget_info:
            c.finalize(self.widget, (c.cols(), c.rows()), False)

    def leaf(self, n):
        from urwid import canvas as C

        key = n["id"]
        if key in self.leafcache:
            return self.leafcache[key]
        if n["op"] == "solid":
            c = C.SolidCanvas(n["ch"], n["cols"], n["rows"])
        else:
            text, attr, cs = [], [], []
            for r in n["rows"]:
                bs = [enc(ch, self.mode) for ch, _, _ in r]
                text.append(b"".join(bs))
                attr.append(self.rle((a, len(b)) for (_, a, _), b in zip(r, bs)))
                cs.append(self.rle((s, len(b)) for (_, _, s), b in zip(r, bs)))
            c = C.TextCanvas(text, attr, cs, cursor=tuple(n["cursor"]) if "cursor" in n else None, maxcol=n["cols"])
            if "popup" in n:
                c.set_pop_up(PopTag(n["id"]), n["popup"][0], n["popup"][1], 3, 2)
        self.finalize(n, c)
        self.leafcache[key] = c
        return c

    def ev(self, n, path="r"):
        from urwid import canvas as C

        op = n["op"]
        if op in ("text", "solid"):
            c = self.leaf(n)
            self.note(path + ":" + op, c)
            return c
        kids = [self.ev(c, f"{path}.{i}") for i, c in enumerate(children_of(n))]
        if op in ("combine", "join"):
            # the operand sequence is typed Iterable: hand it over as a list, a tuple, a one-shot iterator, a
            # generator or reversed(...) (urwid's own ScrollBar passes reversed(list)); chosen from the node
            seqkind = n.get("seq") or ("list", "tuple", "iter", "gen", "reversed")[(len(kids) * 3 + n["focus"] + n["fin"]) % 5]
            if op == "combine":
                info = [(k, i, i == n["focus"]) for i, k in enumerate(kids)]
            else:
                info = [(k, i, i == n["focus"], p[1]) for i, (k, p) in enumerate(zip(kids, n["parts"]))]
            Real.seq_counts[seqkind] = Real.seq_counts.get(seqkind, 0) + 1
            seq = {"list": lambda: info, "tuple": lambda: tuple(info), "iter": lambda: iter(info), "gen": lambda: (x for x in info), "reversed": lambda: reversed(info[::-1])}[seqkind]()
            out = C.CanvasCombine(seq) if op == "combine" else C.CanvasJoin(seq)
        elif op == "overlay":
            # every in-tree caller hands CanvasOverlay a CompositeCanvas as the top canvas (overlay() reads .shards)
            topc = kids[0] if isinstance(kids[0], C.CompositeCanvas) else C.CompositeCanvas(kids[0])
            out = C.CanvasOverlay(topc, kids[1], n["left"], n["top"])
        else:
            (k,) = kids
            if n.get("inplace") and isinstance(k, C.CompositeCanvas) and not k.widget_info and op != "wrap":
                out = k
                # k is no longer an operand: forget its fingerprint
                self.made = [m for m in self.made if m[1] is not k]
            else:
                out = C.CompositeCanvas(k)
            if op == "padlr":
                out.pad_trim_left_right(n["l"], n["r"])
            elif op == "padtb":
                out.pad_trim_top_bottom(n["t"], n["b"])
            elif op == "trim":
                out.trim(n["top"], n["count"])
            elif op == "trimend":
                out.trim_end(n["end"])
            elif op == "map":
                out.fill_attr_apply({k2: v for k2, v in n["map"]})
            elif op == "fillattr":
                out.fill_attr(n["a"])
        self.finalize(n, out)
        self.note(path + ":" + op, out)
        return out

    def recheck(self):
        """-> list of labels of canvases whose fingerprint changed since they were made"""
        bad = []
        for label, c, fp in self.made:
            try:
                now = self.fingerprint(c)
            except Exception as e:  # noqa: BLE001
                bad.append((label, f"content() now raises {type(e).__name__}: {e}"))
                continue
            if now != fp:
                what = "size" if now[:2] != fp[:2] else ("content" if now[2] != fp[2] else "coords")
                bad.append((label, what))
        return bad


MUTATORS = [
    ("trim", lambda c: c.trim(0, 1)),
    ("trim_end", lambda c: c.trim_end(1)),
    ("pad_trim_left_right", lambda c: c.pad_trim_left_right(1, 0)),
    ("pad_trim_top_bottom", lambda c: c.pad_trim_top_bottom(0, 1)),
    ("fill_attr", lambda c: c.fill_attr("zz")),
    ("fill_attr_apply", lambda c: c.fill_attr_apply({None: "zz"})),
    ("overlay", lambda c: c.overlay(_tiny(), 0, 0)),
    ("set_cursor", lambda c: c.set_cursor((0, 0))),
    ("set_pop_up", lambda c: c.set_pop_up(object(), 0, 0, 1, 1)),
    ("set_depends", lambda c: c.set_depends([])),
    ("finalize", lambda c: c.finalize(object(), (1, 1), False)),
]


def _tiny():
    from urwid import canvas as C

    return C.CompositeCanvas(C.TextCanvas([b"z"], maxcol=1))


# ---------------------------------------------------------------- the oracle


def op_path(n, path):
    """operator names along a label like r.0.1"""
    names = [n["op"]]
    for idx in path.split(":")[0].split(".")[1:]:
        n = children_of(n)[int(idx)]
        names.append(n["op"])
    return names


def judge(ctx, desc, mode, count=True):
    """evaluate one tree; returns list of (sig, msg).  Assumes the encoding is already set."""
    from urwid import canvas as C

    out = []
    root = desc["tree"]
    rootop = root["op"]
    try:
        model = model_eval(root, mode)
        model.check()
    except Exception as e:  # noqa: BLE001
        raise RuntimeError(f"model failed on generated case: {e!r}") from e
    real = Real(mode)
    try:
        canv = real.ev(root)
        rcols, rrows = canv.cols(), canv.rows()
        content = [list(r) for r in canv.content()]
    except Exception as e:  # noqa: BLE001
        return [(f"C02|{rootop}|raise:{type(e).__name__}", f"evaluating the tree raised {type(e).__name__}: {e}")]
    if (rcols, rrows) != (model.cols, model.nrows):
        out.append((f"C02|{rootop}|size", f"real {rcols}x{rrows} model {model.cols}x{model.nrows}"))
        return out
    if len(content) != rrows:
        out.append((f"C02|{rootop}|content-rows!=rows()", f"{len(content)} vs {rrows}"))
        return out
    try:
        flat = G.flatten_rows(content, mode)
    except ValueError as e:
        return [(f"C02|{rootop}|segment-splits-character", str(e))]
    for y, r in enumerate(flat):
        if G.row_width(r) != rcols:
            out.append((f"C02|{rootop}|rowwidth", f"row {y} is {G.row_width(r)} columns wide, canvas {rcols}"))
            return out
    d = G.first_diff(flat, model.rows)
    if count:
        ctx.count("trees_compared")
        if any(n.get("repeat") for n in op_nodes(root)):
            ctx.count("repeated_nonidempotent_map_trees")
        ctx.count("cells_compared", rcols * rrows)
        ctx.count("wide_cut_cells_seen", sum(1 for r, mr in zip(flat, model.rows) for it in mr if it[0] == b" " and it[2] is not None and it[3] is None))
    if d is not None:
        kind = G.diff_kind(d)
        # attribute the difference to the innermost operator: report operator set on the path to the root only
        out.append((f"C02|{rootop}|cell:{kind}", f"first differing cell row {d[0]} col {d[1]}: real {d[2]} model {d[3]}"))
    # coordinates
    cur = canv.cursor
    if model.cursors:
        if count:
            ctx.count("cursor_compared")
        if cur is None or tuple(cur) not in set(model.cursors):
            out.append((f"C02|{rootop}|cursor-coords", f"real cursor {cur}, model candidates {model.cursors}"))
    elif cur is not None:
        out.append((f"C02|{rootop}|cursor-from-nowhere", f"real cursor {cur}"))
    pop = canv.get_pop_up()
    if model.popups:
        if count:
            ctx.count("popup_compared")
        got = None if pop is None else (pop[0], pop[1], getattr(pop[2][0], "i", None))
        if got not in set(model.popups):
            out.append((f"C02|{rootop}|popup-coords", f"real pop-up {got}, model candidates {model.popups}"))
    elif pop is not None:
        out.append((f"C02|{rootop}|popup-from-nowhere", f"{pop}"))
    # operands unchanged
    bad = real.recheck()
    if count:
        ctx.count("operand_fingerprints_rechecked", len(real.made))
    for label, what in bad[:1]:
        names = op_path(root, label)
        out.append((f"C02|operand-mutated:{what}|by={'/'.join(names[-2:])}", f"canvas {label} changed ({what}) after later operations"))
    # finalized canvases refuse mutators
    for label, c, fp in real.made:
        if not c.widget_info or not isinstance(c, C.CompositeCanvas) or c.rows() < 2 or c.cols() < 1:
            continue
        for name, fn in MUTATORS:
            try:
                fn(c)
            except C.CanvasError:
                if count:
                    ctx.count("finalized_mutator_refusals")
                continue
            except Exception as e:  # noqa: BLE001
                out.append((f"C02|finalized|{name}|raise:{type(e).__name__}", f"{name} on finalized canvas raised {e!r}"))
                continue
            out.append((f"C02|finalized|{name}|accepted", f"{name} succeeded on finalized canvas {label}"))
        if real.fingerprint(c) != fp:
            out.append(("C02|finalized|changed-by-refused-mutator", f"{label}"))
        break
    return out


def judge_delta(ctx, desc, mode, count=True):
    """desc: {'tree': A, 'tree2': B} same size; B drawn after A sharing leaf objects with equal ids"""
    out = []
    A, B = desc["tree"], desc["tree2"]
    cache = {}
    ra = Real(mode, cache)
    rb = Real(mode, cache)
    try:
        ca = ra.ev(A)
        cb = rb.ev(B)
        old = G.flatten_rows(ca.content(), mode)
        new = G.flatten_rows(cb.content(), mode)
        delta = [[r] if isinstance(r, int) else list(r) for r in cb.content_delta(ca)]
    except Exception as e:  # noqa: BLE001
        return [(f"C02|delta|raise:{type(e).__name__}", f"{type(e).__name__}: {e}")]
    if len(delta) != cb.rows():
        return [("C02|delta|row-count", f"{len(delta)} delta rows for {cb.rows()} rows")]
    skips = sum(1 for r in delta for s in r if isinstance(s, int))
    try:
        applied = G.apply_delta(old, delta, cb.cols(), mode)
    except ValueError as e:
        return [("C02|delta|malformed", str(e))]
    if count:
        ctx.count("delta_pairs")
        ctx.count("delta_skips_seen", skips)
    d = G.first_diff(applied, new)
    if d is not None:
        y, x = d[0], d[1]
        # is the differing cell inside a span the delta declared unchanged?
        in_skip = False
        col = 0
        for sgm in delta[y]:
            if isinstance(sgm, int):
                if col <= x < col + sgm:
                    in_skip = True
                col += sgm
            else:
                col += sum(w for _, w in G.split_chars(sgm[2], mode))
        if in_skip:
            # classification only: does either canvas have, at that row, a shard some of whose columns are
            # occupied by canvases continuing from a shard above (the cview lists then do not start at column 0)
            def tail_cols(c):
                done = 0
                for num_rows, cviews in getattr(c, "shards", []):
                    if done <= y < done + num_rows:
                        return sum(cv[2] for cv in cviews) != c.cols()
                    done += num_rows
                return False

            shape = "shard-with-columns-continued-from-above" if (tail_cols(ca) or tail_cols(cb)) else "aligned-shards"
            out.append((f"C02|delta|changed-cell-declared-unchanged|{shape}", f"delta says row {y} col {x} is unchanged but old has {d[2]} and new has {d[3]}"))
        else:
            out.append((f"C02|delta|redrawn-cell-wrong:{G.diff_kind(d)}", f"old rows + delta != new content at row {y} col {x}: got {d[2]} want {d[3]}"))
    return out


# ---------------------------------------------------------------- shrinking


def leaf_like(n, mode):
    g = model_eval(n, mode)
    return {"op": "text", "id": 9000 + g.cols * 10 + g.nrows, "cols": g.cols, "rows": [[["a", None, None]] * g.cols for _ in range(g.nrows)], "fin": 0}


def shrink(ctx, desc, mode, sig, fn):
    """greedy: hoist subtrees, replace subtrees by plain leaves, while sig still reported"""
    budget = [120]

    def still(d):
        if budget[0] <= 0:
            return False
        budget[0] -= 1
        try:
            return any(s == sig for s, _ in fn(ctx, d, mode, count=False))
        except Exception:  # noqa: BLE001
            return False

    def variants(n):
        # hoist each child
        for c in children_of(n):
            yield c
        # replace each child by a plain leaf / recursively shrunk child
        kids = children_of(n)
        for i, c in enumerate(kids):
            if c["op"] not in ("text",) or any(len(r) > 0 for r in c.get("rows", [])):
                m = json.loads(json.dumps(n))
                ll = leaf_like(c, mode)
                if m["op"] == "join":
                    m["parts"][i][0] = ll
                else:
                    m["c"][i] = ll
                if ll != c:
                    yield m
            for v in variants(c):
                try:
                    g1, g2 = model_eval(v, mode), model_eval(c, mode)
                except Exception:  # noqa: BLE001
                    continue
                if (g1.cols, g1.nrows) != (g2.cols, g2.nrows):
                    continue
                m = json.loads(json.dumps(n))
                if m["op"] == "join":
                    m["parts"][i][0] = v
                else:
                    m["c"][i] = v
                yield m

    if "tree2" in desc:
        return desc
    cur = desc
    improved = True
    while improved and budget[0] > 0:
        improved = False
        for v in variants(cur["tree"]):
            d = {"mode": cur["mode"], "tree": v}
            if cur.get("malformed"):
                d["malformed"] = True
            if len(json.dumps(d)) < len(json.dumps(cur)) and still(d):
                cur = d
                improved = True
                break
    return cur


# ---------------------------------------------------------------- driver


def set_mode(mode):
    import urwid

    urwid.util.set_encoding(MODES[mode])


def mutate_leaf(rng, gen, tree):
    """copy of tree with one leaf replaced by a fresh one of the same size"""
    t = json.loads(json.dumps(tree))
    ls = leaves(t)
    victim = rng.choice(ls)
    if victim["op"] == "solid":
        new = gen.leaf(victim["cols"], victim["rows"])
    else:
        new = gen.leaf(victim["cols"], len(victim["rows"]))
    new["id"] = 5000 + gen.nid()
    victim.clear()
    victim.update(new)
    return t


def op_nodes(n, out=None):
    out = [] if out is None else out
    if n["op"] not in ("text", "solid"):
        out.append(n)
    for c in children_of(n):
        op_nodes(c, out)
    return out


def mutate_op(rng, tree, mode):
    """copy of tree with one operator's parameters changed so that the size stays the same
    (same leaf objects, different composition) or None"""
    t = json.loads(json.dumps(tree))
    nodes = [n for n in op_nodes(t) if n["op"] in ("map", "fillattr", "overlay", "combine", "join", "wrap")]
    rng.shuffle(nodes)
    for n in nodes:
        op = n["op"]
        if op == "map":
            n["map"] = [[k, rng.choice(["m1", "m2", "a", "b", None])] for k in rng.sample(ATTRS[1:] + ["zz"], rng.randint(0, 4))]
            n["map"] = [list(x) for x in dict((json.dumps(k), (k, v)) for k, v in n["map"]).values()]
            return t
        if op == "fillattr":
            n["a"] = rng.choice(["f1", "f2", "a", 7])
            return t
        if op == "wrap":
            n.update({"op": "map", "map": [[None, "m1"], ["a", "b"]]})
            return t
        if op == "overlay":
            g_top, g_bot = model_eval(n["c"][0], mode), model_eval(n["c"][1], mode)
            n["left"] = rng.randint(0, g_bot.cols - g_top.cols)
            n["top"] = rng.randint(0, g_bot.nrows - g_top.nrows)
            return t
        if op == "combine":
            kids = n["c"]
            sizes = [model_eval(k, mode).nrows for k in kids]
            pairs = [(i, j) for i in range(len(kids)) for j in range(i + 1, len(kids)) if sizes[i] == sizes[j]]
            if pairs:
                i, j = rng.choice(pairs)
                kids[i], kids[j] = kids[j], kids[i]
                return t
        if op == "join":
            parts = n["parts"]
            pairs = [(i, j) for i in range(len(parts)) for j in range(i + 1, len(parts)) if parts[i][1] == parts[j][1]]
            if pairs:
                i, j = rng.choice(pairs)
                parts[i], parts[j] = parts[j], parts[i]
                return t
    return None


def run_case(ctx, desc, fn):
    mode = desc["mode"]
    G.set_lenient(bool(desc.get("malformed")))
    try:
        res = fn(ctx, desc, mode)
        if desc.get("malformed"):
            ctx.count("malformed_utf8_cases")
        for sig, msg in res:
            small = shrink(ctx, desc, mode, sig, fn)
            ctx.violation(f"{sig}|{mode}" + ("|malformed-utf8-bytes" if desc.get("malformed") else ""), msg, small)
    finally:
        G.set_lenient(False)
    return res


def run(ctx):
    import urwid
    from urwid import canvas as C

    reach.watch(
        C.CompositeCanvas.content,
        C.CompositeCanvas.content_delta,
        C.shards_trim_sides,
        C.shards_trim_top,
        C.shards_trim_rows,
        C.shards_join,
        C.shards_delta,
        C.CompositeCanvas.overlay,
        C.CompositeCanvas.fill_attr_apply,
        urwid.util.trim_text_attr_cs,
    )
    old_enc = urwid.util.get_encoding()
    rng = ctx.rng
    maxdepth = ctx.pick(4, 7)
    k = 0
    try:
        while ctx.more(1.0):
            mode = ("utf8", "wide", "narrow", "utf8")[k % 4]
            if k % 4 == 0 or True:
                set_mode(mode)
            k += 1
            gen = Gen(rng, mode, rng.randint(1, maxdepth))
            cols, rows = rng.randint(1, 14), rng.randint(1, 7)
            gen.malformed = mode == "utf8" and k % 8 == 4
            tree = gen.tree(cols, rows)
            desc = {"mode": mode, "tree": tree}
            if gen.malformed:
                desc["malformed"] = True
            run_case(ctx, desc, judge)
            ctx.case((mode, json.dumps(tree, sort_keys=True)), nontrivial=count_ops(tree) > 0)
            ctx.count(f"mode:{mode}")
            if k <= 2:
                ctx.sample(desc)
            # delta pairs
            r = rng.random()
            if r < 0.3:
                t2 = mutate_leaf(rng, gen, tree)
                ctx.count("delta_kind:one-leaf-changed")
            elif r < 0.5:
                t2 = mutate_op(rng, tree, mode)
                if t2 is None:
                    continue
                ctx.count("delta_kind:one-operator-changed")
            elif r < 0.6:
                t2 = tree
                ctx.count("delta_kind:identical-tree")
            elif r < 0.75:
                g2 = Gen(rng, mode, rng.randint(1, maxdepth))
                g2.next_id = 20000
                g2.malformed = gen.malformed
                t2 = g2.tree(cols, rows)
                ctx.count("delta_kind:unrelated")
            else:
                continue
            d2 = {"mode": mode, "tree": tree, "tree2": t2}
            if gen.malformed:
                d2["malformed"] = True
            run_case(ctx, d2, judge_delta)
    finally:
        G.set_lenient(False)
        urwid.util.set_encoding(old_enc)
    for kind, cnt in Real.seq_counts.items():
        ctx.count(f"operand_sequence:{kind}", cnt)
    reach.flush(ctx)


def replay(ctx, wit):
    import urwid

    old_enc = urwid.util.get_encoding()
    try:
        set_mode(wit["mode"])
        G.set_lenient(bool(wit.get("malformed")))
        fn = judge_delta if "tree2" in wit else judge
        for sig, msg in fn(ctx, wit, wit["mode"]):
            ctx.violation(f"{sig}|{wit['mode']}" + ("|malformed-utf8-bytes" if wit.get("malformed") else ""), msg, wit)
    finally:
        G.set_lenient(False)
        urwid.util.set_encoding(old_enc)
