"""C18 colour specifications: reference-grammar + xterm-table monitor on the real AttrSpec.

Every case is a literal triple (foreground string, background string, declared depth).  The
triple is handed to the real ``urwid.display.common.AttrSpec`` constructor and, independently,
to a small reference reader of the documented specification language (below) that says
whether the triple is valid / must be rejected / is in the grey zone of Python ``int()``
leniency, and what colour it denotes according to ``vmon.models.xterm_colors`` (my own copy
of xterm's 256- and 88-colour definitions).  The oracle then judges the constructor's result
or exception and everything the object reports (foreground, background, colors,
get_rgb_values, ==, !=, hash, the *_basic/_high/_true/_number observers, the style flags).
"""

from __future__ import annotations

import itertools
from collections import Counter
from fractions import Fraction

from vmon import reach
from vmon.models import xterm_colors as X

PROPERTY = "C18"
LEVEL = "exploration"
SHARDS = {"quick": 8, "thorough": 16}
BUDGET = {"quick": 25.0, "thorough": 420.0}
TRUE = 2**24
DEPTHS = (1, 16, 88, 256, TRUE)
SETTINGS = ("bold", "italics", "underline", "blink", "standout", "strikethrough")

_REQ = {
    "cases_judged": 50000,
    "clause:roundtrip_eq": 20000,
    "clause:hash_eq": 20000,
    "clause:idempotent": 20000,
    "clause:nearest_cube": 10000,
    "clause:nearest_gray": 500,
    "clause:fixed_point": 500,
    "clause:index_preserved_hN": 500,
    "clause:rgb_table": 20000,
    "clause:colors_smallest": 20000,
    "clause:settings_flags": 5000,
    "clause:expressible_at_reported_depth": 100,
    "clause:cross_depth_equal_pairs": 1000,
    "reject_ok:beyond-depth": 5000,
    "reject_ok:unknown-colour": 500,
    "reject_ok:duplicate-setting": 100,
    "reject_ok:two-colours": 100,
    "reject_ok:invalid-depth": 20,
    "nearmiss:Nd-other-script": 2000,
    "nearmiss:No-isdigit": 2000,
    "nearmiss:No-numeric-only": 2000,
    "nearmiss:Nl": 1000,
    "nearmiss:Lo-numeric": 500,
    "nearmiss:sign": 1000,
    "nearmiss:blank": 1000,
    "nearmiss:underscore-dot": 1000,
    "padded_valid_parts": 500,
    "rgb24_gray_diagonal": 2560,
    "directed_whitespace_control": 20000,
    "padded:space": 2000,
    "padded:tab": 2000,
    "padded:newline": 2000,
    "padded:mixed": 2000,
    "clause:padded_equals_compact": 10000,
    "directed_signed:h": 1000,
    "directed_signed:g": 1000,
    "directed_signed:g#": 1000,
    "directed_signed:#": 1000,
    "reject_ok:negative-value": 300,
    "clause:lenient_value_preserved": 500,
    "style_arrangements": 1957,
    "reach:display.common._parse_color_256": 1000,
    "reach:display.common._parse_color_88": 1000,
    "reach:display.common._parse_color_true": 1000,
    "reach:display.common._true_to_256": 100,
    "reach:display.common._color_desc_256": 1000,
    "reach:display.common._color_desc_88": 1000,
    "reach:display.common._color_desc_true": 1000,
    "reach:display.common.AttrSpec.get_rgb_values": 1000,
}
# thorough: the 2**24 sweep must have covered at least 1/64 of all values, 13x the quick sample (it covers all of them unless the
# machine is badly overloaded; observed.sweep_shards_complete == 16 says the sweep was complete)
REQUIRE = {"quick": dict(_REQ), "thorough": dict(_REQ, sweep_values=2**24 // 64)}
RULE = (
    "a case = one literal (foreground string, background string, declared depth) triple given to the real AttrSpec "
    "constructor and judged by the reference reader + xterm tables; enumerated exhaustively in BOTH tiers: every colour "
    "token of the finite domain ('' / default, 16 basic names, h0..h255, #000..#fff, g0..g100, g#00..g#ff) as foreground "
    "and as background at each of the 5 depths (illegal depth => must raise AttrSpecError), all 1957 ordered arrangements "
    "of all 64 subsets of the six settings x 5 depths x 3 colours, per-component sweeps 0..255 of #rrggbb; sampled: "
    "#rrggbb (quick: ~20k random values per depth; thorough: all 2**24 values once as foreground and once, through a "
    "bijection, as background at depths 88, 256, 2**24 and at half density per side at depths 1 and 16, visited in 16 "
    "stride-16 passes so that an exhausted time budget leaves a uniform sample; complete iff "
    "observed.sweep_shards_complete == 16), fg x bg pairs, "
    "upper-case / whitespace variants, near misses of every numeric form (each digit of 15 base tokens substituted by / "
    "preceded by / followed by a character of 8 classes: decimal digits of other scripts, isdigit()-only, "
    "isnumeric()-only, letter numbers, CJK numerals, signs, blanks, underscore/dot; both sides, every depth; only a "
    "specification or AttrSpecError is acceptable) and malformed strings from a grammar (unknown / misspelt names, out-of-range and "
    "wrong-length numerals, non-hex digits, duplicated settings, two colours, settings in the background, int()-syntax "
    "oddities, random junk, invalid depths).  distinct = distinct triples (hashed); non-trivial = not "
    "(default, default, no settings).  For the thorough 2**24 sweep only every 16th value is entered into the distinct "
    "set (memory bound), so distinct_nontrivial UNDER-counts there; the exact number is observed.sweep_values x depths."
)
ASSUMES = [
    "reference reader of the documented language: colour tokens are exactly ''/default, the 16 names, h<0..255 decimal "
    "without leading zeros> (<=87 at depth 88), #<3 hex>, #<6 hex>, g<0..100>, g#<2 hex>; hex digits in either case; "
    "foreground = comma separated parts; any number of blanks, tabs and newlines around a part is layout and is ignored "
    "(measured: the unchanged tree accepts pads of 1..1000 of each at every depth and builds the compact spec), so a "
    "padded foreground must be accepted AND equal its compact spelling; other whitespace characters around a part are "
    "grey zone; background = ONE colour token, never stripped: whitespace/control characters around or inside it make "
    "it an unknown colour (must raise AttrSpecError) except where int() swallows them inside a numeric token ('h5 ', "
    "'#12\\n' read as one number: grey zone)",
    "a 24-bit colour is exactly '#' + six hex digits; a '#' token longer than 4 characters that is not canonical is "
    "never a colour (no int() grey zone for that form)",
    "strings that only Python int() leniency makes readable AND whose value under int() lies inside the documented range "
    "of their form (h+5, h-0, h 5, h1_0, leading zeros, 0x, non-ASCII decimal digits, 'g#f'; also an empty part next to a "
    "colour) are in a grey zone; a negative or out-of-range value (h-5, g-3, g#-f, #-12) or a string int() cannot read "
    "is never a colour and must be rejected.  Grey zone: accepting or rejecting with AttrSpecError are both "
    "fine, any other exception is a violation, and if accepted the generic clauses (round trip, hash, idempotence) apply and the "
    "object must equal the one built from the canonical spelling of that value",
    "#rgb digit d denotes component 17*d (doc: '#fcc' = 100%/80%/80%); g<n> denotes 255*n/100 and, since the library "
    "rounds that to 8 bits first, an entry within 1.0 of the minimal distance is accepted; g#xx and #rrggbb are exact",
    "'nearest entry of the palette': #rgb / #rrggbb degrade per component to the nearest cube level, gray forms to the "
    "nearest of {cube black, gray ramp, cube white}; ties may go either way; h<n> keeps index n",
    "at depth 2**24 #rrggbb is kept exactly; h<n>, #rgb, g<n>, g#xx may be stored either as the RGB of the nearest "
    "256-palette entry (what the library does) or as their exact 8-bit expansion",
    "'smallest depth that can express the specification' is judged by kind: 1 iff both colours default (settings do not "
    "count), 16 iff only basic names/default, otherwise the declared depth (88 and 256 palettes are not nested; a "
    "24-bit description needs 2**24)",
    "palette index observed through the public foreground_number / background_number and *_basic/_high/_true observers",
    "non-str colour arguments and non-int depths are outside the domain and are not generated",
]

BASIC = X.BASIC_NAMES
HEXD = frozenset("0123456789abcdefABCDEF")
DECD = frozenset("0123456789")
LENIENT = HEXD | frozenset("+-_xX \t\n\r\f\v")


# ------------------------------------------------------------------ reference reader


def _canon_dec(s: str) -> bool:
    return 1 <= len(s) <= 3 and all(c in DECD for c in s) and (s == "0" or s[0] != "0")


def classify_color(tok: str):
    """('default',) ('basic',i) ('h',n) ('cube3',(r,g,b)) ('rgb24',(r,g,b)) ('gpct',n) ('ghex',v)
    ('lenient', detail) ('junk', detail)"""
    if tok in ("", "default"):
        return ("default",)
    if tok in BASIC:
        return ("basic", BASIC.index(tok))
    if tok.startswith("g#"):
        pre, rest = "g#", tok[2:]
    elif tok[0] in "hg#":
        pre, rest = tok[0], tok[1:]
    else:
        return ("junk", "name")
    if rest == "":
        return ("junk", f"{pre}-empty")
    if pre in ("h", "g"):
        if _canon_dec(rest):
            n = int(rest)
            if n <= (255 if pre == "h" else 100):
                return ("h" if pre == "h" else "gpct", n)
            return ("junk", f"{pre}-out-of-range")
        if all(c in DECD for c in rest):
            if int(rest) > FORM_MAX[pre]:
                return ("junk", f"{pre}-out-of-range")
            return ("lenient", f"{pre}-noncanonical-decimal", int(rest))
    elif pre == "#":
        if all(c in HEXD for c in rest):
            if len(rest) == 3:
                return ("cube3", tuple(int(c, 16) for c in rest))
            if len(rest) == 6:
                return ("rgb24", (int(rest[0:2], 16), int(rest[2:4], 16), int(rest[4:6], 16)))
            return ("junk", "#-wrong-length-hex")
    elif all(c in HEXD for c in rest):  # g#
        if len(rest) == 2:
            return ("ghex", int(rest, 16))
        if len(rest) == 1:
            return ("lenient", "g#-one-digit", int(rest, 16))
        return ("junk", "g#-wrong-length-hex")
    # A 24-bit colour is exactly '#' + six hex digits (the library's own contract since fix 56fbed7: "everything else
    # falls through to Unrecognised color"); int() leniency exists only where ONE number is read (hN, gN, g#xx, #rgb),
    # so a '#' token longer than 4 characters that is not canonical is never a colour.
    if pre == "#" and len(tok) > 4:
        core = "".join(c for c in rest if not (c.isspace() or ord(c) < 32))
        if len(core) == 6 and all(c in HEXD for c in core):
            return ("junk", "#-rrggbb-with-whitespace-or-control-characters")
        return ("junk", "#-malformed-long")
    # int() tolerates any Unicode blank around digits and reads decimal digits of any script: grey zone, not junk
    if all((c in LENIENT) or (not c.isascii() and (c.isdigit() or c.isspace())) for c in rest):
        # Only VALUE-PRESERVING leniency is grey: the string must denote, under Python's own int() reading, a number
        # inside the documented range of its form (h0-255, g0-100, g#00-ff, hex digits).  A negative or out-of-range
        # value, or something int() cannot read at all, is never a colour and must be rejected.
        try:
            v = int(rest, 10 if pre in ("h", "g") else 16)
        except ValueError:
            return ("junk", f"{pre}-not-a-number")
        if v < 0:
            return ("junk", f"{pre}-negative")
        if v > FORM_MAX[pre]:
            return ("junk", f"{pre}-out-of-range")
        return ("lenient", f"{pre}-int()-syntax", v)
    return ("junk", f"{pre}-nondigit")


FORM_MAX = {"h": 255, "g": 100, "g#": 0xFF, "#": 0xFFFFFF}


def canonical_of_lenient(tok: str, c):
    """the canonical spelling of a grey-zone token's value (None where the digit count is ambiguous)"""
    pre = "g#" if tok.startswith("g#") else tok[0]
    v = c[2]
    if pre == "h":
        return f"h{v}"
    if pre == "g":
        return f"g{v}"
    if pre == "g#":
        return f"g#{v:02x}"
    if len(tok) == 4 and v <= 0xFFF:
        return f"#{v:03x}"
    if len(tok) == 7:
        return f"#{v:06x}"
    return None


def parse_fg(s: str):
    """('valid', colour, settings) | ('lenient', why) | ('invalid', why)"""
    settings = set()
    colours = []
    lenient = None
    for raw in s.split(","):
        p = raw.strip(" \t\n")
        if p != raw.strip():
            p = raw.strip()
            lenient = "odd-whitespace"
        if p in SETTINGS:
            if p in settings:
                return ("invalid", "duplicate-setting")
            settings.add(p)
            continue
        colours.append((p, classify_color(p)))
    junk = [c for _, c in colours if c[0] == "junk"]
    if junk:
        return ("invalid", "unknown-colour:" + junk[0][1])
    if len([1 for p, _ in colours if p != ""]) >= 2:
        return ("invalid", "two-colours")
    if len(colours) >= 2:
        return ("lenient", "empty-part")
    for _, c in colours:
        if c[0] == "lenient":
            lenient = c[1]
    if lenient:
        return ("lenient", lenient)
    return ("valid", colours[0][1] if colours else ("default",), frozenset(settings))


def parse_bg(s: str):
    if s in SETTINGS:
        return ("invalid", "setting-in-background")
    # the background is ONE colour token and is not stripped (measured: the unchanged tree rejects every padded
    # background name / default / #rrggbb); whitespace is tolerated only where int() swallows it inside a numeric token
    # ('h5 ', '#12\n' read as one number: grey zone through classify_color)
    c = classify_color(s)
    if s.strip() in SETTINGS:
        return ("invalid", "setting-in-background")
    if c[0] == "junk":
        return ("invalid", "unknown-colour:" + c[1])
    if c[0] == "lenient":
        return ("lenient", c[1])
    return ("valid", c)


def legal(c, depth: int) -> bool:
    k = c[0]
    if k == "default":
        return True
    if k == "basic":
        return depth >= 16
    if depth < 88:
        return False
    if k == "h":
        return c[1] < (88 if depth == 88 else 256)
    return True


def is_high(c) -> bool:
    return c[0] not in ("default", "basic")


# ------------------------------------------------------------------ reference colour model (tables)

PALS = (88, 256)
CUBE_OK = {p: [X.nearest_cube_levels(p, Fraction(v)) for v in range(256)] for p in PALS}
GHEX_OK = {p: [X.nearest_gray_indices(p, Fraction(v)) for v in range(256)] for p in PALS}
GPCT_OK = {p: [X.nearest_gray_indices(p, Fraction(255 * n, 100), slack=1) for n in range(101)] for p in PALS}
GPCT_STRICT = {p: [X.nearest_gray_indices(p, Fraction(255 * n, 100)) for n in range(101)] for p in PALS}
CUBE_LEVEL_SET = {p: frozenset(X.CUBE_LEVELS[p]) for p in PALS}
GRAY_EXACT = {p: {lv: idx for lv, idx in X.gray_candidates(p)} for p in PALS}


def expected_indices(c, pal: int):
    """acceptable palette indices for a high colour meaning c in palette pal"""
    k = c[0]
    if k == "h":
        return frozenset([c[1]])
    if k in ("cube3", "rgb24"):
        vals = [17 * d for d in c[1]] if k == "cube3" else c[1]
        sets = [CUBE_OK[pal][v] for v in vals]
        return frozenset(X.cube_index(pal, r, g, b) for r in sets[0] for g in sets[1] for b in sets[2])
    if k == "gpct":
        return GPCT_OK[pal][c[1]]
    if k == "ghex":
        return GHEX_OK[pal][c[1]]
    raise AssertionError(c)


def rgb_int(t) -> int:
    return (t[0] << 16) | (t[1] << 8) | t[2]


def expected_true_numbers(c):
    """acceptable 24-bit numbers at depth 2**24"""
    k = c[0]
    if k == "rgb24":
        return frozenset([rgb_int(c[1])])
    out = {rgb_int(X.PALETTE[256][i]) for i in expected_indices(c, 256)}
    if k == "cube3":
        out.add(rgb_int(tuple(17 * d for d in c[1])))
    elif k == "ghex":
        out.add(rgb_int((c[1],) * 3))
    elif k == "gpct":
        v = Fraction(255 * c[1], 100)
        for w in {int(v), int(v) + 1, round(v)}:
            if 0 <= w <= 255 and abs(w - v) <= Fraction(1, 2):
                out.add(rgb_int((w,) * 3))
    return frozenset(out)


def is_fixed_point_input(c, pal: int) -> bool:
    """the input is itself an exact palette value"""
    k = c[0]
    if k == "rgb24":
        return all(v in CUBE_LEVEL_SET[pal] for v in c[1])
    if k == "cube3":
        return all(17 * d in CUBE_LEVEL_SET[pal] for d in c[1])
    if k == "ghex":
        return c[1] in GRAY_EXACT[pal]
    return False


def ckind(c) -> str:
    return c[0]


def tokshape(s: str, split: bool = True, withlen: bool = True) -> str:
    """abstract shape of an input string for signatures (no concrete values)"""
    parts = s.split(",") if split else [s]
    out = []
    for p in parts[:3]:
        q = p.strip() if split else p
        if q in SETTINGS:
            out.append("setting")
            continue
        c = classify_color(q)
        if c[0] in ("junk", "lenient"):
            pre = "g#" if q.startswith("g#") else (q[0] if q[:1] in ("h", "g", "#") else "name")
            out.append(f"malformed:{pre}:len{min(len(q), 9)}" if withlen else f"malformed:{pre}")
        else:
            out.append(c[0])
    if len(parts) > 3:
        out.append("...")
    return "+".join(out)


# ------------------------------------------------------------------ the oracle


def _side(a, side):
    return (
        bool(getattr(a, side + "_basic")),
        bool(getattr(a, side + "_high")),
        bool(getattr(a, side + "_true")),
        getattr(a, side + "_number"),
    )


def _trunc_tag(c, pal, coords) -> str:
    """classifier detail only: is a non-nearest #rrggbb result what 'keep the high hex digit, then nearest' would give?"""
    if c[0] != "rgb24":
        return "other"
    for v, lv in zip(c[1], coords):
        if lv not in CUBE_OK[pal][v] and lv not in CUBE_OK[pal][(v >> 4) * 17]:
            return "other"
    return "as-if-low-hex-digit-dropped"


def judge(fg: str, bg: str, depth: int, C: Counter | None = None, level: int = 0):
    """run one triple through the real constructor and judge it; returns [(sig, msg)]"""
    from urwid.display.common import AttrSpec, AttrSpecError

    out = []

    def cnt(k, n=1):
        if C is not None:
            C[k] += n

    def bad(sig, msg):
        out.append((sig, f"{msg}  [AttrSpec({fg!r}, {bg!r}, {depth!r})]"))

    pf = parse_fg(fg)
    pb = parse_bg(bg)
    cf = cb = None
    st = frozenset()
    why = ""
    if depth not in DEPTHS:
        expect, why = "reject", "invalid-depth"
    elif pf[0] == "invalid":
        expect, why = "reject", "fg:" + pf[1]
    elif pb[0] == "invalid":
        expect, why = "reject", "bg:" + pb[1]
    elif pf[0] == "lenient" or pb[0] == "lenient":
        expect, why = "either", "fg:" + pf[1] if pf[0] == "lenient" else "bg:" + pb[1]
    else:
        cf, st, cb = pf[1], pf[2], pb[1]
        if not legal(cf, depth):
            expect, why = "reject", f"fg:beyond-depth:{ckind(cf)}"
        elif not legal(cb, depth):
            expect, why = "reject", f"bg:beyond-depth:{ckind(cb)}"
        else:
            expect = "accept"
    # (post-acceptance signatures of grey-zone inputs carry the token prefix only, not its length)
    kinds = f"fg={ckind(cf)}|bg={ckind(cb)}" if cf is not None else f"fg={tokshape(fg, True, False)}|bg={tokshape(bg, False, False)}"
    shapes = "+".join(sorted({x for x in (tokshape(fg), tokshape(bg, False)) if x != "default"})) or "default"
    cnt("cases_judged")
    cnt(f"expect:{expect}")

    # ---- construction
    try:
        a = AttrSpec(fg, bg, depth)
    except AttrSpecError as e:
        if expect == "accept":
            bad(f"C18|construct|valid-rejected|{kinds}|depth={depth}", f"valid specification rejected: {e}")
        elif expect == "reject":
            w = why.split(":")
            cnt("reject_ok:" + (w[1] if w[0] in ("fg", "bg") else w[0]))
            if why.endswith("-negative"):
                cnt("reject_ok:negative-value")
            cnt(f"reject_ok_depth:{depth if depth in DEPTHS else 'invalid'}")
        else:
            cnt("lenient_rejected")
        return out
    except Exception as e:  # noqa: BLE001
        bad(
            f"C18|construct|foreign-exception|tokens={shapes}|depth={depth}|raise:{type(e).__name__}",
            f"constructor raised {type(e).__name__}: {e} (expected {'AttrSpecError' if expect != 'accept' else 'success'})",
        )
        return out
    if expect == "reject":
        w = why.split(":")
        wc = (w[1] + (":" + w[2] if len(w) > 2 else "")) if w[0] in ("fg", "bg") else w[0]
        tk = (tokshape(fg) if w[0] == "fg" else tokshape(bg, False)) if w[0] in ("fg", "bg") else "-"
        bad(f"C18|construct|invalid-accepted|{wc}|token={tk}|depth={depth}", f"invalid input accepted ({why})")
        return out
    if expect == "either":
        cnt("lenient_accepted")
        # an accepted grey-zone token must mean exactly what its canonical spelling means
        for side, tok, other in (("fg", fg.strip(), bg), ("bg", bg, fg)):
            c = classify_color(tok) if "," not in tok else ("x",)
            if c[0] != "lenient" or other not in ("", "default"):
                continue
            canon = canonical_of_lenient(tok, c)
            if canon is None:
                continue
            cnt("clause:lenient_value_preserved")
            pre = "g#" if tok.startswith("g#") else tok[0]
            try:
                ref = AttrSpec(canon, "", depth) if side == "fg" else AttrSpec("", canon, depth)
            except AttrSpecError:
                bad(f"C18|lenient|accepted-but-canonical-spelling-rejected|token={pre}|depth={depth}", f"{tok!r} accepted, {canon!r} rejected")
                continue
            if ref != a:
                bad(f"C18|lenient|value-not-preserved|token={pre}|depth={depth}", f"{tok!r} is not the same specification as {canon!r}")

    # ---- observers must not raise
    obs = {}
    for name, fn in (
        ("foreground", lambda: a.foreground),
        ("background", lambda: a.background),
        ("colors", lambda: a.colors),
        ("get_rgb_values", lambda: a.get_rgb_values()),
        ("hash", lambda: hash(a)),
        ("repr", lambda: repr(a)),
        ("fgside", lambda: _side(a, "foreground")),
        ("bgside", lambda: _side(a, "background")),
    ):
        try:
            obs[name] = fn()
        except Exception as e:  # noqa: BLE001
            bad(f"C18|observe|{name}|raise:{type(e).__name__}|{kinds}|depth={depth}", f"{name} raised {type(e).__name__}: {e}")
            break  # later observers fail as a consequence
    if len(obs) < 8:
        return out
    fd, bd, col, rgb = obs["foreground"], obs["background"], obs["colors"], obs["get_rgb_values"]
    cnt("observed_specs")

    # ---- colors: a depth, not above the declared one
    if col not in DEPTHS or isinstance(col, bool):
        bad(f"C18|colors|not-a-depth|{kinds}|depth={depth}", f"colors={col!r}")
    elif col > depth:
        bad(f"C18|colors|exceeds-declared|{kinds}|depth={depth}", f"colors={col} > {depth}")
    cnt("clause:colors_is_depth")

    if expect == "accept":
        pal = depth if depth in PALS else 256
        # ---- kind / index / nearest / fixed point
        side_idx = {}
        for side, c, o in (("foreground", cf, obs["fgside"]), ("background", cb, obs["bgside"])):
            basic, high, true, num = o
            k = c[0]
            if k == "default":
                want = (False, False, False)
            elif k == "basic":
                want = (True, False, False)
            elif depth == TRUE:
                want = (False, False, True)
            else:
                want = (False, True, False)
            if (basic, high, true) != want:
                bad(
                    f"C18|kind|token={k}|depth={depth}|flags={int(basic)}{int(high)}{int(true)}",
                    f"{side}: basic/high/true = {(basic, high, true)}, expected {want}",
                )
                continue
            cnt("clause:kind_flags")
            if k == "default":
                side_idx[side] = None
                continue
            if k == "basic":
                if num != c[1]:
                    bad(f"C18|index|basic-name-wrong-number|depth={depth}", f"{BASIC[c[1]]!r} stored as {num}")
                else:
                    side_idx[side] = ("basic", num)
                cnt("clause:basic_index")
                continue
            if depth == TRUE:
                exp = expected_true_numbers(c)
                cnt("clause:true_value")
                if k == "rgb24":
                    cnt("clause:fixed_point")
                if num not in exp:
                    bad(
                        f"C18|nearest|form={k}|depth={depth}|true-value-not-exact-nor-nearest-256-entry",
                        f"{side} stored as #{num:06x}, acceptable {sorted('#%06x' % x for x in exp)}",
                    )
                else:
                    side_idx[side] = ("true", num)
                continue
            exp = expected_indices(c, pal)
            if k == "h":
                cnt("clause:index_preserved_hN")
                if num != c[1]:
                    bad(f"C18|index|hN-not-preserved|depth={depth}", f"h{c[1]} stored as {num}")
                    continue
            elif k in ("cube3", "rgb24"):
                cnt("clause:nearest_cube")
                co = X.cube_coords(pal, num) if isinstance(num, int) else None
                if co is None:
                    bad(f"C18|nearest|form={k}|depth={depth}|result-outside-cube", f"{side} index {num!r} is not a cube entry")
                    continue
                if num not in exp:
                    levels = tuple(X.CUBE_LEVELS[pal][i] for i in co)
                    tag = _trunc_tag(c, pal, co)
                    fp = is_fixed_point_input(c, pal)
                    bad(
                        f"C18|nearest|form={k}|depth={depth}|{'exact-palette-value-moved' if fp else 'cube-level-not-nearest'}|{tag}",
                        f"{side}: chose cube levels {levels} (index {num}); nearest indices {sorted(exp)}",
                    )
                    continue
                if is_fixed_point_input(c, pal):
                    cnt("clause:fixed_point")
            else:
                cnt("clause:nearest_gray")
                cand = X.gray_candidates(pal)
                pos = {idx: i for i, (_, idx) in enumerate(cand)}
                if num not in pos:
                    bad(f"C18|nearest|form={k}|depth={depth}|result-outside-gray-scale", f"{side} index {num!r} not black/ramp/white")
                    continue
                if num not in exp:
                    strict = GHEX_OK[pal][c[1]] if k == "ghex" else GPCT_STRICT[pal][c[1]]
                    np_ = min(pos[i] for i in strict)
                    fp = is_fixed_point_input(c, pal)
                    bad(
                        f"C18|nearest|form={k}|depth={depth}|{'exact-palette-value-moved' if fp else 'gray-not-nearest'}|"
                        f"{'chose-brighter' if pos[num] > np_ else 'chose-darker'}",
                        f"{side}: chose level {cand[pos[num]][0]} (index {num}); nearest indices {sorted(strict)} "
                        f"(levels {[cand[pos[i]][0] for i in sorted(strict)]})",
                    )
                    continue
                if is_fixed_point_input(c, pal):
                    cnt("clause:fixed_point")
            side_idx[side] = ("high", num)

        # ---- reported RGB = xterm tables
        if len(side_idx) == 2 and isinstance(rgb, tuple) and len(rgb) == 6:
            for side, got in (("foreground", rgb[0:3]), ("background", rgb[3:6])):
                si = side_idx[side]
                other = side_idx["background" if side == "foreground" else "foreground"]
                if si is None:
                    want, table = (None, None, None), "default"
                elif si[0] == "basic":
                    want, table = X.BASIC_RGB[si[1]], "basic"
                elif si[0] == "true":
                    want, table = ((si[1] >> 16) & 255, (si[1] >> 8) & 255, si[1] & 255), "true"
                else:
                    want, table = X.PALETTE[pal][si[1]], str(pal)
                cnt("clause:rgb_table")
                if tuple(got) != tuple(want):
                    loc = f"index={si[1]}" if si and si[0] != "true" else "value"
                    if si and si[0] == "basic" and tuple(got) == (0, 0, si[1]):
                        loc = "basic-number-read-as-24-bit-rgb"
                    bad(
                        f"C18|rgb|table={table}|{loc}|other-side={'default' if other is None else other[0]}|depth={depth}",
                        f"get_rgb_values {side} = {tuple(got)}, xterm table says {tuple(want)}",
                    )
        elif not (isinstance(rgb, tuple) and len(rgb) == 6):
            bad(f"C18|rgb|shape|{kinds}|depth={depth}", f"get_rgb_values returned {rgb!r}")

        # ---- smallest depth
        if not is_high(cf) and not is_high(cb):
            smallest = 1 if (cf[0] == "default" and cb[0] == "default") else 16
        else:
            smallest = depth
        cnt("clause:colors_smallest")
        if col != smallest:
            bad(f"C18|colors|reported={col}|smallest={smallest}|depth={depth}", f"colors={col}, smallest depth expressing it is {smallest}")

        # ---- settings
        cnt("clause:settings_flags")
        for s in SETTINGS:
            if bool(getattr(a, s)) != (s in st):
                bad(f"C18|settings|flag-mismatch|{s}|depth={depth}", f"{s}={getattr(a, s)} for settings {sorted(st)}")

        # ---- descriptions are in the reference language and denote the same kind
        pfd, pbd = parse_fg(fd) if isinstance(fd, str) else ("invalid", "not-str"), parse_bg(bd) if isinstance(bd, str) else ("invalid", "not-str")
        cnt("clause:description_canonical")
        if pfd[0] != "valid":
            bad(f"C18|describe|foreground|not-in-language:{pfd[1]}|{kinds}|depth={depth}", f"foreground description {fd!r}")
        else:
            if pfd[2] != st:
                bad(f"C18|describe|foreground|settings-differ|depth={depth}", f"{fd!r} vs settings {sorted(st)}")
            dk = pfd[1]
            if (dk[0] in ("default", "basic") or cf[0] in ("default", "basic")) and dk != cf:
                bad(f"C18|describe|foreground|kind-changed|{kinds}|depth={depth}", f"{fd!r} for {cf}")
            if depth == TRUE and is_high(cf) and dk[0] != "rgb24":
                bad(f"C18|describe|foreground|not-#rrggbb-at-true-colour|{kinds}", f"{fd!r}")
        if pbd[0] != "valid":
            bad(f"C18|describe|background|not-in-language:{pbd[1]}|{kinds}|depth={depth}", f"background description {bd!r}")
        else:
            dk = pbd[1]
            if (dk[0] in ("default", "basic") or cb[0] in ("default", "basic")) and dk != cb:
                bad(f"C18|describe|background|kind-changed|{kinds}|depth={depth}", f"{bd!r} for {cb}")
            if depth == TRUE and is_high(cb) and dk[0] != "rgb24":
                bad(f"C18|describe|background|not-#rrggbb-at-true-colour|{kinds}", f"{bd!r}")

    # ---- layout: any amount of whitespace around the foreground parts == the compact spelling
    compact = ",".join(p.strip() for p in fg.split(","))
    if compact != fg:
        cnt("clause:padded_equals_compact")
        try:
            cs = AttrSpec(compact, bg, depth)
            if cs != a or a != cs:
                bad(f"C18|layout|padded-differs-from-compact|{kinds}|depth={depth}", f"AttrSpec({compact!r}, {bg!r}, {depth}) != padded spelling")
            elif hash(cs) != obs["hash"]:
                bad(f"C18|hash|equal-specs-different-hash|padded-vs-compact|{kinds}|depth={depth}", "equal but hashes differ")
        except Exception as e:  # noqa: BLE001
            bad(
                f"C18|layout|padded-accepted-compact-raises:{type(e).__name__}|{kinds}|depth={depth}",
                f"AttrSpec({compact!r}, {bg!r}, {depth}) raised {type(e).__name__}: {e}",
            )

    # ---- round trip, hash, idempotence (valid and grey-zone-accepted alike)
    b = None
    try:
        b = AttrSpec(fd, bd, depth)
    except Exception as e:  # noqa: BLE001
        bad(
            f"C18|roundtrip|rebuild-raised:{type(e).__name__}|{kinds}|depth={depth}",
            f"AttrSpec({fd!r}, {bd!r}, {depth}) raised {type(e).__name__}: {e}",
        )
    if b is not None:
        cnt("clause:roundtrip_eq")
        eq = b == a
        if not eq or not (a == b):
            bad(f"C18|roundtrip|rebuilt-not-equal|{kinds}|depth={depth}", f"AttrSpec({fd!r}, {bd!r}, {depth}) != original")
        else:
            cnt("clause:hash_eq")
            if hash(b) != obs["hash"]:
                bad(f"C18|hash|equal-specs-different-hash|{kinds}|depth={depth}", "a == b but hash(a) != hash(b)")
        if (a != b) == eq:
            bad(f"C18|eq|ne-inconsistent|{kinds}|depth={depth}", f"(a == b) = {eq} and (a != b) = {a != b}")
        cnt("clause:idempotent")
        try:
            fd2, bd2 = b.foreground, b.background
            if fd2 != fd or bd2 != bd:
                bad(f"C18|idempotent|description-changes-on-reparse|{kinds}|depth={depth}", f"{(fd, bd)} -> {(fd2, bd2)}")
        except Exception as e:  # noqa: BLE001
            bad(f"C18|idempotent|observe-raised:{type(e).__name__}|{kinds}|depth={depth}", f"{e}")
    # ---- equal specifications have equal hashes, also across declared depths (same strings, other depth)
    if level == 0 and expect == "accept":
        for d2 in DEPTHS:
            if d2 <= depth:  # every unordered pair of depths once
                continue
            try:
                o = AttrSpec(fg, bg, d2)
            except Exception:  # noqa: BLE001  (judged as its own case at depth d2)
                continue
            cnt("clause:cross_depth_eq_evaluated")
            if o == a or a == o:
                cnt("clause:cross_depth_equal_pairs")
                if hash(o) != obs["hash"]:
                    bad(f"C18|hash|equal-specs-different-hash|cross-depth|{kinds}|depth={depth}|other={d2}", f"AttrSpec(..., {d2}) == AttrSpec(..., {depth}) but hashes differ")
                if (o == a) != (a == o):
                    bad(f"C18|eq|asymmetric|cross-depth|{kinds}|depth={depth}|other={d2}", "a == o and o == a disagree")
    # ---- the reported depth really can express it
    if col in DEPTHS and col < depth and expect == "accept":
        cnt("clause:expressible_at_reported_depth")
        try:
            c2 = AttrSpec(fd, bd, col)
            if c2.foreground != fd or c2.background != bd:
                bad(
                    f"C18|colors|description-differs-at-reported-depth|{kinds}|depth={depth}|reported={col}",
                    f"at colors={col}: {(c2.foreground, c2.background)} vs {(fd, bd)}",
                )
        except Exception as e:  # noqa: BLE001
            bad(
                f"C18|colors|not-expressible-at-reported-depth:{type(e).__name__}|{kinds}|depth={depth}|reported={col}",
                f"AttrSpec({fd!r}, {bd!r}, {col}) raised {type(e).__name__}: {e}",
            )
    # ---- the descriptions, read as inputs, denote what is stored (one level)
    if level == 0 and expect == "accept" and b is not None and (fd, bd) != (fg, bg):
        key = (fd, bd, depth)
        if C is None:
            out.extend(judge(fd, bd, depth, None, level=1))
        elif key not in _NORMAL_FORMS_JUDGED:  # same triple, same deterministic verdict: judge each normal form once per process
            _NORMAL_FORMS_JUDGED.add(key)
            out.extend(judge(fd, bd, depth, C, level=1))
    return out


_NORMAL_FORMS_JUDGED: set = set()


def clause_id(sig: str) -> str:
    return "|".join(sig.split("|")[1:3])


def simpler_triples(fg: str, bg: str, depth: int):
    """simpler witnesses, simplest first: one foreground part alone, no settings, no other side"""
    parts = [p.strip() for p in fg.split(",")]
    cparts = [p for p in parts if p not in SETTINGS and p != ""]
    multi = len(parts) > 1
    bgd = bg in ("", "default")
    cands = []
    if multi or not bgd:
        cands += [(p, "", depth) for p in cparts]
    if not bgd:
        if multi:
            cands.append((fg, "", depth))
        cands.append(("", bg, depth))
        if multi:
            cands += [(p, bg, depth) for p in cparts]
    out = []
    for c in cands:
        if c not in out and c != (fg, bg, depth):
            out.append(c)
    return out


def evaluate(ctx, fg: str, bg: str, depth: int, register: bool = True) -> int:
    """judge + shrink + report; returns number of violations"""
    C = ctx.counters
    vs = judge(fg, bg, depth, C)
    if register:
        ctx.case((fg, bg, depth), nontrivial=not (fg in ("", "default") and bg in ("", "default")))
    if not vs:
        return 0
    simp = None
    for sig, msg in vs:
        wit = {"fg": fg, "bg": bg, "depth": depth}
        if simp is None:
            simp = [(t, judge(*t)) for t in simpler_triples(fg, bg, depth)]
        done = False
        for t, vs2 in simp:
            for sig2, msg2 in vs2:
                if clause_id(sig2) == clause_id(sig):
                    ctx.violation(sig2, msg2, {"fg": t[0], "bg": t[1], "depth": t[2]})
                    done = True
                    break
            if done:
                break
        if not done:
            ctx.violation(sig, msg, wit)
    return len(vs)


# ------------------------------------------------------------------ generators


def finite_tokens():
    toks = ["", "default", *BASIC]
    toks += [f"h{n}" for n in range(256)]
    toks += [f"#{n:03x}" for n in range(4096)]
    toks += [f"g{n}" for n in range(101)]
    toks += [f"g#{n:02x}" for n in range(256)]
    return toks


def arrangements():
    for k in range(7):
        for sub in itertools.combinations(SETTINGS, k):
            yield from itertools.permutations(sub)


UNKNOWN_NAMES = [
    "red", "green", "blue", "cyan", "magenta", "grey", "gray", "light grey", "dark grey", "dark yellow", "orange", "purple",
    "Dark Red", "BLACK", "White", "darkred", "dark  red", "dark_red", "dark-red", "bright red", "light black", "dark white",
    "none", "transparent", "inherit", "Default", "DEFAULT", "defaults", "light  gray", "lightgray", "dark red ", "brown.",
    "H5", "G50", "G#80", "#FFG", "h256", "h300", "h999", "h1000", "g101", "g200", "g999", "g#100", "g#fff", "g#", "g", "h", "#",
    "#f", "#ff", "#ffff", "#fffff", "#fffffff", "#ffffffff", "#ggg", "#12g", "#g12", "#gggggg", "#12345g", "#g12345", "g#gg",
    "g#zz", "g#1z", "hxx", "hz", "gzz", "g1z", "h1z", "g#z0z0z", "h0x1y2z", "#1z2z3z", "g#12345", "hz1z2z3", "gz5z0zz", "g0z5z0z",
    "#zzzzzz", "#zz0000", "#00zz00", "#0000zz", "#zzz", "#z00", "#0z0", "#00z", "rgb(1,2,3)", "0", "1", "255", "16", "f00",
    "ff0000", "0xff0000", "bolder", "Bold", "underlined", "italic", "strike", "reverse", "dim", "h5.0", "g50%", "g5e1", "#1e2",
    "h1e2", "g1e1", "g#1e", "\x00", "dark red\x00", "é", "漢", "h٥", "#１２３",
]
INT_SYNTAX = [
    "h+5", "h-0", "h 5", "h5 ", "h1_0", "h007", "h0000", "h0255", "g+50", "g 50", "g-0", "g050", "g1_0", "g0100", "g#+f", "g#-0",
    "g# f", "g#f", "g#0", "g#f_", "g#0x", "#+ff", "#-00", "# ff", "#1_1", "#0x1", "#0X1", "# 1 2 3", "#+1+2+3", "#-1-1-1", "#-0-0-0",
    "#1_2_3_", "#0x10x2", "h\t5", "h\n5", "g#\tf", "#\n12", "#12\n", "#+12345", "# 12345", "#1 2 3 ", "#-12345", "#1234_5",
    "h-1", "g-1", "h+300", "g+101", "h__5", "h5_", "h_5",
]


def mutate_name(rng, name: str) -> str:
    r = rng.random()
    i = rng.randrange(len(name))
    alpha = "ghijklmnopqrstuvwyz "
    if r < 0.3:
        return name[:i] + name[i + 1 :]
    if r < 0.6:
        return name[:i] + rng.choice(alpha) + name[i:]
    if r < 0.8:
        return name[:i] + rng.choice(alpha) + name[i + 1 :]
    if r < 0.9:
        return name.upper() if rng.random() < 0.5 else name.title()
    return name.replace(" ", rng.choice(["", "  ", "_", "-"]))


JUNK_ALPHA = "0123456789abcdefgGhH#xz,+- _\t.%é５"

# Characters that look numeric to some str predicate (isdigit / isdecimal / isnumeric) or that Python's int() tolerates
# around digits, by class.  A numeric form (hN, gN, g#xx, #rgb, #rrggbb) carrying one of them is a near miss: the only
# acceptable outcomes are a specification (int() leniency, grey zone) or AttrSpecError.
NEARMISS_CHARS = {
    "Nd-other-script": "\u0663\u06f3\u0969\uff13\u0e53\U0001d7d1\U0001d7ef\u1047",  # decimal digits int() reads
    "No-isdigit": "\u00b2\u00b3\u00b9\u2070\u2074\u2081\u2460\u2474\u2488\u2776\u24ea\u24f5\u2780",  # isdigit() but not decimal
    "No-numeric-only": "\u00bd\u00bc\u2153\u2469\u2473\u0bf0\u3251\u2189",  # isnumeric() only (fractions, circled 10/20/21)
    "Nl": "\u2167\u2173\u3007\u3021\u16ee\U00010140",  # letter numbers (roman, hangzhou, runic)
    "Lo-numeric": "\u4e00\u4e09\u5341",  # CJK numerals
    "sign": "+-\u2212\uff0b\uff0d\u207a\u207b",
    "blank": " \t\n\u00a0\u2009\u3000\u200b\ufeff",
    "underscore-dot": "_.\uff3f,e",
}
NEARMISS_BASES = ["h0", "h5", "h12", "h87", "h200", "g0", "g7", "g50", "g100", "g#00", "g#c8", "#000", "#9af", "#000000", "#12ab9f"]


def nearmiss_tokens():
    """every base token with each near-miss character substituted for / inserted before / appended after each digit,
    plus all-substituted bodies; yields (class, token)"""
    seen = set()
    for base in NEARMISS_BASES:
        k = 2 if base.startswith("g#") else 1
        pre, body = base[:k], base[k:]
        for cls, chars in NEARMISS_CHARS.items():
            for ch in chars:
                cands = [pre + ch * len(body)] if len(body) <= 3 else []
                for i in range(len(body) + 1):
                    cands.append(pre + body[:i] + ch + body[i:])
                    if i < len(body):
                        cands.append(pre + body[:i] + ch + body[i + 1 :])
                for t in cands:
                    if t not in seen:
                        seen.add(t)
                        yield cls, t


def random_junk(rng) -> str:
    r = rng.random()
    if r < 0.35:
        pre = rng.choice(["#", "g#", "g", "h", "", "#", "g#"])
        n = rng.choice([0, 1, 2, 3, 3, 4, 5, 6, 6, 7, 8])
        alpha = "0123456789abcdefABCDEFgz+- _x" if rng.random() < 0.6 else "0123456789af" + "".join(NEARMISS_CHARS.values())
        return pre + "".join(rng.choice(alpha) for _ in range(n))
    if r < 0.5:
        # 7-character strings with digits in the positions a high-digit picker would look at
        pre = rng.choice(["g#", "h", "#", "g", "x"])
        body = [rng.choice("zxyq0123456789abcdef") for _ in range(7 - len(pre))]
        return pre + "".join(body)
    if r < 0.7:
        return mutate_name(rng, rng.choice([*BASIC, "default", *SETTINGS]))
    return "".join(rng.choice(JUNK_ALPHA) for _ in range(rng.randint(0, 10)))


def random_color_token(rng, depth=None) -> str:
    r = rng.random()
    if r < 0.08:
        return rng.choice(["", "default"])
    if r < 0.25:
        return rng.choice(BASIC)
    if r < 0.40:
        return f"h{rng.randrange(256 if depth != 88 or rng.random() < 0.1 else 88)}"
    if r < 0.58:
        t = f"#{rng.randrange(4096):03x}"
    elif r < 0.80:
        t = f"#{rng.randrange(TRUE):06x}"
    elif r < 0.90:
        return f"g{rng.randrange(101)}"
    else:
        t = f"g#{rng.randrange(256):02x}"
    if rng.random() < 0.15:
        t = t[0] + t[1:].upper() if not t.startswith("g#") else "g#" + t[2:].upper()
    return t


def random_fg(rng, depth=None) -> str:
    parts = []
    if rng.random() < 0.85:
        parts.append(random_color_token(rng, depth))
    k = rng.choice([0, 0, 1, 1, 2, 3, 6])
    parts += rng.sample(SETTINGS, k)
    rng.shuffle(parts)
    if rng.random() < 0.3:
        parts = [rng.choice(["", " ", "  ", "\t"]) + p + rng.choice(["", " ", "\t "]) for p in parts]
    return ",".join(parts)


# interesting component values: every cube level / midpoint of both palettes +-2, nibble edges
def interesting_components():
    vals = set()
    for p in PALS:
        lv = X.CUBE_LEVELS[p]
        for a, b in zip(lv, lv[1:]):
            m = (a + b) // 2
            for d in range(-2, 4):
                vals.update({a + d, b + d, m + d})
    for n in range(16):
        vals.update({16 * n, 16 * n + 15, 17 * n})
    return sorted(v for v in vals if 0 <= v <= 255)


# ------------------------------------------------------------------ workload


def run(ctx):
    from urwid.display import common as M

    watched = [
        M._parse_color_256,
        M._parse_color_88,
        M._parse_color_true,
        M._true_to_256,
        M._color_desc_256,
        M._color_desc_88,
        M._color_desc_true,
        M.AttrSpec.get_rgb_values,
        M.AttrSpec.__hash__,
        M.AttrSpec.__eq__,
        M.AttrSpec.__init__,
    ]
    reach.watch(*watched)
    rng = ctx.rng
    idx = 0
    ctx.extra["exhaustive_subdomains"] = {}
    done = ctx.extra["exhaustive_subdomains"]

    # ---- 1. finite domain: every token, both positions, every depth
    toks = finite_tokens()
    ctx.extra["finite_tokens"] = len(toks)
    for d in DEPTHS:
        for t in toks:
            idx += 1
            if not ctx.mine(idx):
                continue
            evaluate(ctx, t, "", d)
            evaluate(ctx, "", t, d)
            ctx.count("finite_domain_tokens_x_depth")
    done["tokens(4727)x{fg,bg}x5depths"] = True
    if ctx.shard == 0:
        ctx.sample({"fg": "#ddb", "bg": "g#80", "depth": 88})
    # upper-case spellings of the hex forms (sampled 1/8)
    for d in DEPTHS:
        for n in range(4096):
            idx += 1
            if ctx.mine(idx) and n % 8 == idx // ctx.nshards % 8:
                evaluate(ctx, f"#{n:03X}", f"g#{n % 256:02X}" if d > 1 else "", d)

    # ---- 2. settings: all ordered arrangements of all subsets, every depth, three colours
    for d in DEPTHS:
        colours = ["", "default"]
        colours.append("light red" if d >= 16 else "")
        colours.append({88: "h87", 256: "#fa0", TRUE: "#12ab9f"}.get(d, "yellow" if d >= 16 else "default"))
        for arr in arrangements():
            idx += 1
            if not ctx.mine(idx):
                continue
            ctx.count("style_arrangements")
            for ci, col in enumerate(colours):
                parts = list(arr)
                if col != "" or not parts:
                    parts.insert((len(arr) * (ci + 1)) // 3 % (len(arr) + 1), col)
                evaluate(ctx, ",".join(parts), "", d)
            # spaced variant, colour last; with a background where legal
            evaluate(ctx, ", ".join([*arr, colours[2] or "default"]), "dark blue" if d >= 16 else "", d)
            # duplicates: repeat one setting somewhere
            if arr:
                k = idx % len(arr)
                dup = list(arr)
                dup.insert((idx // 7) % (len(dup) + 1), arr[k])
                evaluate(ctx, ",".join([colours[3], *dup]), "", d)
    done["1957 ordered arrangements of the 64 setting subsets x 5 depths x 4 colour spellings"] = True
    if ctx.shard == 0:
        ctx.sample({"fg": "yellow, underline, bold", "bg": "dark blue", "depth": 16})

    # ---- 3. malformed input grammar
    bad_inputs = list(UNKNOWN_NAMES) + list(INT_SYNTAX)
    for name in [*BASIC, "default"]:
        bad_inputs += [name.upper(), name.title(), name + "s", name[:-1], " " + name, name.replace(" ", "")]
    two = [
        "dark red,dark blue", "h1,h2", "default,black", "#fff,g50", "black,default", "g3,g4,bold", "bold,#123,underline,#456",
        "dark red,", ",dark red", ",", ",,", "bold,", ",bold", "default,", "default,default", "dark red,dark red", "h5,,bold",
        "#123456,#654321", "white,h15",
    ]
    for d in (*DEPTHS, 0, 2, 8, 15, 17, 87, 89, 255, 257, TRUE - 1, TRUE + 1, -1, -256, 2**32):
        for s in bad_inputs:
            idx += 1
            if not ctx.mine(idx):
                continue
            evaluate(ctx, s, "", d)
            evaluate(ctx, "", s, d)
            evaluate(ctx, f"bold,{s}", "", d)
        for s in two:
            idx += 1
            if not ctx.mine(idx):
                continue
            evaluate(ctx, s, "", d)
            evaluate(ctx, "", s, d)
        two_reps = ["default", "black", "white", "h3", "h200", "#0f0", "#10ff20", "g7", "g#c0"]
        for t1 in two_reps:
            for t2 in two_reps:
                idx += 1
                if ctx.mine(idx):
                    evaluate(ctx, f"{t1},{t2}", "", d)
                    evaluate(ctx, f"bold,{t1}, underline ,{t2}", "", d)
        for s in SETTINGS:
            idx += 1
            if ctx.mine(idx):
                evaluate(ctx, "", s, d)
                evaluate(ctx, "default", f"default,{s}", d)
                evaluate(ctx, f"{s},{s}", "", d)
                evaluate(ctx, f"{s}, {s}", "default", d)
        if d not in DEPTHS:
            for t in ("", "default", "dark red", "h5", "#123", "#123456", "g50", "bold"):
                idx += 1
                if ctx.mine(idx):
                    evaluate(ctx, t, "", d)
                    evaluate(ctx, "", t if t != "bold" else "", d)
    if ctx.shard == 0:
        ctx.sample({"fg": "g#z0z0z", "bg": "", "depth": 88})

    # ---- 3b. near misses of every numeric form built from digit-like / numeric / sign / blank / underscore characters
    nm = 0
    for cls, t in nearmiss_tokens():
        nm += 1
        idx += 1
        if not ctx.mine(idx):
            continue
        for d in DEPTHS:
            evaluate(ctx, t, "", d)
            evaluate(ctx, "", t, d)
            ctx.count(f"nearmiss:{cls}", 2)
        evaluate(ctx, f"bold, {t} ,underline", "", DEPTHS[1 + idx // ctx.nshards % 4])
    ctx.extra["nearmiss_tokens"] = nm
    # directed: {sign} x {every numeric form} x {every depth} x {fg, bg}; a negative value is never a colour,
    # '+' / '-0' are value-preserving grey zone
    signed = {"h": ["0", "5", "12", "87", "255"], "g": ["0", "3", "50", "100"], "g#": ["0", "1", "7", "f", "ff", "c8"],
              "#": ["0", "1", "f", "12", "ff", "123", "fff", "12345", "123456"]}
    for pre, bodies in signed.items():
        for body in bodies:
            for sign in ("-", "+", "\u2212", "\uff0d", "\uff0b"):
                for t in (pre + sign + body, pre + body + sign, pre + " " + sign + body, pre + sign + " " + body, pre + sign + sign + body):
                    idx += 1
                    if not ctx.mine(idx):
                        continue
                    for d in DEPTHS:
                        evaluate(ctx, t, "", d)
                        evaluate(ctx, "", t, d)
                        evaluate(ctx, f"underline,{t}", "", d)
                        ctx.count(f"directed_signed:{pre}", 3)
    if ctx.shard == 2 % ctx.nshards:
        ctx.sample({"fg": "g#-f", "bg": "h-5", "depth": 88})
    # the valid base tokens as blank-padded foreground parts (documented: 'yellow, underline, bold'), every depth
    for base in NEARMISS_BASES:
        for lpad, rpad in ((" ", ""), ("", "  "), ("\t", " "), ("  ", "\t")):
            idx += 1
            if not ctx.mine(idx):
                continue
            for d in DEPTHS:
                evaluate(ctx, f"{lpad}{base}{rpad}", "", d)
                evaluate(ctx, f"bold,{lpad}{base}{rpad},underline", "dark blue" if d >= 16 else "", d)
                ctx.count("padded_valid_parts", 2)
    # directed core (never skipped): every kind of valid colour token with one whitespace / control character
    # appended, prepended and embedded, foreground and background, every depth
    ws_chars = ["\n", "\r", "\t", " ", "\x0b", "\x0c", "\x00", "\x1c", "\x1f", "\x7f", "\x85", "\xa0", "\u2028", "\u3000", "\n\n", " \n"]
    ws_tokens = ["default", *BASIC, "h0", "h9", "h87", "h255", "g0", "g7", "g100", "g#00", "g#c8", "#000", "#9af", "#fff",
                 "#000000", "#123456", "#12ab9f", "#FFFFFF"]
    for tok in ws_tokens:
        for ch in ws_chars:
            idx += 1
            if not ctx.mine(idx):
                continue
            mid = max(1, len(tok) // 2)
            for variant in (tok + ch, ch + tok, tok[:mid] + ch + tok[mid:]):
                for d in DEPTHS:
                    evaluate(ctx, variant, "", d)
                    evaluate(ctx, "", variant, d)
                    evaluate(ctx, f"bold,{variant}", variant, d)
                    ctx.count("directed_whitespace_control", 3)
    if ctx.shard == 4 % ctx.nshards:
        ctx.sample({"fg": "default", "bg": "#123456\n", "depth": 256})
    # layout sweep: pad lengths x pad kinds x sides x the longest token of every form / a setting, settings before/after
    pad_tokens = ["light magenta", "default", "h255", "#12ab9f", "#9af", "g100", "g#c8", "dark gray", ""]
    pad_kinds = {"space": " ", "tab": "\t", "newline": "\n", "mixed": "\n \t "}
    for tok in pad_tokens:
        for n in (0, 1, 2, 3, 5, 8, 13, 21, 100, 1000):
            for kname, unit in pad_kinds.items():
                pad = (unit * n)[:n]
                for lp, rp in ((pad, ""), ("", pad), (pad, pad)):
                    idx += 1
                    if not ctx.mine(idx) or (n == 1000 and kname != "mixed"):
                        continue
                    part = lp + tok + rp
                    for d in DEPTHS:
                        evaluate(ctx, part, "", d)
                        evaluate(ctx, f"bold,{part}", "dark blue" if d >= 16 else "", d)
                        evaluate(ctx, f"{part},strikethrough,blink", "", d)
                        evaluate(ctx, f"{lp}standout{rp},{part},{lp}underline{rp}", "", d)
                        evaluate(ctx, tok, part, d)  # padded background: grey zone, must not crash
                        ctx.count(f"padded:{kname}", 5)
    if ctx.shard == 3 % ctx.nshards:
        ctx.sample({"fg": "\n        light magenta,\n        bold,\n        underline\n    ", "bg": "", "depth": 16})
    done["layout: 9 tokens x pads {0,1,2,3,5,8,13,21,100,1000} x {space,tab,newline,mixed} x {left,right,both} x 5 arrangements x 5 depths"] = True
    done["near-miss numeric tokens (15 bases x 8 character classes x every position) x {fg,bg} x 5 depths"] = True
    if ctx.shard == 1 % ctx.nshards:
        ctx.sample({"fg": "h\u00b2", "bg": "g#\u2460\u2460", "depth": 256})

    # ---- 4. #rrggbb: per-component sweeps and interesting-value grid (deterministic), then samples
    ivals = interesting_components()
    grid_complete = True
    ctx.extra["interesting_component_values"] = len(ivals)
    for d in DEPTHS:
        for comp in range(3):
            for v in range(256):
                for base in (0x00, 0x87, 0xFF):
                    idx += 1
                    if not ctx.mine(idx):
                        continue
                    c = [base, base, base]
                    c[comp] = v
                    s = "#%02x%02x%02x" % tuple(c)
                    if base == 0x87:
                        evaluate(ctx, "", s, d)
                    else:
                        evaluate(ctx, s, "", d)
        if d >= 88:
            for r in ivals:
                for g in ivals[:: ctx.pick(6, 2)]:
                    idx += 1
                    if not ctx.mine(idx):
                        continue
                    if not ctx.more(0.7):
                        grid_complete = False
                        continue
                    for b in ivals[:: ctx.pick(9, 3)]:
                        evaluate(ctx, "#%02x%02x%02x" % (r, g, b), "#%02x%02x%02x" % (b, r, g), d)
    # the gray diagonal #vvvvvv, every v, both sides (cube entry expected at 88/256, exact at 2**24)
    for d in DEPTHS:
        for v in range(256):
            idx += 1
            if ctx.mine(idx):
                evaluate(ctx, "#%02x%02x%02x" % (v, v, v), "", d)
                evaluate(ctx, "", "#%02X%02X%02X" % (v, v, v), d)
                ctx.count("rgb24_gray_diagonal", 2)
    done["#rrggbb: each component 0..255 with the others at 00/87/ff, 5 depths"] = True
    ctx.extra["interesting_value_grid_complete_in_budget"] = grid_complete
    n_samp = ctx.pick(20000, 60000) // ctx.nshards
    for d in DEPTHS:
        for i in range(n_samp):
            if not ctx.more(0.8):
                break
            v = rng.randrange(TRUE)
            s = f"#{v:06x}"
            if i % 3 == 0:
                evaluate(ctx, s, "", d)
            elif i % 3 == 1:
                evaluate(ctx, "", s, d)
            else:
                evaluate(ctx, s, f"#{rng.randrange(TRUE):06x}", d)
            ctx.count("rgb24_random_samples")
    if ctx.shard == 0:
        ctx.sample({"fg": "#9f0000", "bg": "#123456", "depth": 256})

    # ---- 5. fg x bg pairs over representative tokens (exhaustive over the representatives)
    reps = ["", "default", "black", "dark red", "light gray", "dark gray", "white", "h0", "h7", "h15", "h16", "h87", "h88", "h231",
            "h232", "h245", "h255", "#000", "#fff", "#8cf", "#6a3", "g0", "g3", "g50", "g52", "g100", "g#00", "g#80", "g#8a",
            "g#ff", "#000000", "#ffffff", "#5f87af", "#8bcdff", "#123456", "#9f0000", "bold", "standout,underline"]
    for d in DEPTHS:
        for f in reps:
            for g in reps:
                idx += 1
                if not ctx.mine(idx):
                    continue
                fgs = f if f in ("bold", "standout,underline") else f"{f},italics" if idx % 3 == 0 else f
                evaluate(ctx, fgs, g if g not in ("bold", "standout,underline") else "", d)
                ctx.count("pairs_representative")
    done[f"{len(reps)}x{len(reps)} representative fg x bg pairs x 5 depths"] = True

    # ---- 6. thorough: all 2**24 values
    if not ctx.quick:
        sweep(ctx, watched)

    # ---- 7. random valid pairs and random junk, bounded by count and by time
    n_rand = ctx.pick(6000, 60000)
    k = 0
    while k < n_rand and ctx.more(0.95):
        k += 1
        d = rng.choice(DEPTHS)
        r = rng.random()
        if r < 0.55:
            fg, bg = random_fg(rng, d), random_color_token(rng, d) if rng.random() < 0.7 else ""
            ctx.count("random_valid_shaped")
        elif r < 0.8:
            fg, bg = random_junk(rng), ""
            if rng.random() < 0.3:
                fg = rng.choice(SETTINGS) + "," + fg
            ctx.count("random_junk_fg")
        else:
            fg, bg = rng.choice(["", "dark red", "bold"]) if d >= 16 else "", random_junk(rng)
            ctx.count("random_junk_bg")
        if rng.random() < 0.03:
            d = rng.choice([0, 2, 8, 64, 255, 257, 65536, TRUE + 1, -16])
        evaluate(ctx, fg, bg, d)
        if k <= 2:
            ctx.sample({"fg": fg, "bg": bg, "depth": d})
    ctx.extra["random_phase_complete"] = k >= n_rand
    reach.flush(ctx)


def perm24(v: int) -> int:
    return (v * 0x9E3779 + 0x7F4A7C) & 0xFFFFFF


def sweep(ctx, watched):
    """all 2**24 #rrggbb values (this shard's contiguous slice) at every depth; a lean inline
    version of the same clauses, falling back to the full judge for anything that is not clean"""
    import sys

    from urwid.display.common import AttrSpec, AttrSpecError

    # the reach counters have seen these functions in phases 1-5; switch the per-call callback off for the sweep
    reach.flush(ctx)
    for f in watched:
        code = getattr(f, "__code__", None)
        if code is not None:
            sys.monitoring.set_local_events(reach._TOOL, code, 0)

    lo = ctx.shard * TRUE // ctx.nshards
    hi = (ctx.shard + 1) * TRUE // ctx.nshards
    coords = {p: [X.cube_coords(p, i) for i in range(p)] for p in PALS}
    mask = {p: [sum(1 << i for i in CUBE_OK[p][v]) for v in range(256)] for p in PALS}
    pal_rgb = X.PALETTE
    memo = {88: {}, 256: {}}
    tokmemo = {88: {}, 256: {}}

    def normal_form_clean(d, fd, bd):
        """the normalised descriptions, read as inputs, are judged in full once per token and side"""
        tm = tokmemo[d]
        r = tm.get(("f", fd))
        if r is None:
            r = tm[("f", fd)] = not judge(fd, "", d)
        if r:
            r = tm.get(("b", bd))
            if r is None:
                r = tm[("b", bd)] = not judge("", bd, d)
        return r

    C = ctx.counters
    rejudged = 0
    rejudge_cap = 1000
    anomalies = 0
    complete = True
    n = 0
    # 16 passes of stride 16 in bit-reversed order: whenever the time budget ends, what has been covered is a
    # uniform stride sample of the slice, and after the last pass it is the whole slice
    order = [int(f"{k:04b}"[::-1], 2) for k in range(16)]
    seq = itertools.chain.from_iterable(range(lo + off, hi, 16) for off in order)
    for v in seq:
        if n & 0xFF == 0 and not ctx.more(0.8):
            complete = False
            break
        w = perm24(v)
        fs = "#%06x" % v
        bs = "#%06x" % w
        n += 1
        for d in (256, 88):
            ok = False
            try:
                a = AttrSpec(fs, bs, d)
                fn = a.foreground_number
                bn = a.background_number
                cf = coords[d][fn]
                cb = coords[d][bn]
                m = mask[d]
                if (
                    a.foreground_high
                    and a.background_high
                    and not (a.foreground_basic or a.foreground_true or a.background_basic or a.background_true)
                    and (m[v >> 16] >> cf[0]) & (m[(v >> 8) & 255] >> cf[1]) & (m[v & 255] >> cf[2]) & 1
                    and (m[w >> 16] >> cb[0]) & (m[(w >> 8) & 255] >> cb[1]) & (m[w & 255] >> cb[2]) & 1
                    and a.get_rgb_values() == pal_rgb[d][fn] + pal_rgb[d][bn]
                    and a.colors == d
                ):
                    fd = a.foreground
                    bd = a.background
                    b = memo[d].get((fd, bd))
                    if b is None:
                        b = AttrSpec(fd, bd, d)
                        if b.foreground == fd and b.background == bd and normal_form_clean(d, fd, bd):
                            memo[d][(fd, bd)] = b
                        else:
                            b = None
                    ok = b is not None and a == b and b == a and hash(a) == hash(b) and not (a != b)
            except Exception:  # noqa: BLE001
                ok = False
            if not ok:
                anomalies += 1
                if rejudged < rejudge_cap:
                    rejudged += 1
                    if not evaluate(ctx, fs, bs, d, register=False):
                        ctx.violation("C18|harness|sweep-flagged-but-judge-clean", f"{fs} {bs} {d}", {"fg": fs, "bg": bs, "depth": d})
        # true colour: exact
        ok = False
        try:
            a = AttrSpec(fs, bs, TRUE)
            if (
                a.foreground_true
                and a.background_true
                and not (a.foreground_basic or a.foreground_high or a.background_basic or a.background_high)
                and a.foreground_number == v
                and a.background_number == w
                and a.get_rgb_values() == (v >> 16, (v >> 8) & 255, v & 255, w >> 16, (w >> 8) & 255, w & 255)
                and a.colors == TRUE
            ):
                fd = a.foreground
                bd = a.background
                if len(fd) == 7 and len(bd) == 7 and fd[0] == "#" == bd[0] and int(fd[1:], 16) == v and int(bd[1:], 16) == w:
                    b = AttrSpec(fd, bd, TRUE)
                    ok = a == b and b == a and hash(a) == hash(b) and not (a != b) and b.foreground == fd and b.background == bd
        except Exception:  # noqa: BLE001
            ok = False
        if not ok:
            anomalies += 1
            if rejudged < rejudge_cap:
                rejudged += 1
                if not evaluate(ctx, fs, bs, TRUE, register=False):
                    ctx.violation("C18|harness|sweep-flagged-but-judge-clean", f"{fs} {bs} TRUE", {"fg": fs, "bg": bs, "depth": TRUE})
        # depths 16 and 1: must be refused with the library's own error (one side each, alternating)
        for d, args in ((16, (fs, "") if v & 1 else ("", bs)), (1, ("", bs) if v & 1 else (fs, ""))):
            try:
                AttrSpec(args[0], args[1], d)
                ok = False
            except AttrSpecError:
                ok = True
            except Exception:  # noqa: BLE001
                ok = False
            if not ok:
                anomalies += 1
                if rejudged < rejudge_cap:
                    rejudged += 1
                    if not evaluate(ctx, args[0], args[1], d, register=False):
                        ctx.violation("C18|harness|sweep-flagged-but-judge-clean", f"{args} {d}", {"fg": args[0], "bg": args[1], "depth": d})
        if v & 15 == 0:
            ctx.case(v | (w << 24), n=0)
    ctx.case(None, nontrivial=False, n=5 * n)
    C["sweep_values"] += n
    C["sweep_cases(value x depth)"] += 5 * n
    C["sweep_anomalies"] += anomalies
    C["sweep_anomalies_rejudged_in_full"] += rejudged
    for k in ("clause:roundtrip_eq", "clause:hash_eq", "clause:rgb_table", "clause:colors_smallest", "clause:fixed_point"):
        C[k + "(sweep)"] += 3 * n
    C["clause:nearest_cube(sweep)"] += 4 * n
    C["clause:rejected_beyond_depth(sweep)"] += 2 * n
    C["sweep_rebuilt_specs_memoised"] += len(memo[88]) + len(memo[256])
    C["sweep_shards_complete"] += int(complete)
    C["sweep_shards_stopped_by_time_budget"] += int(not complete)
    ctx.extra[f"sweep_shard{ctx.shard:02d}"] = {"lo": lo, "hi": hi, "done": n, "complete": complete, "seconds": round(ctx.elapsed(), 1)}


def replay(ctx, wit):
    n = evaluate(ctx, wit["fg"], wit["bg"], wit["depth"])
    return n
