"""C11 screen-width arithmetic: reference-model monitor over code points and short texts.

Every text (a str, or bytes under the active encoding) is segmented into characters by the
independent model `vmon.models.width` (strict UTF-8 decoder + wcwidth tables / own double-byte
lead-trail scanner / byte count).  The real urwid functions are then called on every pair of
model character boundaries, every target column and every column range of the text, and each
return value is judged against what the model says (clauses listed in CLAUSES below).

A violating text is shrunk by deleting whole characters while the same (function, kind of
mismatch) still reproduces; the signature is built from the function, the kind of mismatch and
the abstract classes of the characters of the shrunk text.
"""

from __future__ import annotations

import bisect
import itertools
import os
import time
import warnings
from collections import Counter

from vmon import reach
from vmon.models import width as W

PROPERTY = "C11"
LEVEL = "exploration"
SHARDS = {"quick": 8, "thorough": 16}
BUDGET = {"quick": 25.0, "thorough": 400.0}
EXHAUSTIVE = {"quick": False, "thorough": False}  # exhaustive over code points only, not over the statement's strings
CP_STRIDE = {"quick": 8, "thorough": 1}
DET_FRAC = 0.90  # the enumerated phases may use up to this fraction of the budget IN CPU SECONDS (the machine is shared: wall
# time under contention says nothing about the work done); being cut => INCONCLUSIVE.  Wall-clock safety net: 4 x budget + 85 s
# (core kills a shard at 4 x budget + 120 s).
MIN_RANDOM_ROUNDS = {"quick": 25, "thorough": 150}  # x40 random texts each, done even if the wall budget is already used up


def det_more(ctx, frac=DET_FRAC) -> bool:
    return time.process_time() < frac * ctx.budget and ctx.elapsed() < 4.0 * ctx.budget + 85


REQUIRE = {
    "quick": {
        "cp:utf8": 60_000,
        "cp:wide": 15_000,
        "cp:narrow": 300,
        "texts:utf8:str": 3_000,
        "texts:utf8:bytes:wf": 3_000,
        "texts:utf8:bytes:malformed": 3_000,
        "texts:wide:bytes:wf": 1_000,
        "texts:wide:bytes:malformed": 600,
        "texts:wide:str": 300,
        "texts:narrow:bytes:wf": 300,
        "eval:calc_width": 500_000,
        "eval:calc_text_pos": 500_000,
        "eval:calc_text_pos:stopped-before-wide": 20_000,
        "eval:move_next_char": 200_000,
        "eval:move_prev_char": 200_000,
        "eval:next-prev-inverse": 200_000,
        "eval:is_wide_char": 200_000,
        "eval:within_double_byte": 20_000,
        "eval:decode_one": 100_000,
        "eval:decode_one_right": 100_000,
        "eval:calc_trim_text": 300_000,
        "eval:calc_trim_text:pad_left": 10_000,
        "eval:calc_trim_text:pad_right": 10_000,
        "eval:calc_trim_text:pad_both": 500,
        "eval:trim_text_attr_cs": 20_000,
        "eval:apply_target_encoding": 100_000,
        "eval:apply_target_encoding:dec-glyph": 5_000,
        "eval:apply_target_encoding:bytes-shift": 300,
        "eval:str-bytes-agree": 80_000,
        "directed:subranges:move_next_char": 1_000,
        "directed:subranges:move_prev_char": 1_000,
        "directed:subranges:start-inside-char,end-on-boundary": 300,
        "directed:subranges:start-on-boundary,end-inside-char": 300,
        "long_inputs:len=1000": 55,
        "long_inputs:len=300": 55,
        "long_inputs:len=500": 55,
        "long_inputs:len=5000": 22,
        "long_inputs:narrow:ascii": 3,
        "long_inputs:narrow:dec-glyphs": 3,
        "long_inputs:narrow:high": 3,
        "long_inputs:narrow:mixture": 3,
        "long_inputs:narrow:wide": 3,
        "long_inputs:utf8:ascii": 3,
        "long_inputs:utf8:astral-wide": 3,
        "long_inputs:utf8:combining-pairs": 3,
        "long_inputs:utf8:combining-run": 3,
        "long_inputs:utf8:control-run": 3,
        "long_inputs:utf8:dec-glyphs": 3,
        "long_inputs:utf8:latin1": 3,
        "long_inputs:utf8:mixture": 3,
        "long_inputs:utf8:stray-continuation-run": 3,
        "long_inputs:utf8:truncated-lead-run": 3,
        "long_inputs:utf8:wide": 3,
        "long_inputs:utf8:wide-then-narrow": 3,
        "long_inputs:utf8:zero-width-run": 3,
        "long_inputs:wide:ascii": 6,
        "long_inputs:wide:dbl-hi": 6,
        "long_inputs:wide:dbl-hi-after-ascii": 6,
        "long_inputs:wide:dbl-hi-trail-0x80": 6,
        "long_inputs:wide:dbl-lo": 6,
        "long_inputs:wide:dec-glyphs": 6,
        "long_inputs:wide:lowtrail-ascii": 6,
        "long_inputs:wide:mixture": 6,
        "long_inputs:wide:two-runs": 6,
        "long_inputs:wide:wide": 6,
        "enc-history:transitions:set->set": 841,
        "enc-history:transitions:temporary-block": 841,
        "enc-history:transitions:raw-mode-then-reselect": 87,
        "enc-history:state-checks": 4_000,
        "enc-history:judged-texts": 10_000,
        "reach:str_util.calc_width": 100,
        "reach:str_util.calc_text_pos": 100,
        "reach:str_util.within_double_byte": 100,
        "reach:util.calc_trim_text": 100,
        "reach:util.apply_target_encoding": 100,
    },
    "thorough": {
        "cp:utf8": 1_112_064,
        "cp:wide": 60_000,
        "cp:narrow": 500,
        "texts:utf8:str": 25_000,
        "texts:utf8:bytes:wf": 25_000,
        "texts:utf8:bytes:malformed": 100_000,
        "texts:wide:bytes:wf": 15_000,
        "texts:wide:bytes:malformed": 6_000,
        "texts:wide:str": 10_000,
        "texts:narrow:bytes:wf": 2_000,
        "eval:calc_width": 5_000_000,
        "eval:calc_text_pos": 5_000_000,
        "eval:calc_text_pos:stopped-before-wide": 200_000,
        "eval:move_next_char": 2_000_000,
        "eval:move_prev_char": 2_000_000,
        "eval:next-prev-inverse": 2_000_000,
        "eval:is_wide_char": 2_000_000,
        "eval:within_double_byte": 200_000,
        "eval:decode_one": 1_000_000,
        "eval:decode_one_right": 1_000_000,
        "eval:calc_trim_text": 3_000_000,
        "eval:calc_trim_text:pad_left": 100_000,
        "eval:calc_trim_text:pad_right": 100_000,
        "eval:calc_trim_text:pad_both": 5_000,
        "eval:trim_text_attr_cs": 200_000,
        "eval:apply_target_encoding": 1_000_000,
        "eval:apply_target_encoding:dec-glyph": 20_000,
        "eval:apply_target_encoding:bytes-shift": 300,
        "eval:str-bytes-agree": 1_000_000,
        "directed:subranges:move_next_char": 1_000,
        "directed:subranges:move_prev_char": 1_000,
        "directed:subranges:start-inside-char,end-on-boundary": 300,
        "directed:subranges:start-on-boundary,end-inside-char": 300,
        "long_inputs:len=1000": 55,
        "long_inputs:len=300": 55,
        "long_inputs:len=500": 55,
        "long_inputs:len=5000": 22,
        "long_inputs:narrow:ascii": 3,
        "long_inputs:narrow:dec-glyphs": 3,
        "long_inputs:narrow:high": 3,
        "long_inputs:narrow:mixture": 3,
        "long_inputs:narrow:wide": 3,
        "long_inputs:utf8:ascii": 3,
        "long_inputs:utf8:astral-wide": 3,
        "long_inputs:utf8:combining-pairs": 3,
        "long_inputs:utf8:combining-run": 3,
        "long_inputs:utf8:control-run": 3,
        "long_inputs:utf8:dec-glyphs": 3,
        "long_inputs:utf8:latin1": 3,
        "long_inputs:utf8:mixture": 3,
        "long_inputs:utf8:stray-continuation-run": 3,
        "long_inputs:utf8:truncated-lead-run": 3,
        "long_inputs:utf8:wide": 3,
        "long_inputs:utf8:wide-then-narrow": 3,
        "long_inputs:utf8:zero-width-run": 3,
        "long_inputs:wide:ascii": 6,
        "long_inputs:wide:dbl-hi": 6,
        "long_inputs:wide:dbl-hi-after-ascii": 6,
        "long_inputs:wide:dbl-hi-trail-0x80": 6,
        "long_inputs:wide:dbl-lo": 6,
        "long_inputs:wide:dec-glyphs": 6,
        "long_inputs:wide:lowtrail-ascii": 6,
        "long_inputs:wide:mixture": 6,
        "long_inputs:wide:two-runs": 6,
        "long_inputs:wide:wide": 6,
        "enc-history:transitions:set->set": 841,
        "enc-history:transitions:temporary-block": 841,
        "enc-history:transitions:raw-mode-then-reselect": 87,
        "enc-history:state-checks": 4_000,
        "enc-history:judged-texts": 10_000,
        "reach:str_util.calc_width": 100,
        "reach:str_util.calc_text_pos": 100,
        "reach:str_util.within_double_byte": 100,
        "reach:util.calc_trim_text": 100,
        "reach:util.apply_target_encoding": 100,
    },
}

RULE = (
    "(1) code points: every Unicode scalar value (thorough; quick: every 4th, offset by seed, plus all edges of the wcwidth "
    "ranges) under utf-8, and under euc-jp/gbk/big5/euc-kr(/gb2312/uhc) and ascii/iso-8859-1/koi8-r/cp437 when it is encodable "
    "with encoded length == wcwidth; each is judged as str, as its encoded bytes alone and as bytes embedded between two ASCII "
    "bytes. (2) short texts: all sequences (quick <=4, thorough <=5 units, then random to 6) over class representatives: "
    "utf8 str {ascii, latin-1, CJK wide, combining, astral emoji, zero-width space, DEC glyph, control}, their utf-8 encodings "
    "mixed with malformed units {stray continuation, lone lead, truncated 3/4-byte, overlong 2/3-byte, encoded surrogate, "
    ">U+10FFFF, F8/FF}, wide-mode byte strings over {0x20,0x41,0x40,0x7E,0x80,0x81,0xA4,0xFE}, narrow byte strings, "
    "str<->bytes pairs in each wide/narrow encoding, SO/SI byte strings, every DEC glyph alone / in context / every ordered pair of glyphs in every "
    "encoding; random texts over random code points and random bytes. For each text: "
    "all pairs of character boundaries x all target columns x all column ranges inside the line. A case = (encoding, text); "
    "distinct = distinct such pairs; non-trivial = at least one character."
)
ASSUMES = [
    "'the Unicode width tables' = the installed wcwidth package (urwid's declared source); width = max(0, wcwidth(cp)); unicodedata is not consulted",
    "malformed UTF-8: every byte that does not start a well-formed sequence is one character of one column (urwid's own documented fallback '?', pos+1); "
    "a UTF-8-encoded surrogate (ED A0..BF xx) is accepted as ONE 3-byte character if urwid's decode_one accepts it (lenient decoder, self-consistent), else 3 bytes",
    "wide mode: left-to-right scan, lead 0x81..0xFE + trail 0x40..0x7E|0x80..0xFE = one 2-column character, any other byte one column; "
    "byte strings with a stand-alone 0x80 or 0xFF (in no double-byte repertoire; urwid's parity heuristic counts them as lead bytes) are not judged; "
    "str<->bytes agreement is only demanded for characters whose encoded length equals their wcwidth (half-width katakana via SS2, JIS X 0212 via SS3, "
    "ambiguous-width Greek/Cyrillic, controls and combining marks in 8-bit code pages are outside the alphabet: there the *encoding* breaks width == bytes)",
    "offsets passed as start/end are character boundaries of the model; target columns are >= 0; calc_trim_text is judged for 0 <= start_col <= end_col <= "
    "line width, and an empty range in the middle of a wide character is not judged (the statement's two demands contradict each other there)",
    "calc_trim_text must also return the slice that covers exactly columns [start_col+pad_left, end_col-pad_right) (that is what trimming to a range means)",
    "DEC special graphics table taken from the VT100/xterm documentation (0x60..0x7E); urwid's private extra pair U+25AE <-> '_' is not judged; in utf-8 mode "
    "DEC glyphs are expected to be sent as UTF-8 with no charset run; str input containing literal SO/SI is judged only for sum(runs) == len(encoded)",
    "decode_one_right is judged only where its documented precondition holds (pos on the last byte of a well-formed sequence); decode_one(str) is not judged",
]

CLAUSES = """
calc_width        == model width of text[b_i:b_j] for all boundary pairs (=> additivity), str and bytes
str-bytes-agree   calc_width(str) == calc_width(encoded bytes) (both directly compared, not only via the model)
calc_text_pos     returns (p, c): p a boundary in [start, end], c == width(start..p) <= target, p the LAST such boundary
move_next_char    == next boundary; move_prev_char == previous boundary; prev(next(s)) == s and next(prev(e)) == e on urwid's own answers
is_wide_char      == (model width of the character at that boundary is 2)
within_double_byte== 0/1/2 per the model scan, for every line start boundary and every later offset (wide mode)
decode_one        == (cp, next boundary) on well-formed, next == pos+1 on a malformed byte; decode_one_right == (cp, start-1)
calc_trim_text    boundaries, pad flags <=> straddling wide character, total width == range, slice placed at the range
trim_text_attr_cs text == pad + slice + pad, attr/cs runs cover it, pads carry the cut character's attribute and cs None
apply_target_encoding  per-byte (byte, charset) == model; sum(run lengths) == len(encoded)
"""

# VT100 special graphics (xterm ctlseqs "DEC Special Graphics", VT100 UG table 3-9): glyph code point -> byte
DEC_BY_CP = {
    0x25C6: 0x60, 0x2592: 0x61, 0x2409: 0x62, 0x240C: 0x63, 0x240D: 0x64, 0x240A: 0x65, 0x00B0: 0x66, 0x00B1: 0x67,
    0x2424: 0x68, 0x240B: 0x69, 0x2518: 0x6A, 0x2510: 0x6B, 0x250C: 0x6C, 0x2514: 0x6D, 0x253C: 0x6E, 0x23BA: 0x6F,
    0x23BB: 0x70, 0x2500: 0x71, 0x23BC: 0x72, 0x23BD: 0x73, 0x251C: 0x74, 0x2524: 0x75, 0x2534: 0x76, 0x252C: 0x77,
    0x2502: 0x78, 0x2264: 0x79, 0x2265: 0x7A, 0x03C0: 0x7B, 0x2260: 0x7C, 0x00A3: 0x7D, 0x00B7: 0x7E,
}  # fmt: skip
URWID_PRIVATE_DEC = 0x25AE  # urwid maps it to '_' (0x5F is blank in the DEC set): not judged
SO, SI = 0x0E, 0x0F

WIDE_ENCODINGS = {"quick": ["euc-jp", "gbk", "big5", "euc-kr"], "thorough": ["euc-jp", "gbk", "big5", "euc-kr", "gb2312", "uhc"]}
NARROW_ENCODINGS = ["ascii", "iso-8859-1", "koi8-r", "cp437"]

MALFORMED = {
    "stray-continuation", "overlong2-lead", "byte-F8..FF", "truncated", "lead-without-continuation", "overlong", "surrogate",
    "above-10FFFF", "enc-surrogate", "lone-lead", "x80", "xff",
}  # fmt: skip
OUTSIDE = {"x80", "xff"}  # a stand-alone 0x80 / 0xFF byte is in no double-byte encoding's repertoire: such texts are not judged
# classes named in signatures (mechanism level): everything else that is malformed in UTF-8 is "invalid-bytes"
SIG_CLASS = {"above-10FFFF": "above-10FFFF", "lone-lead": "lone-lead", "enc-surrogate": None}

CALLS: Counter = Counter()


# ------------------------------------------------------------------ urwid access


class Api:
    def __init__(self):
        from urwid import str_util as S  # noqa: PLC0415
        from urwid import util as U  # noqa: PLC0415

        self.S = S
        self.U = U
        self.lenient = False

    def probe_lenient(self):
        """does decode_one accept an encoded surrogate as one 3-byte character? (see ASSUMES)"""
        try:
            self.lenient = self.S.decode_one(b"\xed\xa0\x80", 0) == (0xD800, 3)
        except Exception:  # noqa: BLE001
            self.lenient = False
        return self.lenient


class Encoding:
    """set_encoding(name) for the duration of a with-block; restores the three globals exactly"""

    def __init__(self, api, name):
        self.api = api
        self.name = name
        self.mode = W.mode_of_encoding(name)

    def __enter__(self):
        S, U = self.api.S, self.api.U
        self.saved = (U._target_encoding, U._use_dec_special, S._byte_encoding)
        U.set_encoding(self.name)
        return self

    def __exit__(self, *exc):
        S, U = self.api.S, self.api.U
        U._target_encoding, U._use_dec_special, S._byte_encoding = self.saved
        return False


def codec_of(enc: str) -> str:
    try:
        "".encode(enc)
    except LookupError:
        return "ascii"
    return enc


# ------------------------------------------------------------------ model view of one text


def cp_class(cp: int) -> str:
    if cp < 0x20 or 0x7F <= cp < 0xA0:
        return "ctrl"
    if cp < 0x7F:
        return "ascii"
    if cp in DEC_BY_CP:
        return "dec"
    w = W.char_width(cp)
    if w == 0:
        return "zero"
    if w == 2:
        return "wide" if cp < 0x10000 else "astral-wide"
    if cp < 0x100:
        return "latin1"
    if cp < 0x800:
        return "bmp2"
    if cp < 0x10000:
        return "bmp3"
    return "astral"


def mcells(text, mode: str, lenient: bool):
    """[(chunk, width, class)] per character of text, by the model (plus the surrogate tolerance)"""
    if isinstance(text, str):
        return [(c, W.char_width(ord(c)), cp_class(ord(c))) for c in text]
    out = []
    n = len(text)
    i = 0
    if mode == "utf8":
        while i < n:
            cp, j = W.decode_utf8_strict(text, i)
            if cp is not None:
                out.append((text[i:j], W.char_width(cp), cp_class(cp)))
                i = j
                continue
            d = W.utf8_defect(text, i)
            if d == "surrogate" and lenient:
                scp = ((text[i] & 0x0F) << 12) | ((text[i + 1] & 0x3F) << 6) | (text[i + 2] & 0x3F)
                out.append((text[i : i + 3], W.char_width(scp), "enc-surrogate"))
                i += 3
                continue
            out.append((text[i : i + 1], 1, d))
            i += 1
        return out
    for ch, w in W.cells(text, mode):
        b0 = ch[0]
        if mode == "narrow":
            cls = "ascii" if b0 < 0x80 else "high"
        elif w == 2:
            cls = "dbl-hi" if ch[1] >= 0x80 else "dbl-lo"
        elif b0 < 0x40 or b0 == 0x7F:
            cls = "ascii"
        elif b0 < 0x7F:
            cls = "lowtrail"
        elif b0 == 0x80:
            cls = "x80"
        elif b0 == 0xFF:
            cls = "xff"
        else:
            cls = "lone-lead"
        out.append((ch, w, cls))
    return out


def shape_of(cl) -> str:
    """abstract shape for signatures.  Well-formed text: the sequence of character classes.  Malformed text: the
    SET of malformed classes present (order and well-formed neighbours dropped, so the set of possible shapes is
    small and fixed; shrinking has already removed characters that do not matter)."""
    classes = [c for _ch, _w, c in cl]
    bad = sorted({SIG_CLASS.get(c, "invalid-bytes") for c in classes if c in MALFORMED} - {None})
    if bad:
        return "malformed:" + "+".join(bad)
    out = []
    for c in classes:
        if not out or out[-1] != c:
            out.append(c)
    return "wf:" + ",".join(out)


def in_domain(cl) -> bool:
    return not any(c in OUTSIDE for _ch, _w, c in cl)


def expand_rle(rle):
    out = []
    for a, r in rle:
        if not isinstance(r, int) or r < 0:
            raise ValueError(f"bad run {(a, r)!r}")
        out.extend([a] * r)
    return out


def ate_model_str(s: str, enc: str, mode: str):
    """expected (bytes, per-byte charset) of apply_target_encoding(str); None if s has literal SO/SI"""
    codec = codec_of(enc)
    outb = bytearray()
    cs = []
    for c in s:
        o = ord(c)
        if o in (SO, SI) or o == URWID_PRIVATE_DEC:
            return None
        if mode != "utf8" and o in DEC_BY_CP:
            outb.append(DEC_BY_CP[o])
            cs.append("0")
        else:
            e = c.encode(codec, "replace")
            outb += e
            cs += [None] * len(e)
    return bytes(outb), cs


def ate_model_bytes(b: bytes):
    """bytes input: SO switches to the '0' set, SI back; shift bytes are dropped"""
    outb = bytearray()
    cs = []
    cur = None
    for v in b:
        if v == SO:
            cur = "0"
        elif v == SI:
            cur = None
        else:
            outb.append(v)
            cs.append(cur)
    return bytes(outb), cs


# ------------------------------------------------------------------ the judge


def judge_text(api: Api, enc: str, mode: str, text, stats: Counter, lean: bool = False):
    """call every anchored function on text and return [(func, kind, msg, call)] for each mismatch"""
    S, U = api.S, api.U
    out = []
    cl = mcells(text, mode, api.lenient)
    n = len(cl)
    isb = isinstance(text, bytes)
    B = [0]
    C = [0]
    for ch, w, _c in cl:
        B.append(B[-1] + len(ch))
        C.append(C[-1] + w)
    Bidx = {b: k for k, b in enumerate(B)}

    def bad(func, kind, msg, *call):
        out.append((func, kind, msg, [func, *call]))

    def call(func, f, *a):
        CALLS[func] += 1
        try:
            return True, f(text, *a)
        except Exception as e:  # noqa: BLE001
            bad(func, f"raise:{type(e).__name__}", f"{func}{(text, *a)!r} raised {type(e).__name__}: {e}", *a)
            return False, None

    if lean:  # code-point sweep in the quick tier: whole text, each character alone, prefix and suffix
        pairs = sorted({(0, n), (0, max(n - 1, 0)), (min(1, n), n), *((k, k + 1) for k in range(n))})
    elif n <= 5:
        pairs = [(i, j) for i in range(n + 1) for j in range(i, n + 1)]
    else:
        pairs = [(0, n), (0, n - 1), (1, n), (1, n - 1), (2, n), (0, n - 2), (2, n - 2), (3, n)]

    # ---- calc_width: model width over every boundary pair (additivity follows)
    calc_width = S.calc_width
    for i, j in pairs:
        ok, got = call("calc_width", calc_width, B[i], B[j])
        stats["eval:calc_width"] += 1
        if ok and got != C[j] - C[i]:
            kind = "not-int" if not isinstance(got, int) else "wider-than-model" if got > C[j] - C[i] else "narrower-than-model"
            bad("calc_width", kind, f"calc_width({text!r},{B[i]},{B[j]}) = {got!r}, model {C[j] - C[i]}", B[i], B[j], got, C[j] - C[i])

    # ---- calc_text_pos
    calc_text_pos = S.calc_text_pos
    tp_pairs = [(0, n), (n // 2, n // 2 + 1)] if lean and n > 1 else pairs if n <= 4 else pairs[:4]
    for i, j in tp_pairs:
        line = C[j] - C[i]
        for col in range(line + 2):
            k = i
            while k < j and C[k + 1] - C[i] <= col:
                k += 1
            exp = (B[k], C[k] - C[i])
            ok, got = call("calc_text_pos", calc_text_pos, B[i], B[j], col)
            stats["eval:calc_text_pos"] += 1
            if k < j and cl[k][1] == 2 and C[k] - C[i] == col - 1:
                stats["eval:calc_text_pos:stopped-before-wide"] += 1
            if not ok or got == exp:
                continue
            if not (isinstance(got, tuple) and len(got) == 2 and all(isinstance(x, int) for x in got)):
                kind = "not-a-pair"
            elif not B[i] <= got[0] <= B[j]:
                kind = "pos-out-of-range"
            elif got[0] not in Bidx:
                kind = "pos-inside-char"
            elif got[1] > col:
                kind = "col-beyond-target"
            elif got[1] != C[Bidx[got[0]]] - C[i]:
                kind = "col-not-width-of-prefix"
            elif got[0] < exp[0]:
                kind = "stops-early"
            else:
                kind = "overshoots"
            bad("calc_text_pos", kind, f"calc_text_pos({text!r},{B[i]},{B[j]},{col}) = {got!r}, model {exp}", B[i], B[j], col, got, exp)

    # ---- move_next_char / move_prev_char and the inverse law on urwid's own answers
    nxt, prv = S.move_next_char, S.move_prev_char
    for i, j in pairs:
        if i == j:
            continue
        ok, p = call("move_next_char", nxt, B[i], B[j])
        stats["eval:move_next_char"] += 1
        if ok and p != B[i + 1]:
            if not isinstance(p, int):
                kind = "not-int"
            elif p > B[j]:
                kind = "beyond-end"
            elif p <= B[i]:
                kind = "not-advancing"
            elif p not in Bidx:
                kind = "inside-char"
            else:
                kind = "skips-char"
            bad("move_next_char", kind, f"move_next_char({text!r},{B[i]},{B[j]}) = {p!r}, model {B[i + 1]}", B[i], B[j], p, B[i + 1])
        if ok and isinstance(p, int) and B[i] < p <= B[j]:
            ok2, q = call("move_prev_char", prv, B[i], p)
            stats["eval:next-prev-inverse"] += 1
            if ok2 and q != B[i]:
                bad("next-prev-inverse", "prev(next(s))!=s", f"move_next_char({text!r},{B[i]},{B[j]}) = {p}, move_prev_char(..,{B[i]},{p}) = {q!r}", B[i], B[j], p, q)
        ok, q = call("move_prev_char", prv, B[i], B[j])
        stats["eval:move_prev_char"] += 1
        if ok and q != B[j - 1]:
            if not isinstance(q, int):
                kind = "not-int"
            elif q < B[i]:
                kind = "before-start"
            elif q >= B[j]:
                kind = "not-retreating"
            elif q not in Bidx:
                kind = "inside-char"
            else:
                kind = "skips-char"
            bad("move_prev_char", kind, f"move_prev_char({text!r},{B[i]},{B[j]}) = {q!r}, model {B[j - 1]}", B[i], B[j], q, B[j - 1])
        if ok and isinstance(q, int) and B[i] <= q < B[j]:
            ok2, p = call("move_next_char", nxt, q, B[j])
            stats["eval:next-prev-inverse"] += 1
            if ok2 and p != B[j]:
                bad("next-prev-inverse", "next(prev(e))!=e", f"move_prev_char({text!r},{B[i]},{B[j]}) = {q}, move_next_char(..,{q},{B[j]}) = {p!r}", B[i], B[j], q, p)

    # ---- is_wide_char at every character start
    for k in range(n):
        ok, got = call("is_wide_char", S.is_wide_char, B[k])
        stats["eval:is_wide_char"] += 1
        if ok and got != (cl[k][1] == 2):
            bad("is_wide_char", "true-on-narrow" if got else "false-on-wide", f"is_wide_char({text!r},{B[k]}) = {got!r}, model width {cl[k][1]}", B[k], got, cl[k][1])

    if isb and mode == "wide":
        role = []
        for ch, w, _c in cl:
            role.extend([1, 2] if w == 2 else [0])
        for ls in (0,) if lean or n > 4 else B[:-1]:
            for pos in range(ls, len(text)):
                ok, got = call("within_double_byte", S.within_double_byte, ls, pos)
                stats["eval:within_double_byte"] += 1
                if ok and got != role[pos]:
                    bad("within_double_byte", f"got{got!r}-model{role[pos]}", f"within_double_byte({text!r},{ls},{pos}) = {got!r}, model {role[pos]}", ls, pos, got, role[pos])

    if isb and mode == "utf8":
        for k in range(n):
            ch, _w, cls = cl[k]
            ok, got = call("decode_one", S.decode_one, B[k])
            stats["eval:decode_one"] += 1
            if ok:
                well = cls not in MALFORMED
                if not (isinstance(got, tuple) and len(got) == 2):
                    bad("decode_one", "not-a-pair", f"decode_one({text!r},{B[k]}) = {got!r}", B[k], got)
                elif got[1] != B[k + 1]:
                    bad("decode_one", "next-offset", f"decode_one({text!r},{B[k]}) = {got!r}, model next {B[k + 1]}", B[k], got, B[k + 1])
                elif well and got[0] != ord(ch.decode("utf-8")):
                    bad("decode_one", "ordinal", f"decode_one({text!r},{B[k]}) = {got!r}, model U+{ord(ch.decode('utf-8')):04X}", B[k], got)
            if cls not in MALFORMED:
                ok, got = call("decode_one_right", S.decode_one_right, B[k + 1] - 1)
                stats["eval:decode_one_right"] += 1
                exp = (ord(ch.decode("utf-8")), B[k] - 1)
                if ok and got != exp:
                    bad("decode_one_right", "mismatch", f"decode_one_right({text!r},{B[k + 1] - 1}) = {got!r}, model {exp}", B[k + 1] - 1, got, exp)

    # ---- calc_trim_text
    trim = U.calc_trim_text
    tr_pairs = [(0, n)] if lean or n > 3 else pairs
    for i, j in tr_pairs:
        line = C[j] - C[i]
        strad = [False] * (line + 1)
        for k in range(i, j):
            if cl[k][1] == 2:
                strad[C[k] - C[i] + 1] = True
        for sc in range(line + 1):
            for ec in range(sc, line + 1):
                if sc == ec and strad[sc]:
                    continue
                epl, epr = int(strad[sc]), int(strad[ec])
                CALLS["calc_trim_text"] += 1
                try:
                    got = trim(text, B[i], B[j], sc, ec)
                except Exception as e:  # noqa: BLE001
                    bad("calc_trim_text", f"raise:{type(e).__name__}", f"calc_trim_text({text!r},{B[i]},{B[j]},{sc},{ec}) raised {type(e).__name__}: {e}", B[i], B[j], sc, ec)
                    continue
                stats["eval:calc_trim_text"] += 1
                if epl and epr:
                    stats["eval:calc_trim_text:pad_both"] += 1
                elif epl:
                    stats["eval:calc_trim_text:pad_left"] += 1
                elif epr:
                    stats["eval:calc_trim_text:pad_right"] += 1
                kind = None
                if not (isinstance(got, tuple) and len(got) == 4 and all(isinstance(x, int) for x in got)):
                    kind = "not-a-4-tuple"
                else:
                    s, e, pl, pr = got
                    if not (B[i] <= s <= e <= B[j]):
                        kind = "slice-out-of-range"
                    elif s not in Bidx or e not in Bidx:
                        kind = "slice-inside-char"
                    elif pl not in (0, 1) or pr not in (0, 1):
                        kind = "pad-not-0-or-1"
                    elif pl != epl:
                        kind = "pad_left-spurious" if pl else "pad_left-missing"
                    elif pr != epr:
                        kind = "pad_right-spurious" if pr else "pad_right-missing"
                    elif (C[Bidx[e]] - C[Bidx[s]]) + pl + pr != ec - sc:
                        kind = "total-width"
                    elif C[Bidx[s]] - C[i] != sc + pl or C[Bidx[e]] - C[i] != ec - pr:
                        kind = "slice-misplaced"
                if kind:
                    bad("calc_trim_text", kind, f"calc_trim_text({text!r},{B[i]},{B[j]},{sc},{ec}) = {got!r}; model pads ({epl},{epr}), line width {line}", B[i], B[j], sc, ec, got, [epl, epr])
                elif isb and i == 0 and j == n and not lean:
                    # trim_text_attr_cs on the same range: one attr / cs run per character
                    attr = [(k, len(cl[k][0])) for k in range(n)]
                    cs = [(("U" if k & 1 else None), len(cl[k][0])) for k in range(n)]
                    s, e, pl, pr = got
                    CALLS["trim_text_attr_cs"] += 1
                    try:
                        t2, a2, c2 = U.trim_text_attr_cs(text, attr, cs, sc, ec)
                        a2 = expand_rle(a2)
                        c2 = expand_rle(c2)
                    except Exception as ex:  # noqa: BLE001
                        bad("trim_text_attr_cs", f"raise:{type(ex).__name__}", f"trim_text_attr_cs({text!r},{attr},{cs},{sc},{ec}) raised {type(ex).__name__}: {ex}", sc, ec)
                        continue
                    stats["eval:trim_text_attr_cs"] += 1
                    ks, ke = Bidx[s], Bidx[e]
                    ea = [ks - 1] * pl + [k for k in range(ks, ke) for _ in cl[k][0]] + [ke] * pr
                    ec_ = [None] * pl + [("U" if k & 1 else None) for k in range(ks, ke) for _ in cl[k][0]] + [None] * pr
                    et = b" " * pl + text[s:e] + b" " * pr
                    if t2 != et:
                        bad("trim_text_attr_cs", "text", f"trim_text_attr_cs({text!r},..,{sc},{ec}) text {t2!r}, model {et!r}", sc, ec, t2, et)
                    elif a2 != ea:
                        bad("trim_text_attr_cs", "attr-runs", f"trim_text_attr_cs({text!r},{attr},..,{sc},{ec}) attr per byte {a2}, model {ea}", sc, ec, a2, ea)
                    elif c2 != ec_:
                        bad("trim_text_attr_cs", "cs-runs", f"trim_text_attr_cs({text!r},..,{cs},{sc},{ec}) cs per byte {c2}, model {ec_}", sc, ec, c2, ec_)

    # ---- apply_target_encoding
    CALLS["apply_target_encoding"] += 1
    try:
        got = U.apply_target_encoding(text)
        gb, gruns = got
        gcs = expand_rle(gruns)
    except Exception as e:  # noqa: BLE001
        bad("apply_target_encoding", f"raise:{type(e).__name__}", f"apply_target_encoding({text!r}) raised {type(e).__name__}: {e}")
    else:
        stats["eval:apply_target_encoding"] += 1
        model = ate_model_bytes(text) if isb else ate_model_str(text, enc, mode)
        if isb and (SO in text or SI in text):
            stats["eval:apply_target_encoding:bytes-shift"] += 1
        if not isinstance(gb, bytes):
            bad("apply_target_encoding", "not-bytes", f"apply_target_encoding({text!r}) = {got!r}")
        elif len(gcs) != len(gb):
            bad("apply_target_encoding", "run-sum!=len", f"apply_target_encoding({text!r}) = {got!r}: runs cover {len(gcs)}, encoded length {len(gb)}", got)
        elif model is not None:
            eb, ecs = model
            if not isb and mode != "utf8":
                stats["eval:apply_target_encoding:dec-glyph"] += sum(1 for c in text if ord(c) in DEC_BY_CP)
            if gb != eb:
                decs = not isb and any(ord(c) in DEC_BY_CP for c in text) and mode != "utf8"
                bad("apply_target_encoding", "dec-glyph-not-mapped" if decs else "encoded-bytes", f"apply_target_encoding({text!r}) bytes {gb!r}, model {eb!r}", got, eb)
            elif gcs != ecs:
                bad("apply_target_encoding", "charset-run", f"apply_target_encoding({text!r}) = {got!r}, model per-byte charset {ecs}", got, ecs)
    return out


# ------------------------------------------------------------------ shrinking, signatures, reporting


class Session:
    """one encoding: judge texts, shrink and report violations"""

    def __init__(self, ctx, api, enc):
        self.ctx = ctx
        self.api = api
        self.enc = enc
        self.mode = W.mode_of_encoding(enc)
        self.stats = Counter()
        self.scratch = Counter()
        self.memo: dict = {}
        self.reported: set = set()

    def keys_of(self, text):
        k = self.memo.get(text)
        if k is None:
            if in_domain(mcells(text, self.mode, self.api.lenient)):
                k = frozenset((f, kd) for f, kd, _m, _c in judge_text(self.api, self.enc, self.mode, text, self.scratch))
            else:
                k = frozenset()
            if len(self.memo) < 200_000:
                self.memo[text] = k
        return k

    def shrink(self, text, key):
        """delete whole characters while the same (function, kind) mismatch reproduces"""
        cur = text
        while True:
            cl = mcells(cur, self.mode, self.api.lenient)
            if len(cl) <= 1:
                return cur
            empty = cur[:0]
            for k in range(len(cl)):
                cand = empty.join(ch for idx, (ch, _w, _c) in enumerate(cl) if idx != k)
                if key in self.keys_of(cand):
                    cur = cand
                    break
            else:
                return cur

    def judge(self, text, register=True, lean=False):
        """judge one text; returns the findings, or None if the text is outside the judged domain"""
        ctx = self.ctx
        if not isinstance(text, str) and self.mode == "wide" and not in_domain(mcells(text, self.mode, self.api.lenient)):
            ctx.count("skipped:wide-text-with-standalone-0x80-or-0xFF")
            return None
        found = judge_text(self.api, self.enc, self.mode, text, self.stats, lean)
        if register:
            ctx.case((self.enc, text if isinstance(text, str) else text.hex()), nontrivial=len(text) > 0)
        if not found:
            return found
        ctx.count("violating_calls", len(found))
        for key in sorted({(f, kd) for f, kd, _m, _c in found}):
            small = self.shrink(text, key)
            if (small, key) in self.reported:
                continue
            self.reported.add((small, key))
            again = [x for x in judge_text(self.api, self.enc, self.mode, small, self.scratch) if (x[0], x[1]) == key]
            if not again:  # the lean pass saw it, the full pass on the same text must too; keep the unshrunk text
                small = text
                again = [x for x in found if (x[0], x[1]) == key]
            f, kd, msg, call = min(again, key=lambda x: len(repr(x[3])))
            cl = mcells(small, self.mode, self.api.lenient)
            sig = f"C11|{self.mode}|{'bytes' if isinstance(small, bytes) else 'str'}|{f}|{kd}|{shape_of(cl)}"
            ctx.violation(sig, f"[{self.enc}] {msg}", {"kind": "text", "enc": self.enc, "text": small, "call": call})
        return found

    def count_text(self, text):
        if isinstance(text, str):
            self.ctx.count(f"texts:{self.mode}:str")
        else:
            wf = not any(c in MALFORMED for _ch, _w, c in mcells(text, self.mode, self.api.lenient))
            self.ctx.count(f"texts:{self.mode}:bytes:{'wf' if wf else 'malformed'}")

    def flush(self):
        for k, v in self.stats.items():
            self.ctx.count(k, v)
        self.stats.clear()


# ------------------------------------------------------------------ workload


def cp_in_alphabet(cp: int, enc: str, mode: str):
    """encoded bytes of chr(cp) if the code point belongs to the alphabet of enc, else None"""
    c = chr(cp)
    if mode == "utf8":
        return c.encode("utf-8")
    try:
        b = c.encode(enc)
    except UnicodeEncodeError:
        return None
    w = W.char_width(cp)
    if len(b) != w or w == 0:
        return None
    if len(W.cells(b, mode)) != 1:  # the generic scanner must see one character (true for every 1/2-byte form)
        return None
    return b


STR_UNITS = ["a", "\u00e9", "\u6f22", "\u0301", "\U0001f600", "\u200b", "\u2500", "\x01"]
# ascii, latin-1, CJK wide, combining, astral wide emoji, zero-width space, DEC glyph (box drawing), C0 control
STR_UNITS_MORE = [" ", "\uff71", "\u00a3", "\u3042", "\U000e0100", "\u1100", "\u00ad", "\u2264", "\x7f", "\u0085", "\uffff", "\U0010ffff"]
MAL_UNITS = [
    b"\x80", b"\xc3", b"\xe3\x81", b"\xc0\x80", b"\xe0\x80\x80", b"\xed\xa0\x80", b"\xf4\x90\x80\x80", b"\xf0\x9f\x98", b"\xff",
    b"\xf8\x88\x80\x80\x80", b"\xe3", b"\xbf",
]  # fmt: skip
UTF8_BYTE_ALPHABET = bytes([0x41, 0x80, 0xBF, 0xC3, 0xE3, 0x81, 0xED, 0xA0, 0x9F, 0xF0, 0xF4, 0x90, 0x8F, 0xFF, 0xC0, 0xE0, 0xCC, 0xF5])
WIDE_BYTE_ALPHABET = bytes([0x20, 0x41, 0x40, 0x7E, 0x81, 0xA4, 0xFE, 0x80])
NARROW_BYTE_ALPHABET = bytes([0x20, 0x41, 0x7E, 0x80, 0xA4, 0xFF])
SHIFT_BYTE_ALPHABET = [b"a", bytes([SO]), bytes([SI]), b"q"]
WIDE_STR_UNITS = {
    "euc-jp": ["a", "\u6f22", "\u3042", "\uff21", "\u3000", "~"],
    "gbk": ["a", "\u6f22", "\u3042", "\uff21", "\u4e02", "~"],  # U+4E02 -> 81 40 (low trail byte)
    "big5": ["a", "\u6f22", "\u3042", "\uff21", "\u4e00", "@"],  # U+4E00 -> A4 40
    "euc-kr": ["a", "\u6f22", "\uac00", "\uff21", "\u3000", "~"],
    "gb2312": ["a", "\u6c49", "\u3042", "\uff21", "\u3000", "~"],
    "uhc": ["a", "\u6f22", "\uac02", "\uff21", "\u3000", "~"],  # U+AC02 -> 81 41
}
NARROW_STR_UNITS = {
    "ascii": ["a", " ", "~", "\u2500", "\u00a3", "\u6f22"],
    "iso-8859-1": ["a", "\u00e9", "\u00a3", "\u2500", "\u00ff", "\u6f22"],
    "koi8-r": ["a", "\u0416", "\u2500", "\u2550", "\u00b0", "\u00e9"],
    "cp437": ["a", "\u00e9", "\u2591", "\u2500", "\u03c0", "\u263a"],
}


def sequences(units, maxlen):
    for length in range(1, maxlen + 1):
        yield from itertools.product(units, repeat=length)


def sweep_code_points(ctx, api, enc, enc_index, frac):
    """judge chr(cp) (str), its encoding embedded between two ASCII bytes, and (thorough / low code points) the bare
    encoding and the embedded str, for the shard's residue class of the sweep.  False if the budget ended first."""
    mode = W.mode_of_encoding(enc)
    stride = CP_STRIDE[ctx.tier] if mode == "utf8" else 1
    offset = ctx.seed % stride
    edges = set(W.width_change_points()) if stride > 1 else set()
    lean = ctx.quick
    ses = Session(ctx, api, enc)
    done = 0
    complete = True
    S = api.S
    with Encoding(api, enc):
        if S.get_byte_encoding() != mode:
            ctx.violation(f"C11|set_encoding|mode|{mode}", f"set_encoding({enc!r}) selected {S.get_byte_encoding()!r}, expected {mode!r}", {"kind": "mode", "enc": enc})
        for cp in range(ctx.shard, 0x110000, ctx.nshards):
            if 0xD800 <= cp <= 0xDFFF:
                continue
            if stride > 1 and (cp // ctx.nshards) % stride != offset and cp >= 0x3000 and cp not in edges:
                continue
            b = cp_in_alphabet(cp, enc, mode)
            if b is None:
                continue
            if (done & 127) == 0 and not det_more(ctx, frac):
                complete = False
                break
            done += 1
            s = chr(cp)
            f1 = ses.judge(s, register=False, lean=lean)
            f2 = ses.judge(b"x" + b + b"y", register=False, lean=lean)
            if not lean or cp < 0x3000 or cp in edges:
                ses.judge(b, register=False, lean=lean)
                ses.judge("x" + s + "y", register=False, lean=lean)
            # direct str <-> bytes agreement (not only via the model)
            try:
                ws, wb = S.calc_width(s, 0, 1), S.calc_width(b, 0, len(b))
            except Exception:  # noqa: BLE001  (already reported by judge)
                pass
            else:
                ses.stats["eval:str-bytes-agree"] += 1
                if ws != wb and not f1 and not f2:
                    ctx.violation(f"C11|{mode}|str-bytes-agree|calc_width|cp:{cp_class(cp)}", f"[{enc}] calc_width({s!r}) = {ws}, calc_width({b!r}) = {wb}", {"kind": "text", "enc": enc, "text": s})
            ctx.case(cp * 16 + enc_index, nontrivial=True)
    ctx.count(f"cp:{mode}", done)
    ctx.count(f"cp:{enc}", done)
    ses.flush()
    return complete


def run_texts(ctx, ses, texts, frac, tag):
    """judge an iterable of texts (static partition over shards); False if the budget ended first"""
    n = 0
    for idx, text in enumerate(texts):
        if not ctx.mine(idx):
            continue
        if (n & 63) == 0 and not det_more(ctx, frac):
            return False
        n += 1
        if ses.judge(text) is not None:
            ses.count_text(text)
    ctx.count(f"texts-exhaustive:{tag}", n)
    return True


def str_and_bytes(ctx, ses, units, maxlen, frac, tag):
    """for every sequence over units: judge the str, its encoded bytes, and compare the two widths directly"""
    api = ses.api
    codec = codec_of(ses.enc)
    mode = ses.mode
    n = 0
    for idx, seq in enumerate(sequences(units, maxlen)):
        if not ctx.mine(idx):
            continue
        if (n & 63) == 0 and not det_more(ctx, frac):
            return False
        n += 1
        s = "".join(seq)
        ses.judge(s)
        ses.count_text(s)
        if any(cp_in_alphabet(ord(c), ses.enc, mode) is None for c in s):
            continue  # str side only: not a character of this encoding's alphabet (see ASSUMES)
        b = s.encode(codec)
        fb = ses.judge(b)
        ses.count_text(b)
        try:
            ws, wb = api.S.calc_width(s, 0, len(s)), api.S.calc_width(b, 0, len(b))
        except Exception:  # noqa: BLE001
            continue
        ses.stats["eval:str-bytes-agree"] += 1
        if ws != wb and not fb:
            ctx.violation(f"C11|{mode}|str-bytes-agree|calc_width|text", f"[{ses.enc}] calc_width({s!r}) = {ws}, calc_width({b!r}) = {wb}", {"kind": "text", "enc": ses.enc, "text": s})
    ctx.count(f"texts-exhaustive:{tag}", n)
    return True


def dec_texts():
    """every DEC glyph alone, between ASCII, between wide characters, and every ordered pair of glyphs"""
    glyphs = [chr(cp) for cp in sorted(DEC_BY_CP)]
    for g in glyphs:
        yield g
        yield "a" + g + "b"
        yield g + "a" + g
        yield "\u6f22" + g + "\u00e9" + g
    for g1 in glyphs:
        for g2 in glyphs:
            yield g1 + g2


# ------------------------------------------------------------------ directed core: every sub-range for next / prev
# Never skipped, never cut by the budget, run by every shard (a few thousand calls).  move_next_char / move_prev_char are
# called for ALL 0 <= start < end <= len of a fixed pool, including ranges that start or end INSIDE a character.
#   range oracle (hard, any range):  start < next <= end ;  start <= prev < end
#   model (ranges whose bytes, read on their own, parse like the same span of the whole text -- in particular every
#   boundary-to-boundary range): next == first character boundary of text[start:end], prev == last one.
SUBRANGE_POOL = {
    "utf-8": [
        "a\u00e9b".encode(), "a\u6f22b".encode(), "x\U0001f600y".encode(), "\u00e9\u6f22".encode(), "a\u0301\u6f22".encode(),
        b"a\x80b", b"\xe3\x81", b"\xc3\xa9\xc3", "a\u6f22\u0301b", "\U0001f600\u00e9",
    ],
    "gbk": [b"a\xa4\xa2b", b"\xa4\xa2\xa4\xa2", b"\x81\x40a", b"\xa4\xa2@\xa4\xa2", b"a\x81\x80b", "a\u6f22b"],
    "euc-jp": [b"\xa4\xa2a\xa4\xa2", "\u6f22a"],
    "iso-8859-1": [b"a\xe9\xffb", b"\xa4\xa2\x81", "a\u00e9\u6f22"],
    "ascii": [b"ab\xe9", "ab"],
}  # fmt: skip


def subrange_core(ctx, api):
    S = api.S
    for enc, pool in SUBRANGE_POOL.items():
        mode = W.mode_of_encoding(enc)
        with Encoding(api, enc):
            for text in pool:
                kind = "bytes" if isinstance(text, bytes) else "str"
                whole = mcells(text, mode, api.lenient)
                wb = [0]
                for ch, _w, _c in whole:
                    wb.append(wb[-1] + len(ch))
                wbset = set(wb)
                n = len(text)
                for start in range(n):
                    for end in range(start + 1, n + 1):
                        where = f"start-{'on-boundary' if start in wbset else 'inside-char'},end-{'on-boundary' if end in wbset else 'inside-char'}"
                        sub = mcells(text[start:end], mode, api.lenient)
                        sb = [start]
                        for ch, _w, _c in sub:
                            sb.append(sb[-1] + len(ch))
                        # the slice read alone agrees with the whole text on this span (always true boundary-to-boundary)
                        same_parse = [b for b in wb if start <= b <= end] == sb
                        clean = same_parse and not any(c in MALFORMED for _ch, _w, c in sub)
                        wit = {"kind": "subrange", "enc": enc, "text": text, "start": start, "end": end}
                        for fname, f, lo_ok, exp in (
                            ("move_next_char", S.move_next_char, lambda r: start < r <= end, sb[1]),
                            ("move_prev_char", S.move_prev_char, lambda r: start <= r < end, sb[-2]),
                        ):
                            ctx.count(f"directed:subranges:{fname}")
                            ctx.count(f"directed:subranges:{where}")
                            CALLS[fname] += 1
                            try:
                                got = f(text, start, end)
                            except Exception as e:  # noqa: BLE001
                                ctx.violation(f"C11|{mode}|{kind}|{fname}|raise:{type(e).__name__}|subrange:{where}", f"[{enc}] {fname}({text!r},{start},{end}) raised {type(e).__name__}: {e}", wit)
                                continue
                            if not isinstance(got, int) or not lo_ok(got):
                                ctx.violation(
                                    f"C11|{mode}|{kind}|{fname}|outside-given-range|subrange:{where}",
                                    f"[{enc}] {fname}({text!r},{start},{end}) = {got!r}: not inside the range it was given",
                                    wit,
                                )
                            elif clean and got != exp:
                                ctx.count("directed:subranges:model-compared")
                                ctx.violation(
                                    f"C11|{mode}|{kind}|{fname}|not-the-model-boundary|subrange:{where}",
                                    f"[{enc}] {fname}({text!r},{start},{end}) = {got!r}, model {exp}",
                                    wit,
                                )
                            elif clean:
                                ctx.count("directed:subranges:model-compared")
                ctx.case(("subrange", enc, text if isinstance(text, str) else text.hex()))


# ------------------------------------------------------------------ long inputs
# The short-text phases ask every question about <= 7 characters.  Here the same questions are asked of texts of
# 300 / 500 / 1000 / 5000 characters per class, at both ends and in the middle (the model is linear, so this is cheap).
# Any exception is a violation: none of the functions documents one for in-range boundary arguments.

LONG_LENGTHS = {"quick": (300, 500, 1000), "thorough": (300, 500, 1000, 5000)}
LONG_LENGTHS_BIG = 5000  # quick: only for the classes in LONG_BIG_CLASSES
LONG_BIG_CLASSES = {"dbl-hi", "dbl-lo", "wide", "combining-run", "mixture"}


def long_texts(mode: str, enc: str, n: int):
    """(class, text) pairs of about n characters for one encoding"""
    if mode == "utf8":
        strs = {
            "ascii": "a" * n,
            "latin1": "\u00e9" * n,
            "wide": "\u6f22" * n,
            "astral-wide": "\U0001f600" * n,
            "combining-run": "a" + "\u0301" * (n - 1),  # one base, n-1 combining marks
            "combining-pairs": "a\u0301" * (n // 2),
            "zero-width-run": "\u200b" * n,
            "control-run": "\x01" * n,
            "dec-glyphs": "\u2500\u2502" * (n // 2),
            "mixture": "".join(STR_UNITS[k % len(STR_UNITS)] for k in range(n)),
            "wide-then-narrow": "\u6f22" * (n // 2) + "a" * (n // 2),
        }
        for cls, t in strs.items():
            yield cls, t
            yield cls, t.encode("utf-8")
        yield "stray-continuation-run", b"\x80" * n
        yield "truncated-lead-run", b"\xe3\x81" * (n // 2)
    elif mode == "wide":
        yield "dbl-hi", b"\xa4\xa2" * n
        yield "dbl-lo", b"\x81\x40" * n
        yield "dbl-hi-after-ascii", b"a" + b"\xa4\xa2" * (n - 1)  # odd offset of the run
        yield "dbl-hi-trail-0x80", b"\x81\x80" * n
        yield "mixture", (b"\xa4\xa2a\x81\x40 ") * (n // 4)
        yield "two-runs", b"\xa4\xa2" * (n // 2) + b" " + b"\xfe\xfe" * (n // 2)
        yield "ascii", b"a" * n
        yield "lowtrail-ascii", b"@~" * (n // 2)
        codec = codec_of(enc)
        for cls, t in (("wide", "\u6f22" * n), ("mixture", "a\u6f22\u3042 " * (n // 4)), ("dec-glyphs", "\u2500a" * (n // 2))):
            yield cls, t
            if all(cp_in_alphabet(ord(c), enc, mode) is not None for c in set(t)):
                yield cls, t.encode(codec)
    else:
        yield "high", b"\xe9" * n
        yield "ascii", b"a" * n
        yield "mixture", b"a\xe9 \xff" * (n // 4)
        yield "wide", "\u6f22" * n
        yield "dec-glyphs", "\u2500a" * (n // 2)


def judge_long(api: Api, enc: str, mode: str, text, stats: Counter):
    """the judge_text clauses at a fixed number of query points of a long text; returns [(func, kind, msg, call)]"""
    S, U = api.S, api.U
    out = []
    cl = mcells(text, mode, api.lenient)
    n = len(cl)
    isb = isinstance(text, bytes)
    B = [0]
    C = [0]
    for ch, w, _c in cl:
        B.append(B[-1] + len(ch))
        C.append(C[-1] + w)
    Bidx = {b: k for k, b in enumerate(B)}
    Cset = set(C)
    tlen = len(text)
    head = f"{'bytes' if isb else 'str'} of {n} characters"

    def bad(func, kind, msg, *call):
        out.append((func, kind, f"{func} on {head}: {msg}", [func, *call]))

    def call(func, f, *a):
        CALLS[func] += 1
        stats[f"eval:{func}"] += 1
        try:
            return True, f(text, *a)
        except Exception as e:  # noqa: BLE001
            bad(func, f"raise:{type(e).__name__}", f"{func}(<text>, {', '.join(map(str, a))}) raised {type(e).__name__}: {str(e)[:80]}", *a)
            return False, None

    pts = sorted({k for k in (0, 1, 2, n // 3, n // 2 - 1, n // 2, n // 2 + 1, n - 3, n - 2, n - 1, n) if 0 <= k <= n})
    pairs = [(0, n), (0, n // 2), (n // 2, n), (1, n - 1), (n - 2, n), (0, 2), (n // 3, n - 1)]
    pairs = [(i, j) for i, j in pairs if 0 <= i <= j <= n]

    for i, j in pairs:
        ok, got = call("calc_width", S.calc_width, B[i], B[j])
        if ok and got != C[j] - C[i]:
            bad("calc_width", "wider-than-model" if isinstance(got, int) and got > C[j] - C[i] else "narrower-than-model", f"({B[i]},{B[j]}) = {got!r}, model {C[j] - C[i]}", B[i], B[j], got, C[j] - C[i])
        line = C[j] - C[i]
        for col in sorted({c for c in (0, 1, 2, line // 2 - 1, line // 2, line // 2 + 1, line - 2, line - 1, line, line + 1) if c >= 0}):
            k = bisect.bisect_right(C, C[i] + col, i, j + 1) - 1
            exp = (B[k], C[k] - C[i])
            ok, got = call("calc_text_pos", S.calc_text_pos, B[i], B[j], col)
            if ok and got != exp:
                if not (isinstance(got, tuple) and len(got) == 2 and all(isinstance(x, int) for x in got)):
                    kind = "not-a-pair"
                elif not B[i] <= got[0] <= B[j]:
                    kind = "pos-out-of-range"
                elif got[0] not in Bidx:
                    kind = "pos-inside-char"
                elif got[1] > col:
                    kind = "col-beyond-target"
                elif got[1] != C[Bidx[got[0]]] - C[i]:
                    kind = "col-not-width-of-prefix"
                else:
                    kind = "stops-early" if got[0] < exp[0] else "overshoots"
                bad("calc_text_pos", kind, f"({B[i]},{B[j]},{col}) = {got!r}, model {exp}", B[i], B[j], col, got, exp)

    for k in pts:
        if k < n:
            for end in sorted({n, min(n, k + 2)}):
                ok, p = call("move_next_char", S.move_next_char, B[k], B[end])
                if ok and p != B[k + 1]:
                    kind = "not-int" if not isinstance(p, int) else "beyond-end" if p > B[end] else "not-advancing" if p <= B[k] else "inside-char" if p not in Bidx else "skips-char"
                    bad("move_next_char", kind, f"({B[k]},{B[end]}) = {p!r}, model {B[k + 1]}", B[k], B[end], p, B[k + 1])
                if ok and isinstance(p, int) and B[k] < p <= B[end]:
                    ok2, q = call("move_prev_char", S.move_prev_char, 0, p)
                    stats["eval:next-prev-inverse"] += 1
                    if ok2 and q != B[k]:
                        bad("next-prev-inverse", "prev(next(s))!=s", f"next({B[k]},{B[end]}) = {p}, prev(0,{p}) = {q!r}", B[k], B[end], p, q)
            ok, got = call("is_wide_char", S.is_wide_char, B[k])
            if ok and got != (cl[k][1] == 2):
                bad("is_wide_char", "true-on-narrow" if got else "false-on-wide", f"({B[k]}) = {got!r}, model width {cl[k][1]}", B[k], got)
        if k > 0:
            for start in sorted({0, max(0, k - 2)}):
                ok, q = call("move_prev_char", S.move_prev_char, B[start], B[k])
                if ok and q != B[k - 1]:
                    kind = "not-int" if not isinstance(q, int) else "before-start" if q < B[start] else "not-retreating" if q >= B[k] else "inside-char" if q not in Bidx else "skips-char"
                    bad("move_prev_char", kind, f"({B[start]},{B[k]}) = {q!r}, model {B[k - 1]}", B[start], B[k], q, B[k - 1])

    if isb and mode == "wide":
        role = bytearray()
        for ch, w, _c in cl:
            role += b"\x01\x02" if w == 2 else b"\x00"
        for pos in sorted({p for k in pts if k < n for p in (B[k], B[k + 1] - 1)}):
            for ls in (0, B[n // 2]):
                if ls <= pos:
                    ok, got = call("within_double_byte", S.within_double_byte, ls, pos)
                    if ok and got != role[pos]:
                        bad("within_double_byte", f"got{got!r}-model{role[pos]}", f"({ls},{pos}) = {got!r}, model {role[pos]}", ls, pos, got)
    if isb and mode == "utf8":
        for k in pts:
            if k >= n:
                continue
            ch, _w, cls = cl[k]
            ok, got = call("decode_one", S.decode_one, B[k])
            if ok and not (isinstance(got, tuple) and len(got) == 2 and got[1] == B[k + 1] and (cls in MALFORMED or got[0] == ord(ch.decode("utf-8")))):
                bad("decode_one", "mismatch", f"({B[k]}) = {got!r}, model next {B[k + 1]}", B[k], got)
            if cls not in MALFORMED:
                ok, got = call("decode_one_right", S.decode_one_right, B[k + 1] - 1)
                exp = (ord(ch.decode("utf-8")), B[k] - 1)
                if ok and got != exp:
                    bad("decode_one_right", "mismatch", f"({B[k + 1] - 1}) = {got!r}, model {exp}", B[k + 1] - 1, got, exp)

    line = C[n]
    cols = sorted({c for c in (0, 1, 2, 3, line // 2 - 1, line // 2, line // 2 + 1, line - 3, line - 2, line - 1, line) if 0 <= c <= line})
    for sc in cols:
        for ec in cols:
            if ec < sc or (sc == ec and sc not in Cset):
                continue
            epl, epr = int(sc not in Cset), int(ec not in Cset)
            ok, got = call("calc_trim_text", U.calc_trim_text, 0, tlen, sc, ec)
            if not ok:
                continue
            if epl or epr:
                stats["eval:calc_trim_text:pad_both" if epl and epr else "eval:calc_trim_text:pad_left" if epl else "eval:calc_trim_text:pad_right"] += 1
            kind = None
            if not (isinstance(got, tuple) and len(got) == 4 and all(isinstance(x, int) for x in got)):
                kind = "not-a-4-tuple"
            else:
                s_, e_, pl, pr = got
                if not (0 <= s_ <= e_ <= tlen):
                    kind = "slice-out-of-range"
                elif s_ not in Bidx or e_ not in Bidx:
                    kind = "slice-inside-char"
                elif pl != epl:
                    kind = "pad_left-spurious" if pl else "pad_left-missing"
                elif pr != epr:
                    kind = "pad_right-spurious" if pr else "pad_right-missing"
                elif (C[Bidx[e_]] - C[Bidx[s_]]) + pl + pr != ec - sc:
                    kind = "total-width"
                elif C[Bidx[s_]] != sc + pl or C[Bidx[e_]] != ec - pr:
                    kind = "slice-misplaced"
            if kind:
                bad("calc_trim_text", kind, f"(0,{tlen},{sc},{ec}) = {got!r}; model pads ({epl},{epr}), line width {line}", 0, tlen, sc, ec, got)
    if isb:
        attr = [(k & 7, len(cl[k][0])) for k in range(n)]
        for sc, ec in ((1, line - 1), (line // 2, line // 2 + 3), (0, line)):
            if not 0 <= sc <= ec <= line or (sc == ec and sc not in Cset):
                continue
            CALLS["trim_text_attr_cs"] += 1
            stats["eval:trim_text_attr_cs"] += 1
            try:
                t2, a2, c2 = U.trim_text_attr_cs(text, attr, [(None, tlen)], sc, ec)
                la, lc = sum(r for _a, r in a2), sum(r for _a, r in c2)
            except Exception as e:  # noqa: BLE001
                bad("trim_text_attr_cs", f"raise:{type(e).__name__}", f"(.., {sc}, {ec}) raised {type(e).__name__}: {str(e)[:80]}", sc, ec)
                continue
            if W.bytes_width(t2, mode) != ec - sc and not any(c in MALFORMED for _ch, _w, c in cl):
                bad("trim_text_attr_cs", "text-width", f"(.., {sc}, {ec}) text of width {W.bytes_width(t2, mode)}, range {ec - sc}", sc, ec)
            elif la != len(t2) or lc != len(t2):
                bad("trim_text_attr_cs", "rle-length", f"(.., {sc}, {ec}) text {len(t2)} bytes, attr runs {la}, cs runs {lc}", sc, ec)

    CALLS["apply_target_encoding"] += 1
    stats["eval:apply_target_encoding"] += 1
    try:
        gb, gruns = U.apply_target_encoding(text)
        gcs = expand_rle(gruns)
    except Exception as e:  # noqa: BLE001
        bad("apply_target_encoding", f"raise:{type(e).__name__}", f"raised {type(e).__name__}: {str(e)[:80]}")
    else:
        model = ate_model_bytes(text) if isb else ate_model_str(text, enc, mode)
        if len(gcs) != len(gb):
            bad("apply_target_encoding", "run-sum!=len", f"runs cover {len(gcs)}, encoded length {len(gb)}")
        elif model is not None and gb != model[0]:
            bad("apply_target_encoding", "encoded-bytes", f"{len(gb)} bytes differ from the model's {len(model[0])}")
        elif model is not None and gcs != model[1]:
            bad("apply_target_encoding", "charset-run", "per-byte charsets differ from the model")
        elif model is not None and not isb and mode != "utf8":
            stats["eval:apply_target_encoding:dec-glyph"] += sum(1 for c in text if ord(c) in DEC_BY_CP)
    return out


def long_report(ctx, api, enc, mode, cls, kind, n, text, stats, short_keys):
    """judge one long text; a mismatch that the 8-character text of the same class shows too does not depend on the
    length and gets len-class=any (one signature per class instead of one per length)"""
    key = (enc, cls, kind)
    if key not in short_keys:
        short_keys[key] = set()
        for c2, t2 in long_texts(mode, enc, 8):
            if c2 == cls and isinstance(t2, bytes) == (kind == "bytes"):
                short_keys[key] |= {(f, kd) for f, kd, _m, _c in judge_long(api, enc, mode, t2, Counter())}
    seen = set()
    for f, kd, msg, call in judge_long(api, enc, mode, text, stats):
        if (f, kd) in seen:
            continue
        seen.add((f, kd))
        lc = "any" if (f, kd) in short_keys[key] else str(n)
        ctx.violation(
            f"C11|{mode}|{kind}|{f}|{kd}|long:{cls}|len-class={lc}",
            f"[{enc}] {msg}",
            {"kind": "long", "enc": enc, "cls": cls, "type": kind, "n": n, "call": call},
        )


def long_inputs(ctx, api, wide_encs):
    """False if the budget ended first"""
    stats = Counter()
    short_keys: dict = {}
    idx = 0
    try:
        for enc in ["utf-8", *wide_encs[:2], "iso-8859-1"]:
            mode = W.mode_of_encoding(enc)
            with Encoding(api, enc):
                for n in (*LONG_LENGTHS[ctx.tier], *((LONG_LENGTHS_BIG,) if ctx.quick else ())):
                    for cls, text in long_texts(mode, enc, n):
                        if ctx.quick and n == LONG_LENGTHS_BIG and cls not in LONG_BIG_CLASSES:
                            continue
                        idx += 1
                        if not ctx.mine(idx):
                            continue
                        if not det_more(ctx):
                            return False
                        kind = "bytes" if isinstance(text, bytes) else "str"
                        ctx.count(f"long_inputs:{mode}:{cls}")
                        ctx.count(f"long_inputs:len={n}")
                        ctx.case(("long", enc, cls, kind, n))
                        long_report(ctx, api, enc, mode, cls, kind, n, text, stats, short_keys)
    finally:
        for k, v in stats.items():
            ctx.count(k, v)
    return True


# ------------------------------------------------------------------ encoding histories
# The active encoding is process-global state reached through set_encoding / set_temporary_encoding calls.  Model:
# after any history the arithmetic, get_encoding_mode() and get_encoding() are those of the LAST requested name alone
# (class by name, independent of the path): mode = W.mode_of_encoding(name); target = name.lower() if Python has such
# a codec else "ascii".  Leaving `with set_temporary_encoding(x)` is a request for the name get_encoding() returned on
# entry (the only thing the API lets a caller save).  A direct str_util.set_byte_encoding(m) is a request for mode m
# that the next set_encoding(name) must override.

HIST_NAMES = [
    "utf-8", "utf8", "utf", "UTF-8",
    "euc-jp", "euc-kr", "euc-cn", "euc-tw", "gb2312", "gbk", "big5", "cn-gb", "uhc", "eucjp", "euckr", "euccn", "euctw", "cncb", "GBK",
    "ascii", "iso8859-1", "iso-8859-15", "latin-1", "koi8-r", "cp437", "cp1252", "ISO-8859-1",
    "x-unknown", "",
]  # fmt: skip
HIST_PROBES = {
    # well-formed in the expected mode (no lone lead bytes: those are known findings), and misread in every other mode
    "narrow": [b"caf\xe9\xe8\xe9 \xfc\xfc", b"\xa4\xa2a\x81", "a\u2500\u6f22"],
    "wide": [b"a\xa4\xa2\xa4\xa2b", b"\x81\x40\xa4\xa2c", "a\u2500\u6f22"],
    "utf8": ["a\u6f22\u0301\u2500".encode(), b"\xc3\xa9\xe6\xbc\xa2z", "a\u2500\u6f22"],
}


def name_class(name: str) -> str:
    low = name.lower()
    mode = W.mode_of_encoding(low)
    if low == "":
        return "empty-name"
    if low == "ascii":
        return "ascii"
    has = codec_of(low) == low
    if mode == "utf8":
        return "utf8"
    if mode == "wide":
        return "wide-codec" if has else "wide-nocodec"
    return "narrow-codec" if has else "unknown-name"


def model_target(name: str) -> str:
    low = name.lower()
    return low if low and codec_of(low) == low else "ascii"


class Baseline:
    """put the three encoding globals into the state a fresh set_encoding('utf-8') produces (assigned directly so that the
    starting point of a history does not depend on set_encoding itself); restore what was there on exit"""

    def __init__(self, api):
        self.api = api

    def __enter__(self):
        S, U = self.api.S, self.api.U
        self.saved = (U._target_encoding, U._use_dec_special, S._byte_encoding)
        U._target_encoding, U._use_dec_special, S._byte_encoding = "utf-8", False, "utf8"
        return self

    def __exit__(self, *exc):
        S, U = self.api.S, self.api.U
        U._target_encoding, U._use_dec_special, S._byte_encoding = self.saved
        return False


_FRESH: dict = {}


def fresh_keys(api, name, mode, text):
    """(function, kind) mismatches of a probe text right after ONE set_encoding(name) from the utf-8 baseline"""
    key = (name.lower(), text)
    if key not in _FRESH:
        with Baseline(api):
            api.U.set_encoding(name)
            _FRESH[key] = frozenset((f, kd) for f, kd, _m, _c in judge_text(api, name.lower(), mode, text, Counter(), lean=True))
    return _FRESH[key]


def run_history(ctx, api, ops, stats, judge_every=True):
    """execute ops from the utf-8 baseline; after every request compare mode / target / arithmetic with the model of the
    last requested name.  ops: ["set", name] | ["temp", name] (a with-block, judged inside and after) | ["raw", mode].
    Returns the number of mismatches reported."""
    S, U = api.S, api.U
    bad = 0

    def check(step, opname, prev_name, name, raw_mode=None):
        nonlocal bad
        exp_mode = raw_mode or W.mode_of_encoding(name)
        trans = f"{name_class(prev_name)}->{name_class(name)}" if raw_mode is None else f"{name_class(prev_name)}->raw-{raw_mode}"
        wit = {"kind": "history", "ops": ops, "step": step}
        got_mode = S.get_byte_encoding()
        stats["enc-history:state-checks"] += 1
        if got_mode != exp_mode or U.get_encoding_mode() != exp_mode:
            bad += 1
            ctx.violation(
                f"C11|encoding-history|{opname}|{trans}|byte-mode|got-{got_mode}-model-{exp_mode}",
                f"after {ops[: step + 1]!r} from a utf-8 baseline get_encoding_mode() = {got_mode!r}; the last requested encoding {name!r} is {exp_mode!r}",
                wit,
            )
        if raw_mode is not None:
            return
        exp_target = model_target(name)
        if U.get_encoding() != exp_target:
            bad += 1
            ctx.violation(
                f"C11|encoding-history|{opname}|{trans}|get_encoding|got-{name_class(U.get_encoding())}-model-{name_class(exp_target)}",
                f"after {ops[: step + 1]!r} from a utf-8 baseline get_encoding() = {U.get_encoding()!r}, model {exp_target!r}",
                wit,
            )
        if not judge_every and step != len(ops) - 1:
            return
        seen = set()
        for text in HIST_PROBES[exp_mode]:
            stats["enc-history:judged-texts"] += 1
            found = judge_text(api, name.lower(), exp_mode, text, stats, lean=True)
            if found:  # only what the PATH adds: a mismatch that a single set_encoding(name) from the baseline shows too is
                # an arithmetic defect of that encoding and is reported by the other phases under its own signature
                found = [x for x in found if (x[0], x[1]) not in fresh_keys(api, name, exp_mode, text)]
            for f, kd, msg, call in found:
                if (f, kd) in seen or len(seen) >= 2:  # one broken state shows up in every function: two examples are enough
                    continue
                seen.add((f, kd))
                bad += 1
                ctx.violation(
                    f"C11|encoding-history|{opname}|{trans}|{f}|{kd}",
                    f"after {ops[: step + 1]!r} from a utf-8 baseline (last requested {name!r}, class {exp_mode}): {msg}",
                    {**wit, "text": text, "call": call},
                )

    with Baseline(api):
        cur = "utf-8"  # the name whose class the state must have now
        for step, op in enumerate(ops):
            kind, arg = op
            try:
                if kind == "set":
                    U.set_encoding(arg)
                    check(step, "set_encoding", cur, arg)
                    cur = arg
                elif kind == "raw":
                    S.set_byte_encoding(arg)
                    check(step, "set_byte_encoding", cur, cur, raw_mode=arg)
                    # target and DEC flag still belong to `cur`; only a following set_encoding is judged for arithmetic
                elif kind == "temp":
                    entry_target = U.get_encoding()
                    with U.set_temporary_encoding(arg):
                        check(step, "set_temporary_encoding-enter", cur, arg)
                    check(step, "set_temporary_encoding-exit", arg, entry_target)
                    cur = entry_target
                else:
                    raise AssertionError(op)
            except Exception as e:  # noqa: BLE001
                bad += 1
                ctx.violation(f"C11|encoding-history|{kind}|raise:{type(e).__name__}", f"{ops[: step + 1]!r}: {type(e).__name__}: {e}", {"kind": "history", "ops": ops, "step": step})
                break
    return bad


def encoding_histories(ctx, api, rng):
    """every ordered (previous name -> name) transition by set_encoding, every (base, temporary name) with-block, every
    (name, raw byte mode) re-selection, then random mixed histories.  False if the budget ended first."""
    stats = Counter()
    idx = 0
    ok = True
    names = HIST_NAMES
    try:
        for a in names:
            for b in names:
                idx += 1
                if not ctx.mine(idx):
                    continue
                if not det_more(ctx):
                    return False
                run_history(ctx, api, [["set", a], ["set", b]], stats)
                stats["enc-history:transitions:set->set"] += 1
                ctx.case(("hist", "set", a, b))
        for a in names:
            for b in names:
                idx += 1
                if not ctx.mine(idx):
                    continue
                if not det_more(ctx):
                    return False
                run_history(ctx, api, [["set", a], ["temp", b]], stats)
                stats["enc-history:transitions:temporary-block"] += 1
                ctx.case(("hist", "temp", a, b))
        for a in names:
            for m in W.MODES:
                idx += 1
                if not ctx.mine(idx):
                    continue
                run_history(ctx, api, [["set", a], ["raw", m], ["set", a]], stats)
                stats["enc-history:transitions:raw-mode-then-reselect"] += 1
                ctx.case(("hist", "raw", a, m))
        for k in range(ctx.pick(60, 600)):
            if not det_more(ctx):
                return False
            ops = []
            for _ in range(rng.randint(3, 8)):
                r = rng.random()
                if r < 0.65:
                    ops.append(["set", rng.choice(names)])
                elif r < 0.9:
                    ops.append(["temp", rng.choice(names)])
                else:
                    ops.append(["raw", rng.choice(W.MODES)])
            run_history(ctx, api, ops, stats)
            stats["enc-history:random-histories"] += 1
            ctx.case(("hist", ops))
            if k == 0:
                ctx.sample({"encoding_history": ops})
    finally:
        for k, v in stats.items():
            ctx.count(k, v)
    return ok


def random_cp(rng, edges):
    r = rng.random()
    if r < 0.25:
        return rng.choice(edges)
    if r < 0.40:
        return rng.randrange(0x20, 0x7F)
    if r < 0.50:
        return rng.randrange(0xA0, 0x800)
    if r < 0.65:
        return rng.choice((rng.randrange(0x800, 0xD800), rng.randrange(0xE000, 0x10000)))
    if r < 0.75:
        return ord(rng.choice(STR_UNITS + STR_UNITS_MORE))
    if r < 0.87:
        return rng.randrange(0x10000, 0x20000)
    if r < 0.92:
        return rng.choice(list(DEC_BY_CP))
    return rng.randrange(0x20000, 0x110000)


def run(ctx):
    warnings.filterwarnings("ignore", category=UnicodeWarning)
    api = Api()
    ctx.extra["decode_one_accepts_encoded_surrogates"] = api.probe_lenient()
    rng = ctx.rng
    edges = W.width_change_points()
    wide_encs = WIDE_ENCODINGS[ctx.tier]
    incomplete = []

    # ---------------- phase 0: directed core (every shard, never cut)
    subrange_core(ctx, api)

    # ---------------- phase 1: code points (budget fractions are cumulative)
    phase = {}
    for k, enc in enumerate(["utf-8", *wide_encs, *NARROW_ENCODINGS]):
        if not sweep_code_points(ctx, api, enc, k, DET_FRAC):
            incomplete.append(f"code-point-sweep:{enc}")
        if k == 0:
            phase["cp-utf8"] = round(time.process_time(), 2)
    phase["cp-all"] = round(time.process_time(), 2)

    # ---------------- phase 2: exhaustive short texts over class representatives
    L = ctx.pick(4, 5)
    with Encoding(api, "utf-8"):
        ses = Session(ctx, api, "utf-8")
        ok = str_and_bytes(ctx, ses, STR_UNITS, L, DET_FRAC, "utf8-str+bytes")
        valid_b = [u.encode() for u in STR_UNITS[:5]]
        units = MAL_UNITS + valid_b
        mal = (b"".join(t) for t in sequences(units, ctx.pick(3, 4)) if any(u in MAL_UNITS for u in t))
        ok = run_texts(ctx, ses, mal, DET_FRAC, "utf8-malformed-units") and ok
        ok = run_texts(ctx, ses, (bytes(t) for t in sequences(UTF8_BYTE_ALPHABET, ctx.pick(3, 4))), DET_FRAC, "utf8-byte-alphabet") and ok
        ok = run_texts(ctx, ses, (b"".join(t) for t in sequences(SHIFT_BYTE_ALPHABET, 5)), DET_FRAC, "shift-bytes") and ok
        ses.flush()
        ctx.sample({"enc": "utf-8", "text": "a\u6f22\u0301\U0001f600", "bytes": "a\u6f22\u0301\U0001f600".encode().hex()})
        if not ok:
            incomplete.append("texts:utf-8")
    for k, enc in enumerate(wide_encs):
        with Encoding(api, enc):
            ses = Session(ctx, api, enc)
            ok = True
            if k == ctx.seed % len(wide_encs):  # the byte-level core is the same code path for every wide encoding
                ok = run_texts(ctx, ses, (bytes(t) for t in sequences(WIDE_BYTE_ALPHABET, ctx.pick(4, 5))), DET_FRAC, "wide-byte-alphabet")
                ok = run_texts(ctx, ses, (b"".join(t) for t in sequences(SHIFT_BYTE_ALPHABET, 4)), DET_FRAC, "shift-bytes") and ok
            ok = str_and_bytes(ctx, ses, WIDE_STR_UNITS[enc], ctx.pick(3, 4), DET_FRAC, f"{enc}-str+bytes") and ok
            ses.flush()
            if not ok:
                incomplete.append(f"texts:{enc}")
    ctx.sample({"enc": "euc-jp", "bytes": b"a\xa4\xa2\xa4".hex(), "note": "ascii, double-byte pair, lone lead byte"})
    for enc in NARROW_ENCODINGS:
        with Encoding(api, enc):
            ses = Session(ctx, api, enc)
            ok = str_and_bytes(ctx, ses, NARROW_STR_UNITS[enc], ctx.pick(3, 4), DET_FRAC, f"{enc}-str+bytes")
            if enc == "iso-8859-1":
                ok = run_texts(ctx, ses, (bytes(t) for t in sequences(NARROW_BYTE_ALPHABET, 4)), DET_FRAC, "narrow-byte-alphabet") and ok
            ses.flush()
            if not ok:
                incomplete.append(f"texts:{enc}")
    for enc in ["utf-8", *wide_encs, *NARROW_ENCODINGS]:
        with Encoding(api, enc):
            ses = Session(ctx, api, enc)
            if not run_texts(ctx, ses, dec_texts(), DET_FRAC, "dec-glyphs"):
                incomplete.append(f"dec-glyphs:{enc}")
            ses.flush()
    if not encoding_histories(ctx, api, ctx.subrng("histories")):
        incomplete.append("encoding-histories")
    if not long_inputs(ctx, api, wide_encs):
        incomplete.append("long-inputs")
    phase["texts"] = round(time.process_time(), 2)
    ctx.extra["cpu_seconds_at_end_of_phase_shard0"] = phase
    ctx.extra["every_unicode_scalar_value_judged_under_utf8"] = (not ctx.quick) and "code-point-sweep:utf-8" not in incomplete
    if incomplete:
        ctx.extra["incomplete_enumerations"] = incomplete
        ctx.inconc("enumeration-cut-by-budget:" + ",".join(incomplete))

    # ---------------- phase 3: random texts (to 6 characters) until the budget ends
    all_encs = ["utf-8", *wide_encs, *NARROW_ENCODINGS]
    rounds = 0
    max_rounds = 0 if os.environ.get("C11_CALIBRATE") else ctx.pick(2_000, 60_000)  # calibration: enumerated phases only
    min_rounds = MIN_RANDOM_ROUNDS[ctx.tier]
    while (ctx.more(0.97) or (rounds < min_rounds and ctx.elapsed() < 4.0 * ctx.budget + 85)) and rounds < max_rounds:
        rounds += 1
        enc = all_encs[rounds % len(all_encs)] if rounds % 3 else "utf-8"
        mode = W.mode_of_encoding(enc)
        with Encoding(api, enc):
            ses = Session(ctx, api, enc)
            for _ in range(40):
                kind = rng.random()
                ln = rng.randint(1, 6)
                if mode == "utf8":
                    if kind < 0.35:
                        s = "".join(chr(random_cp(rng, edges)) for _ in range(ln))
                        texts = [s, s.encode()]
                    elif kind < 0.7:
                        texts = [b"".join(rng.choice(MAL_UNITS) if rng.random() < 0.4 else chr(random_cp(rng, edges)).encode() for _ in range(ln))]
                    else:
                        texts = [bytes(rng.choice(UTF8_BYTE_ALPHABET) if rng.random() < 0.8 else rng.randrange(256) for _ in range(rng.randint(1, 7)))]
                elif mode == "wide":
                    texts = [bytes(rng.choice(WIDE_BYTE_ALPHABET) if rng.random() < 0.6 else rng.randrange(0x20, 0xFF) for _ in range(rng.randint(1, 7)))]
                else:
                    texts = [bytes(rng.randrange(0x20, 0x100) for _ in range(ln))]
                for text in texts:
                    if ses.judge(text) is not None:
                        ses.count_text(text)
                        ctx.count("texts-random")
            ses.flush()

    # ---------------- phase 4: reach window (sys.monitoring makes the calls 3x slower, so only over a fixed small sample)
    S, U = api.S, api.U
    reach.watch(
        S.calc_width, S.calc_text_pos, S.calc_string_text_pos, S.move_next_char, S.move_prev_char, S.is_wide_char, S.within_double_byte,
        S.decode_one, S.decode_one_right, S.get_char_width, S.get_width, U.calc_trim_text, U.trim_text_attr_cs, U.apply_target_encoding,
        U.set_encoding,
    )  # fmt: skip
    for enc, texts in (
        ("utf-8", ["a\u6f22\u0301\u2500", "a\u6f22\u0301\u2500".encode(), b"a\xe3\x81\x80\xff"]),
        ("euc-jp", ["a\u6f22\u2500", "a\u6f22".encode("euc-jp"), b"\xa4\xa2@\x81\x40"]),
        ("iso-8859-1", ["a\u00e9\u2500", b"a\xe9\xff"]),
    ):
        with Encoding(api, enc):
            ses = Session(ctx, api, enc)
            for _ in range(12):
                for t in texts:
                    ses.judge(t, register=False)
            ses.flush()
    reach.flush(ctx)
    for k, v in CALLS.items():
        ctx.count(f"call:{k}", v)
    CALLS.clear()
    ctx.extra["clauses"] = CLAUSES.strip().splitlines()


def replay(ctx, wit):
    warnings.filterwarnings("ignore", category=UnicodeWarning)
    api = Api()
    api.probe_lenient()
    if wit.get("kind") == "subrange":
        subrange_core(ctx, api)
        return
    if wit.get("kind") == "long":
        enc = wit["enc"]
        mode = W.mode_of_encoding(enc)
        stats = Counter()
        with Encoding(api, enc):
            for cls, text in long_texts(mode, enc, wit["n"]):
                kind = "bytes" if isinstance(text, bytes) else "str"
                if cls != wit["cls"] or kind != wit["type"]:
                    continue
                long_report(ctx, api, enc, mode, cls, kind, wit["n"], text, stats, {})
        for k, v in stats.items():
            ctx.count(k, v)
        return
    if wit.get("kind") == "history":
        stats = Counter()
        run_history(ctx, api, wit["ops"], stats)
        for k, v in stats.items():
            ctx.count(k, v)
        return
    enc = wit["enc"]
    with Encoding(api, enc):
        if wit.get("kind") == "mode":
            mode = W.mode_of_encoding(enc)
            if api.S.get_byte_encoding() != mode:
                ctx.violation(f"C11|set_encoding|mode|{mode}", f"set_encoding({enc!r}) selected {api.S.get_byte_encoding()!r}", wit)
            return
        ses = Session(ctx, api, enc)
        text = wit["text"]
        ses.judge(text)
        if isinstance(text, str) and all(cp_in_alphabet(ord(c), enc, ses.mode) is not None for c in text):
            b = text.encode(codec_of(enc))
            fb = ses.judge(b)
            ws, wb = api.S.calc_width(text, 0, len(text)), api.S.calc_width(b, 0, len(b))
            if ws != wb and not fb:
                shape = f"cp:{cp_class(ord(text))}" if len(text) == 1 else "text"
                ctx.violation(f"C11|{ses.mode}|str-bytes-agree|calc_width|{shape}", f"[{enc}] calc_width({text!r}) = {ws}, calc_width({b!r}) = {wb}", wit)
        ses.flush()
