"""C09 cursor position and mouse hit-testing agree with what is drawn.

Trees of real urwid containers/decorations are built from JSON recipes around spy leaves that fill
their canvas with an instance-unique glyph and log every mouse_event / move_cursor_to_coords call.
The root canvas is read back as a grid of characters; where a leaf is drawn, and therefore where its
top-left corner is, is *read off the canvas* and compared with the three other views of the geometry
(get_cursor_coords, mouse_event translation, move_cursor_to_coords translation).
"""

from __future__ import annotations

import json
import time
import warnings

import urwid
import urwid.widget.widget as _ww

from vmon import reach
from vmon.gen import c09_trees as T
from vmon.monitors import c09_spies as S

PROPERTY = "C09"
LEVEL = "exploration"
SHARDS = {"quick": 8, "thorough": 16}
BUDGET = {"quick": 20.0, "thorough": 390.0}
REQUIRE = {
    # oracle evaluations per clause (quick observes >= 10x these)
    "cases_judged": 150,
    "c1_cursor_evals": 500,
    "c1_cursor_evals_on_chain": 300,
    "c1_cursor_evals_not_none": 300,
    "c2_mouse_cells": 4000,
    "c2b_button1_cells": 300,
    "c3_move_evals": 500,
    "c3_move_accepted_row_checked": 300,
    "c3_move_refused_agreed": 100,
    # size histories: probing preceded by touches of the same tree at other sizes with the canvas cache enabled
    "hist_cases_judged": 100,
    "hist_cases_probed_in_post_history_state": 80,
    "hist_cases_rerender_variant": 30,
    "hist_cases_no_rerender_variant": 30,
    "hist_touches": 150,
    "hist_rerender_served_from_cache": 20,
    "c1_cursor_evals_after_history": 150,
    "c2_mouse_cells_after_history": 1500,
    "c2b_button1_cells_after_history": 100,
    "c3_move_evals_after_history": 150,
    # clause 1 through the cache right after an action on the same tree (no harness re-render in between)
    "c1_cursor_evals_after_press": 300,
    "c1_cursor_evals_after_move": 300,
    "c1_cursor_evals_after_key": 300,
    "keys_pressed": 200,
    "keys_handled": 30,
    # the pressed selectable leaf is the one whose cursor the root reports
    "c4_press_cursor_evals": 150,
    # accepted moves onto real Edit leaves: cursor row judged (captions that wrap included)
    "c3_edit_accepted_row_checked": 60,
    # round 4: probing before any render has filled the cache; unusual options; masked / multiline Edits
    "cold_cases_judged": 60,
    "c1_cursor_evals_before_render": 300,
    "c2_mouse_cells_before_render": 1000,
    "c3_move_evals_before_render": 150,
    "c4_edit_press_row_evals": 40,
    "judged_with:Pile-weight0": 8,
    "judged_with:Edit-masked-comb": 3,
    "judged_with:Edit-masked-wide": 2,
    "judged_with:Edit-multiline": 3,
    "judged_with:Edit-long-caption": 8,
    # round 6: zero-width columns, Overlays used as flow / fixed widgets, fixed Padding with a given width, replaced decoration children
    "judged_with:Columns-zero-width-column": 20,
    "judged_with:Columns-interior-zero-width-column-with-dividers": 8,
    "judged_root:Overlay:flow": 8,
    "judged_root:Overlay:fixed": 4,
    "judged_with:Padding-given-width": 20,
    "judged_with:Padding-given-width-as-fixed": 4,
    "judged_root:Padding:fixed": 8,
    "judged_with:decoration-child-replaced": 10,
    # round 9: directed core -- every row of a Filler box
    "c5_filler_configs_judged": 100,
    "c5_filler_child_row_moves": 500,
    "c5_filler_filler_row_moves": 2000,
    # round 7: the same widget OBJECT at several positions of one container
    "judged_with:shared-widget-object": 30,
    "c2_mouse_cells_on_shared_widget_objects": 300,
    # round 5: spy leaves whose geometry depends on the focus ARGUMENT
    "judged_with:focus-dependent-rows": 30,
    "judged_with:focus-dependent-width": 15,
    # every container/decoration of the statement was part of judged cases
    **{f"judged_with:{k}": 8 for k in ("Pile", "Columns", "Frame", "Filler", "Padding", "Overlay", "BoxAdapter", "LineBox", "AttrMap", "GridFlow", "ListBox", "Edit")},
    # mechanism functions reached
    **{
        f"reach:widget.{m}": 20
        for m in (
            "pile.Pile.mouse_event",
            "pile.Pile.move_cursor_to_coords",
            "pile.Pile.get_cursor_coords",
            "columns.Columns.mouse_event",
            "columns.Columns.move_cursor_to_coords",
            "columns.Columns.get_cursor_coords",
            "frame.Frame.mouse_event",
            "filler.Filler.mouse_event",
            "filler.Filler.move_cursor_to_coords",
            "filler.Filler.get_cursor_coords",
            "padding.Padding.mouse_event",
            "padding.Padding.move_cursor_to_coords",
            "padding.Padding.get_cursor_coords",
            "overlay.Overlay.mouse_event",
            "box_adapter.BoxAdapter.mouse_event",
            "box_adapter.BoxAdapter.move_cursor_to_coords",
            "grid_flow.GridFlow.mouse_event",
            "listbox.ListBox.mouse_event",
            "edit.Edit.move_cursor_to_coords",
        )
    },
    "reach:widget.frame.Frame.get_cursor_coords": 5,
    "reach:widget.overlay.Overlay.get_cursor_coords": 5,
    "reach:widget.listbox.ListBox.get_cursor_coords": 5,
    "reach:widget.grid_flow.GridFlow.move_cursor_to_coords": 5,
    "reach:canvas.Canvas.translate_coords": 1000,
}
RULE = (
    "seeded random JSON recipes over Pile/Columns/Frame/Filler/Padding/Overlay/BoxAdapter/LineBox/AttrMap/GridFlow/ListBox/"
    "Scrollable/ScrollBar around flow/box/fixed spy leaves and real Edit/SelectableIcon/Button/CheckBox leaves, depth<=3 (quick) / "
    "<=5 (thorough), root rendered as box/flow/fixed at estimate+slack sizes; every subtree of a judged case is re-rooted at the "
    "size it was observed to be handed and judged as its own case; ~45% of the non-fixed cases carry a SIZE HISTORY: after the observing "
    "render at S (canvas kept alive, canvas cache enabled, spy leaves cacheable) the same tree is touched 1-3 times at other sizes "
    "(render / rows / get_cursor_coords / pack at cols half,double,-3..+7, rows half,-1,+1,+3), then (variant) rendered at S again "
    "(normally a cache hit), and only then probed at S against the canvas for S; the history is re-applied after every re-observation; "
    "a case = (recipe, size, focus, history); distinct = distinct such tuples; "
    "non-trivial = fit precondition observed (every leaf fully visible on the root canvas, no WidgetWarning) and >=1 leaf cell judged"
)
ASSUMES = [
    "fit precondition is established by observation of one focused render with the canvas cache cleared: every leaf rendered at exactly one "
    "size and its full glyph rectangle visible on the root canvas (leaves below an Overlay's bottom may be partly covered by the top widget "
    "but their bounding box must be intact); no widget's canvas larger than its parent's, stacked/joined children not adding up to more than "
    "the parent (Pile/ListBox/Frame rows, Columns cols, LineBox borders); no urwid WidgetWarning; rows of the root canvas all equally wide. "
    "Everything else is skipped_precondition; exceptions in that first render are skipped_render_error (C01/C02 domain)",
    "only cells on which a leaf is drawn are judged (blank fill, dividers, borders, scrollbars are not)",
    "Overlay: bottom_w is an inert backdrop by documented design ('Pass event to top_w, ignore if outside of top_w'), so an event on a visible "
    "bottom-leaf cell that reaches no leaf is not judged (counter c2_overlay_bottom_inert); reaching a *different* leaf would still be a violation",
    "hit-testing uses non-focus-changing events (press 2/3, release, drag, ctrl press); button-1 presses are judged for delivery only, each on a freshly built tree",
    "the size argument a leaf receives with a mouse event is not part of the statement: a size different from the rendered one is counted "
    "(c2_leaf_got_size_other_than_rendered), not judged",
    "clause 1 is evaluated for every container/decoration of the tree at the size it was observed to be handed (on and off the focus chain; "
    "separate counters), except where a container below it on its focus chain lacks get_cursor_coords (Scrollable, ScrollBar: outside the quantifier)",
    "clause 3 is judged at the root only (every subtree is re-rooted and judged as its own case), only where the whole path root..leaf implements "
    "move_cursor_to_coords (no Frame/ListBox/Overlay/Scrollable/ScrollBar on the path) and the leaf is selectable and implements the cursor "
    "protocol (spy: acceptance known from its predicate) or is an Edit (acceptance = the Edit's own logged answer; if it was not asked, rows on "
    "which it has a cursor position under plain character wrapping count as accepted; the cursor row is judged on such rows only)",
    "real leaves: only their glyph cells are judged; top-left = first glyph cell minus the documented label offset (Button '< ' 2, CheckBox '[ ] ' 4); "
    "Button/CheckBox narrower than 5 columns count as clipped",
    "a non-selectable spy never shows or reports a cursor (urwid containers do not report cursors of non-selectable children)",
    "round 4: ~28% of the cases are probed 'before render': the canvas cache is emptied before every get_cursor_coords / mouse_event / "
    "move_cursor_to_coords call and no canvas is kept, so containers must compute their children's geometry themselves (rows()/pack() "
    "not answered from cached canvases); a disagreement that shows only then carries '|before-render'. A container whose computed rows() "
    "differs from the rows it renders is no longer a domain filter (it was in round 2, for a since-fixed Pile defect): it is judged, and "
    "only counted as cases_with_rows_method_disagreeing_with_rendered_rows",
    "after a button-1 press (fresh tree), after each accepted move_cursor_to_coords and after each navigation key, clause 1 is evaluated "
    "WITHOUT a harness re-render: the canvases of the previous render are alive and the cache is enabled, so render(size, True) is what a "
    "screen redraw would show (kind suffix :after-press / :after-move / :after-key); what a key does is C08's business and exceptions from "
    "keypress are not judged",
    "c4: if a button-1 press is delivered to a selectable leaf that has a cursor and every container on the path moves the focus on a "
    "press (no Scrollable/ScrollBar, not an Overlay's bottom), the root must report the leaf's own cursor translated by the leaf's top-left "
    "as read off a fresh render",
    "round 5: ~25% of the flow / fixed spies have geometry that depends on the focus ARGUMENT (rows(size, focus) / pack(size, focus) / "
    "render(size, focus); flow: extra rows, narrower-or-wider pack width; fixed: extra cols/rows when focused); get_cursor_coords and "
    "move_cursor_to_coords have no focus argument and answer for the focused geometry. For trees with such leaves: clause 3 is judged only "
    "below containers that were rendered in focus (urwid's containers 'guess focus==True' there by documented FIXME), the cursor row after "
    "an accepted move is judged only if the target leaf's rectangle did not change, clause 1 is judged for containers on the focus chain "
    "only, and the after-press/move/key clause-1 checks first re-establish the fit precondition by a fresh render. A disagreement that "
    "disappears when those leaves are made ordinary carries '|focus-dependent-geometry' (kind collapsed to its family)",
    "size histories may contain key presses and button-1 presses at the other size; these legitimately change what is drawn, so the tree "
    "is observed afresh at the probe size afterwards (what carries over is widget state such as ListBox offsets, not canvases)",
    "round 6: 'Empty' leaves (urwid.Text(\"\"), packing to 0 columns) give Columns hidden zero-width columns; they draw nothing and are not "
    "judged leaves. Leaves of an Overlay's backdrop whose rectangle cannot be read off the canvas (covered by the top widget) no longer "
    "disqualify the case, they are just not judged. Decorations may be built around a non-selectable placeholder and get their real child "
    "by assigning original_widget ('swap'). Signature classifier: a violation that the shrinking run reproduces and that disappears when "
    "(a) focus-dependent leaves are made ordinary, (b) assigned children are passed to the constructor instead, (c) zero-width columns "
    "are removed, (d) the size history / before-render mode is dropped, is tagged |focus-dependent-geometry, |child-replaced, "
    "|zero-width-column, |after-other-size / |before-render (first that applies) with its kind collapsed to the family; everything "
    "blamed on a fixed-size Padding with a given width is filed under |given-width-as-fixed",
    "round 7: a container item may be {'k': 'same', 'of': i}: the widget OBJECT of sibling i at a further position (Pile, Columns, GridFlow "
    "cells, ListBox walker, Frame footer = header). Leaves are then identified by glyph AND position: the glyph pattern of the leaf "
    "rendered alone is laid over the canvas in reading order, one rectangle per occurrence (all occurrences must have been rendered at one "
    "size); events, moves and presses are judged against the occurrence under the cell; the focus chain follows focus_position. A violation "
    "that vanishes when each position gets an object of its own is tagged |shared-widget-object and names the container(s) holding the "
    "repeated object",
    "round 9, directed core (never skipped, 160 configurations per run): Filler directly around one selectable cursor spy x valign "
    "{top, middle, bottom, relative 30/70} x (top, bottom) padding x body {flow pack, box given, box relative, flow with checker acceptance} "
    "x two sizes; move_cursor_to_coords at every row and three columns, each on a freshly built tree. Rows on which the spy is drawn: as "
    "clause 3. Rows of the top/bottom filler have no correspondingly translated cell: the move must be refused, the spy must not be "
    "asked (never for a row outside its own rows) and get_cursor_coords must not change (clause tag c5)",
    "a fixed spy raises ValueError when handed a non-() size, like urwid's own fixed-only widgets raise WidgetError",
    "size histories: the fit precondition is established at the probe size S only; the other sizes need not fit and exceptions raised while "
    "touching them are counted, not judged; if rendering at S after the history shows another picture than the canvas kept for S (scroll "
    "state moved), the tree is observed afresh and probed without stale state (hist_changed_picture_reobserved). A disagreement that needs "
    "the history carries '|after-other-size' in its signature, the kind collapsed to its family (event-misrouted / move-misrouted), c2b "
    "merged into c2 and the leaf class dropped",
]

CELL_CAP = {"quick": 260, "thorough": 500}
MOVE_CAP = {"quick": 60, "thorough": 140}
EVENTS = [("mouse press", 2), ("mouse release", 0), ("mouse press", 3), ("mouse drag", 2), ("ctrl mouse press", 2)]


# ----------------------------------------------------------------------------- observation
class Obs:
    """one focused render of a freshly built (or current) tree, read back as a character grid"""

    def __init__(self):
        self.ok = False
        self.reason = ""
        self.grid = None
        self.cursor = None
        self.rects = {}  # sid -> (left, top, cols, rows)
        self.cellmap = {}  # (c, r) -> leaf node
        self.sizes = {}  # id(widget) -> size it was rendered at (last)
        self.dims = {}  # id(widget) -> (cols, rows) of the canvas it produced
        self.rows_disagree = False
        self.occ = {}  # sid -> [(left, top, cols, rows)] one per position at which the leaf's widget object is drawn (reading order)
        self.cellocc = {}  # (c, r) -> index into occ[sid] (absent = 0)
        self.occluded = set()  # leaves of an Overlay's backdrop whose rectangle cannot be read off the canvas: not judged
        self.after_history = False  # probing follows a history of touches at other sizes (cache enabled)
        self.keep = None
        self.canvas = None  # the root canvas for this size ("what is on screen"); keeping it keeps the cache entries alive
        self.cols = self.rows = 0


def rect_at(o, cell):
    """rectangle of the occurrence of the leaf that is drawn at `cell`"""
    lf = o.cellmap[cell]
    return o.occ[lf.sid][o.cellocc.get(cell, 0)]


def read_grid(canv):
    rows = []
    for segs in canv.content():
        b = b"".join(t for _a, _cs, t in segs)
        rows.append(b.decode("utf-8"))
    return rows


def under_overlay_bottom(leaf) -> bool:
    n = leaf
    while n is not None:
        if n.role == "bottom":
            return True
        n = n.parent
    return False


def containers_clipped(root, dims):
    """fit precondition, container level, by observation of the canvases actually rendered: no widget's canvas is
    larger than its parent's, and stacked / joined children do not add up to more than the parent shows"""
    for n in root.walk():
        if n.is_leaf():
            continue
        pd = dims.get(id(n.w))
        if pd is None:
            continue
        cds = [dims.get(id(c.w)) for c in n.children]
        cds = [d for d in cds if d is not None]
        for d in cds:
            if d[0] > pd[0] or d[1] > pd[1]:
                return "container_child_larger_than_parent"
        if n.kind in ("Pile", "ListBox", "Frame") and sum(d[1] for d in cds) > pd[1]:
            return "container_children_taller_than_parent"
        if n.kind == "Columns" and sum(d[0] for d in cds) + n.recipe.get("div", 0) * max(0, len(cds) - 1) > pd[0]:
            return "container_children_wider_than_parent"
        if n.kind == "LineBox" and cds:
            sd = n.recipe.get("sides", "tlrb")
            if cds[0][0] + ("l" in sd) + ("r" in sd) > pd[0] or cds[0][1] + ("t" in sd) + ("b" in sd) > pd[1]:
                return "container_linebox_border_clipped"
    return ""


def rows_disagree(root, seen, dims, focus):
    """C01's contract as part of the domain: a flow widget whose rows() (computed, not answered from the canvas cache) differs
    from the rows of the canvas it just rendered gives its parent two different geometries depending on what is cached --
    'the rows it needs' is then undefined.  Such trees belong to C01 and are not judged here."""
    chain = {id(n) for n in focus_chain(root)} if focus else set()
    for n in root.walk():
        sz = seen.get(id(n.w))
        d = dims.get(id(n.w))
        if n.is_leaf() or sz is None or d is None or len(sz) != 1:
            continue
        f = type(n.w).rows
        while hasattr(f, "__wrapped__"):
            f = f.__wrapped__
        try:
            with warnings.catch_warnings():
                warnings.simplefilter("ignore")
                r = f(n.w, sz, id(n) in chain)
        except Exception:  # noqa: BLE001
            continue
        if r != d[1]:
            return "rows_method_disagrees_with_rendered_rows"
    return ""


def observe(root, size, log, focus=True) -> Obs:
    o = Obs()
    seen = {}
    dims = {}
    orig_validate = _ww.validate_size

    def spy_validate(widget, sz, canv):
        orig_validate(widget, sz, canv)
        seen[id(widget)] = tuple(sz)
        dims[id(widget)] = (canv.cols(), canv.rows())

    leaves = root.leaves()
    for lf in leaves:
        lf.w.last_size = None
        lf.w.last_dims = None
    del log[:]
    urwid.CanvasCache.clear()
    _ww.validate_size = spy_validate
    try:
        with warnings.catch_warnings(record=True) as ws:
            warnings.simplefilter("always")
            try:
                canv = root.w.render(size, focus)
            except Exception as e:  # noqa: BLE001
                o.reason = f"render_error:{type(e).__name__}"
                return o
    finally:
        _ww.validate_size = orig_validate
    if any(issubclass(w.category, urwid.widget.WidgetWarning) for w in ws):
        o.reason = "widget_warning"
        return o
    o.sizes = seen
    o.dims = dims
    why = containers_clipped(root, dims)
    if why:
        o.reason = why
        return o
    # not a domain filter any more (round 4): a container whose computed rows() differs from what it renders gives its parent
    # one geometry before a render and another after it, which is exactly a disagreement of the views -- judged, only noted here
    o.rows_disagree = bool(rows_disagree(root, seen, dims, focus))
    try:
        grid = read_grid(canv)
    except UnicodeDecodeError:
        o.reason = "unreadable"
        return o
    except Exception as e:  # noqa: BLE001  (canvas composition failing lazily in content(): C02 domain)
        o.reason = f"render_error:content:{type(e).__name__}"
        return o
    o.cols, o.rows = canv.cols(), canv.rows()
    if any(len(r) != o.cols for r in grid) or len(grid) != o.rows:
        # rows of different width (e.g. a fixed-size Pile of children of different widths): C01 domain
        o.reason = "ragged_canvas"
        return o
    o.grid = grid
    o.canvas = canv
    o.cursor = canv.cursor
    # sizes each leaf was rendered at during this root render
    rsizes = {}
    for e in log:
        if e[0] == "render":
            rsizes.setdefault(e[1], set()).add(e[2])
    where = {}
    for y, row in enumerate(grid):
        for x, ch in enumerate(row):
            where.setdefault(ch, []).append((x, y))
    for lf in leaves:
        cells = where.get(lf.glyph)
        if under_overlay_bottom(lf):
            # an Overlay's backdrop may be covered by the top widget (occluded by design, not clipped for lack of space): such a
            # leaf is simply not judged unless its rectangle can still be read off the canvas
            ok_here = bool(cells) and lf.sid in rsizes and len(rsizes[lf.sid]) == 1
            if ok_here and lf.kind == "spy":
                cols, rows = lf.w.last_dims
                xs = [c[0] for c in cells]
                ys = [c[1] for c in cells]
                ok_here = (max(xs) - min(xs) + 1, max(ys) - min(ys) + 1) == (cols, rows)
            elif ok_here:
                r_ = lf.recipe
                ok_here = len(cells) == r_["len"] + (r_.get("cap", 0) if lf.kind == "Edit" else 0)
            if not ok_here:
                o.occluded.add(lf.sid)
                continue
        if not cells or lf.sid not in rsizes:
            o.reason = "leaf_hidden"
            return o
        if len(rsizes[lf.sid]) != 1:
            o.reason = "leaf_rendered_at_several_sizes"
            return o
        mult = lf.multiplicity()
        if mult > 1:
            # the same widget OBJECT sits at several positions: its glyph is drawn once per occurrence.  The occurrences are told
            # apart by position: the pattern of glyph cells of the leaf rendered alone is laid over the canvas in reading order
            occ = tile_occurrences(lf, cells)
            if occ is None or len(occ) != mult:
                o.reason = "leaf_clipped"
                return o
            o.occ[lf.sid] = occ
            o.rects[lf.sid] = occ[0]
            for k, (ox, oy, _c, _r, block) in enumerate(occ):
                for c in block:
                    o.cellmap[c] = lf
                    o.cellocc[c] = k
            o.occ[lf.sid] = [t[:4] for t in occ]
            o.rects[lf.sid] = o.occ[lf.sid][0]
            continue
        if lf.kind == "spy":
            cols, rows = lf.w.last_dims
            x0 = min(c[0] for c in cells)
            x1 = max(c[0] for c in cells)
            y0 = min(c[1] for c in cells)
            y1 = max(c[1] for c in cells)
            if (x1 - x0 + 1, y1 - y0 + 1) != (cols, rows):
                o.reason = "leaf_clipped"
                return o
            if len(cells) != cols * rows and not under_overlay_bottom(lf):
                o.reason = "leaf_clipped"
                return o
            o.rects[lf.sid] = (x0, y0, cols, rows)
        else:
            r = lf.recipe
            nglyph = r["len"] + (r.get("cap", 0) if lf.kind == "Edit" else 0)
            if nglyph == 0:
                o.reason = "leaf_hidden"
                return o
            if len(cells) != nglyph:
                o.reason = "leaf_clipped"
                return o
            fx, fy = min(cells, key=lambda c: (c[1], c[0]))
            left = fx - S.REAL_LABEL_OFFSET[lf.kind]
            if lf.kind in ("Button", "CheckBox") and (not lf.w.last_size or lf.w.last_size[0] < 5):
                # narrower than "< x >" / "[ ] x": the decoration itself does not fit
                o.reason = "leaf_clipped"
                return o
            if left < 0:
                o.reason = "leaf_clipped"
                return o
            o.rects[lf.sid] = (left, fy, lf.w.last_size[0] if lf.w.last_size else None, None)
        o.occ[lf.sid] = [o.rects[lf.sid]]
        for c in cells:
            o.cellmap[c] = lf
    o.ok = True
    return o


def tile_occurrences(lf, cells):
    """[(left, top, cols, rows, cells-of-this-occurrence)] in reading order, or None if the drawn cells are not whole copies"""
    try:
        with warnings.catch_warnings():
            warnings.simplefilter("ignore")
            alone = lf.w.render(lf.w.last_size, False)
        grid = read_grid(alone)
    except Exception:  # noqa: BLE001
        return None
    pat = sorted(((x, y) for y, row in enumerate(grid) for x, ch in enumerate(row) if ch == lf.glyph), key=lambda c: (c[1], c[0]))
    if not pat:
        return None
    if lf.kind == "spy":
        cols, rows = alone.cols(), alone.rows()
    else:
        cols, rows = (lf.w.last_size[0] if lf.w.last_size else None), None
    remaining = set(cells)
    out = []
    while remaining:
        c0 = min(remaining, key=lambda c: (c[1], c[0]))
        ox, oy = c0[0] - pat[0][0], c0[1] - pat[0][1]
        block = {(ox + x, oy + y) for x, y in pat}
        if ox < 0 or oy < 0 or not block <= remaining:
            return None
        remaining -= block
        out.append((ox, oy, cols, rows, block))
    return out


# ----------------------------------------------------------------------------- helpers
def node_desc(n, child=None) -> str:
    """abstract shape of a node for signatures (no numbers)"""
    r = n.recipe
    k = n.kind

    def typ(v):
        if isinstance(v, int):
            return "given"
        if isinstance(v, (list, tuple)):
            return str(v[0])
        return str(v)

    if k == "spy":
        return "spy"
    if k in ("Edit", "Icon", "Button", "CheckBox"):
        return "real"
    if k == "Padding":
        return f"Padding[w={typ(r.get('width', ['relative', 100]))}]"
    if k == "Overlay":
        role = child.role if child is not None else "?"
        top = "fixed" if r["width"] == "pack" else ("flow" if r["height"] == "pack" else "box")
        return f"Overlay[top={top},child={role}]"
    if k == "Frame":
        return f"Frame[child={child.role if child is not None else '?'},fp={r.get('fp', 'body')}]"
    if k == "ScrollBar":
        return f"ScrollBar[{r.get('side', 'right')}]"
    if k in ("Pile", "Columns"):
        opt = "?"
        if child is not None:
            for (o, _c), cn in zip(r["items"], n.children):
                if cn is child:
                    opt = o[0]
        return f"{k}[item={opt}]"
    if k == "LineBox":
        return f"LineBox[{r.get('sides', 'tlrb') or 'none'}]"
    return k


def exc_kind(e) -> str:
    """abstract kind of an exception for signatures: a child complaining about the *size* it was handed is
    one mechanism whatever exception class the child happens to use"""
    m = str(e)
    if (
        "values to unpack" in m
        or "fixed spy handed size" in m
        or "Cannot pack" in m
        or "this is not a flow widget" in m
        or "is not a box widget" in m
    ):
        return "child-rejects-size"
    return type(e).__name__


def mode_of(size) -> str:
    return {0: "fixed", 1: "flow", 2: "box"}[len(size)]


def focus_chain(root):
    """nodes on the focus chain, root first, judged by asking urwid only for `.focus`"""
    out = []
    n = root
    while n is not None:
        out.append(n)
        if n.is_leaf() or not n.children:
            break
        if len(n.children) == 1 and n.kind not in ("Pile", "Columns", "GridFlow", "ListBox"):
            n = n.children[0]
            continue
        if n.kind == "Overlay":
            n = n.children[0]
            continue
        try:
            f = n.w.focus
        except Exception:  # noqa: BLE001
            break
        nxt = None
        for c in n.children:
            if c.w is f:
                nxt = c
        fp = None
        if n.kind in ("Pile", "Columns", "GridFlow", "ListBox"):
            try:
                fp = n.w.focus_position
            except Exception:  # noqa: BLE001
                fp = None
        if isinstance(fp, int) and 0 <= fp < len(n.children) and n.children[fp].w is f:
            nxt = n.children[fp]  # the same object may sit at several positions: the focus is a position
        if nxt is not None and nxt.kind == "same":
            nxt = nxt.target  # another occurrence of that sibling's widget: the focus chain continues inside the one object
        n = nxt
    return out


def child_toward(anc, leaf):
    n = leaf
    while n is not None and n.parent is not anc:
        n = n.parent
    return n


def edit_rows_with_position(r, width):
    """rows (leaf-local) on which an Edit with glyph-only caption/text has a cursor position under
    plain character wrapping at `width` columns"""
    cap, ln = r.get("cap", 0), r["len"]
    if r.get("wrap", "any") == "clip" or not width:
        return {0}
    return {(cap + p) // width for p in range(ln + 1)}


# ----------------------------------------------------------------------------- size histories
TOUCH_OPS = ("render", "render", "rows", "cursor", "pack", "key", "key", "press")
TOUCH_KEYS = ("down", "down", "up", "page down", "page up", "right", "left", "end", "home")
TOUCH_DELTAS = ("half", "half", "double", -1, -2, -3, 1, 2, 4, 7)


def gen_history(rng):
    """a short history of touching the SAME tree at other sizes before probing at the case's size; sizes are
    transforms of the probe size so that the history is meaningful for any (re-rooted) tree"""
    n = rng.choice([1, 1, 2, 2, 3])
    touch = [{"op": rng.choice(TOUCH_OPS), "dc": rng.choice(TOUCH_DELTAS + (0, 0)), "dr": rng.choice((0, 0, "half", "half", -1, -2, 1, 3))} for _ in range(n)]
    for t in touch:
        if t["op"] == "key":
            t["key"] = rng.choice(TOUCH_KEYS)
        elif t["op"] == "press":
            t["at"] = [rng.randint(0, 40), rng.randint(0, 30)]
    return {"touch": touch, "rerender": rng.random() < 0.5, "c3_first": rng.random() < 0.4}


def _tr(v, d):
    if d == "half":
        return max(1, v // 2)
    if d == "double":
        return v * 2
    return max(1, v + d)


def other_size(size, t):
    if not size:
        return None
    s2 = (_tr(size[0], t["dc"]),) + tuple(_tr(v, t["dr"]) for v in size[1:])
    return None if s2 == tuple(size) else s2


def apply_history(ctx, root, o, size, focus, hist, log):
    """Touch the tree at other sizes with the canvas cache ENABLED and the canvas for `size` (o.canvas) kept alive, then
    (variant) render at `size` again, which is now normally served from the cache.  Returns True if the canvas for `size`
    is still what would be shown (so o stays valid), False if the history changed what is drawn at `size`."""
    leaves = root.leaves()
    saved = {lf.sid: (lf.w.last_size, lf.w.last_dims) for lf in leaves}
    keep = [o.canvas]
    ok = True
    with warnings.catch_warnings():
        warnings.simplefilter("ignore")
        for t in hist["touch"]:
            s2 = other_size(size, t)
            if s2 is None:
                continue
            w = root.w
            try:
                op = t["op"]
                if op == "rows" and len(s2) == 1:
                    w.rows(s2, focus)
                elif op == "cursor" and hasattr(w, "get_cursor_coords"):
                    w.get_cursor_coords(s2)
                elif op == "pack":
                    w.pack(s2, focus)
                elif op == "key":
                    # a real scroll / focus move while the tree has the other size (what a user does before a resize)
                    keep.append(w.render(s2, focus))
                    if w.selectable():
                        w.keypress(s2, t.get("key", "down"))
                elif op == "press":
                    keep.append(w.render(s2, focus))
                    at = t.get("at", [0, 0])
                    w.mouse_event(s2, "mouse press", 1, at[0] % s2[0], at[1] % (s2[1] if len(s2) > 1 else max(1, keep[-1].rows())), focus)
                else:
                    keep.append(w.render(s2, focus))
                ctx.count("hist_touches")
                ctx.count("hist_touch:" + op)
            except Exception:  # noqa: BLE001  (the other size need not fit: not judged)
                ctx.count("hist_touch_raised_not_judged")
        if any(t["op"] in ("key", "press") for t in hist["touch"]):
            # keys / presses at the other size legitimately change what is drawn (focus, scroll position): the screen is redrawn
            # at the probe size afterwards -- the caller observes afresh; what is carried over is widget state, not canvases
            ok = False
        elif hist.get("rerender"):
            try:
                c = root.w.render(size, focus)
                if c is o.canvas:
                    ctx.count("hist_rerender_served_from_cache")
                elif read_grid(c) != o.grid or c.cursor != o.cursor:
                    ok = False
                else:
                    ctx.count("hist_rerender_rebuilt_same_picture")
                    keep.append(c)
            except Exception:  # noqa: BLE001
                ok = False
    for lf in leaves:
        lf.w.last_size, lf.w.last_dims = saved[lf.sid]
    del log[:]
    o.keep = keep
    return ok


# ----------------------------------------------------------------------------- one case
class Case:
    def __init__(self, ctx, recipe, size, collect, focus=True, hist=None):
        # hist = None | {"touch": [...], ...} (size history) | {"cold": True} (every probe is made with the canvas cache emptied
        # first and no canvas kept: get_cursor_coords / events BEFORE any render has populated the cache of the inner containers)
        self.cold = bool(hist and hist.get("cold"))
        self.hist = None if self.cold else hist
        self.focus = bool(focus)
        # sampling must not depend on generator-only steering keys, nor on the options that the signature classifier switches off
        # to see whether a violation needs them (focus-dependent geometry, replaced children)
        self.key = json.dumps(strip(neutral(without_swap(without_shared(recipe)))), sort_keys=True)
        self.ctx = ctx
        self.recipe = recipe
        self.size = tuple(size)
        self.collect = collect  # list receiving violation dicts
        self.log = []
        self.root = None
        self.subs = []
        self.fdep = bool({"focus-dependent-rows", "focus-dependent-width"} & T.kinds_of(recipe))
        self.moves_done = []  # accepted move_cursor_to_coords calls so far on self.root (replayed by blame)

    def look(self, root):
        """observe the tree at the case's size (full render, cache cleared); for history cases then touch it at other
        sizes with the cache enabled so that the probing that follows meets whatever per-size state that leaves behind"""
        o = observe(root, self.size, self.log, self.focus)
        if o.ok and self.hist is not None:
            if apply_history(self.ctx, root, o, self.size, self.focus, self.hist, self.log):
                o.after_history = True
            else:
                # the history changed what is drawn at this size (e.g. scroll state): observe afresh, no stale state left
                self.ctx.count("hist_changed_picture_reobserved")
                o = observe(root, self.size, self.log, self.focus)
                if o.ok and any(t["op"] in ("key", "press") for t in self.hist["touch"]):
                    o.after_history = True
                    self.ctx.count("hist_probed_after_keys_or_presses_at_other_size")
        return o

    def chill(self):
        if self.cold:
            urwid.CanvasCache.clear()

    def fresh(self):
        self.log = []
        with warnings.catch_warnings():
            warnings.simplefilter("ignore")
            self.root = T.build(self.recipe, self.log)
        return self.root

    def viol(self, clause, kind, leaf, msg, op):
        if leaf is not None:
            chain = leaf.path_kinds()
            # root of the (shrunk) tree + the leaf; intermediate nodes stay in the witness only
            path = (node_desc(chain[0], child_toward(chain[0], leaf)) + ">" if chain else "") + node_desc(leaf)
        else:
            path = node_desc(self.root)
        self.collect.append(
            {"clause": clause, "kind": kind, "path": path, "msg": msg, "op": op, "leaf": leaf.sid if leaf is not None else None, "shared": leaf is not None and leaf.multiplicity() > 1}
        )

    # ---- clause 1
    def clause1(self, o, after=None, when=None, extra=None):
        """when = None: right after the observing render; 'after-press' / 'after-move' / 'after-key': the tree has just been
        acted upon and has NOT been re-rendered by the harness -- the canvases of the previous render are alive and the cache is
        enabled, so render(size, True) is answered from the cache unless the action invalidated it (as a screen redraw would)"""
        if when is None and not self.wants("c1"):
            return
        tag = "c1"
        sfx = f":{when}" if when else ""
        ctx = self.ctx
        if when and self.fdep:
            # the action may have moved the focus and, with geometry that depends on the focus argument, changed what fits:
            # the fit precondition has to be re-established for the new state (this gives up the cached canvases for such trees)
            o = observe(self.root, self.size, self.log, self.focus)
            if not o.ok:
                ctx.count("c1_after_action_not_judged_focus_dependent_no_longer_fits")
                return
        chain = focus_chain(self.root)
        onchain = {id(n) for n in chain}
        for n in self.root.walk():
            if n.is_leaf():
                continue
            w = n.w
            if not hasattr(w, "get_cursor_coords"):
                ctx.count("c1_no_get_cursor_coords:" + n.kind)
                continue
            below = focus_chain(n)[1:]
            if any(not b.is_leaf() and not hasattr(b.w, "get_cursor_coords") for b in below):
                # outside the quantifier: a container below does not implement the cursor protocol (Scrollable, ScrollBar)
                ctx.count("c1_skipped_chain_without_protocol")
                continue
            if o.occluded and any(l.sid in o.occluded for l in n.leaves()):
                # part of this subtree is an Overlay backdrop whose leaves could not be read off the canvas: the fit precondition is
                # not established for it
                ctx.count("c1_not_judged_subtree_with_occluded_backdrop_leaves")
                continue
            if self.fdep and id(n) not in onchain:
                # the fit precondition was established for the unfocused rendering of this container; with geometry that depends
                # on the focus argument its focused rendering at the same size may not fit
                ctx.count("c1_off_chain_not_judged_focus_dependent_geometry")
                continue
            if n is self.root:
                sz = self.size
            else:
                sz = o.sizes.get(id(w))
                if sz is None:
                    ctx.count("c1_size_not_observed")
                    continue
            op = {"op": "cursor", "node": n.kind, "size": list(sz), "on_focus_chain": id(n) in onchain, "after_moves": after or []}
            if extra:
                op.update(extra)
            self.chill()
            try:
                rep = w.get_cursor_coords(sz)
            except Exception as e:  # noqa: BLE001
                self.viol(tag, f"get_cursor_coords-raise:{exc_kind(e)}{sfx}", None, f"{n.kind}.get_cursor_coords({sz}) raised {type(e).__name__}: {e}", op)
                self._blame(n, sz)
                continue
            try:
                with warnings.catch_warnings():
                    warnings.simplefilter("ignore")
                    cur = w.render(sz, True).cursor
            except Exception as e:  # noqa: BLE001
                ctx.count("c1_rerender_error")
                continue
            ctx.count("c1_cursor_evals")
            if self.cold:
                ctx.count("c1_cursor_evals_before_render")
            if when:
                ctx.count("c1_cursor_evals_" + when.replace("-", "_"))
            if o.after_history:
                ctx.count("c1_cursor_evals_after_history")
            ctx.count("c1_cursor_evals_on_chain" if id(n) in onchain else "c1_cursor_evals_off_chain")
            if cur is not None:
                ctx.count("c1_cursor_evals_not_none")
            rep_t = tuple(rep) if rep is not None else None
            cur_t = tuple(cur) if cur is not None else None
            if rep_t != cur_t:
                kind = "reported-None-drawn-cursor" if rep_t is None else ("reported-cursor-none-drawn" if cur_t is None else "coords-differ")
                self.viol(tag, kind + sfx, None, f"{n.kind} at {sz}{' ' + when if when else ''}: get_cursor_coords={rep_t} but render(focus=True).cursor={cur_t}", op)
                self._blame(n, sz)

    def _blame(self, n, sz):
        # clause-1 violations name the node itself (and the mode it was rendered in), not a leaf
        self.collect[-1]["mode"] = mode_of(sz)
        self.collect[-1]["path"] = node_desc(n, focus_child(n))
        self.collect[-1]["node_is_root"] = n is self.root
        self.collect[-1]["nodepath"] = node_index_path(n)

    # ---- clause 2
    def pick_cells(self, o, cap):
        cells = sorted(o.cellmap)
        if len(cells) <= cap:
            return cells
        rng = self.ctx.subrng("cells", self.key, self.size)
        must = set()
        bylf = {}
        for c in cells:
            bylf.setdefault(o.cellmap[c].sid, []).append(c)
        for cs in bylf.values():
            xs = [c[0] for c in cs]
            ys = [c[1] for c in cs]
            for c in cs:
                if c[0] in (min(xs), max(xs)) and c[1] in (min(ys), max(ys)):
                    must.add(c)
        rest = [c for c in cells if c not in must]
        rng.shuffle(rest)
        out = sorted(must)[:cap] + rest[: max(0, cap - len(must))]
        return sorted(out)

    def expect_mouse(self, o, cell, entries, clause, op):
        """judge the leaf log after one event at `cell`"""
        lf = o.cellmap[cell]
        left, top = rect_at(o, cell)[:2]
        want = (cell[0] - left, cell[1] - top)
        if not entries and under_overlay_bottom(lf):
            # documented: Overlay passes events to top_w only ("ignore if outside of top_w"); the backdrop is inert
            self.ctx.count("c2_overlay_bottom_inert")
            return
        if not entries:
            self.viol(clause, "not-delivered", lf, f"event at {cell} on leaf '{lf.glyph}' reached no leaf", op)
            return
        others = [e for e in entries if e[1] != lf.sid]
        mine = [e for e in entries if e[1] == lf.sid]
        if others and not mine:
            self.viol(clause, "wrong-leaf", lf, f"event at {cell} drawn by leaf '{lf.glyph}' was delivered to leaf sid={others[0][1]} instead: {others[0]}", op)
            return
        if others:
            self.viol(clause, "also-other-leaf", lf, f"event at {cell} on leaf '{lf.glyph}' also reached sid={others[0][1]}", op)
            return
        if len(mine) > 1:
            self.viol(clause, "delivered-twice", lf, f"event at {cell} delivered {len(mine)} times to leaf '{lf.glyph}'", op)
            return
        e = mine[0]
        if (e[5], e[6]) != want:
            dx, dy = e[5] - want[0], e[6] - want[1]
            kind = "wrong-coords:" + ("col" if dx else "") + ("row" if dy else "")
            self.viol(clause, kind, lf, f"event at {cell}: leaf '{lf.glyph}' top-left {(left, top)} got (col,row)=({e[5]},{e[6]}), expected {want}", op)
            return
        if tuple(e[2]) != tuple(lf.w.last_size):
            # not part of the statement (which speaks of coordinates only): counted, not judged
            self.ctx.count("c2_leaf_got_size_other_than_rendered")

    def clause2(self, o):
        if not self.wants("c2"):
            return o
        ctx = self.ctx
        cells = self.pick_cells(o, 700 if getattr(ctx, "shrinking", False) else CELL_CAP[ctx.tier])
        root = self.root
        nev = ctx.pick(1, 2)
        for i, cell in enumerate(cells):
            for k in range(nev):
                ev, btn = EVENTS[(i + k * 2 + cell[0]) % len(EVENTS)]
                del self.log[:]
                op = {"op": "mouse", "event": ev, "button": btn, "col": cell[0], "row": cell[1], "focus": self.focus, "after": list(self.moves_done)}
                self.chill()
                try:
                    root.w.mouse_event(self.size, ev, btn, cell[0], cell[1], self.focus)
                except Exception as e:  # noqa: BLE001
                    self.viol("c2", f"mouse_event-raise:{exc_kind(e)}", o.cellmap[cell], f"mouse_event at {cell} raised {type(e).__name__}: {e}", op)
                    continue
                ctx.count("c2_mouse_cells")
                if o.cellmap[cell].multiplicity() > 1:
                    ctx.count("c2_mouse_cells_on_shared_widget_objects")
                if self.cold:
                    ctx.count("c2_mouse_cells_before_render")
                if o.after_history:
                    ctx.count("c2_mouse_cells_after_history")
                entries = [e for e in self.log if e[0] == "mouse"]
                self.expect_mouse(o, cell, entries, "c2", op)
        # the probe events must not have changed what is drawn
        o2 = self.look(root)
        if not o2.ok or o2.grid != o.grid:
            ctx.count("c2_probe_changed_canvas")
            return None
        return o2

    def clause2b(self, o):
        """button-1 press: delivery only, each on a freshly built tree (focus may move afterwards)"""
        if not self.wants("c2b"):
            return
        ctx = self.ctx
        cells = sorted(o.cellmap)
        if not cells:
            return
        rng = ctx.subrng("b1", self.key, self.size)
        if getattr(ctx, "shrinking", False):
            picks = cells[:: max(1, len(cells) // 40)]  # while shrinking, do not depend on which cells a smaller tree happens to sample
            mc = getattr(ctx, "must_cell", None)
            if mc in o.cellmap and mc not in picks:
                picks = [mc, *picks]
        else:
            picks = rng.sample(cells, min(len(cells), ctx.pick(4, 8)))
        for cell in picks:
            root = self.fresh()
            of = self.look(root)
            if not of.ok or of.grid != o.grid:
                ctx.count("c2b_fresh_tree_differs")
                continue
            del self.log[:]
            op = {"op": "mouse", "event": "mouse press", "button": 1, "col": cell[0], "row": cell[1], "fresh": True, "focus": self.focus}
            self.chill()
            try:
                root.w.mouse_event(self.size, "mouse press", 1, cell[0], cell[1], self.focus)
            except Exception as e:  # noqa: BLE001
                self.viol("c2b", f"mouse_event-raise:{exc_kind(e)}", of.cellmap[cell], f"button-1 press at {cell} raised {type(e).__name__}: {e}", op)
                continue
            ctx.count("c2b_button1_cells")
            if of.after_history:
                ctx.count("c2b_button1_cells_after_history")
            entries = [e for e in self.log if e[0] == "mouse"]
            self.expect_mouse(of, cell, entries, "c2b", op)
            if self.focus:
                self.after_press(root, of, cell, entries, op)

    def after_press(self, root, of, cell, entries, op):
        """the press may have moved the focus: (a) every container must still report the cursor that its focused rendering
        shows -- rendering goes through the cache, the canvas drawn before the press is still alive; (b) if the press reached a
        selectable leaf that has a cursor, the root must now report exactly that leaf's cursor"""
        ctx = self.ctx
        lf = of.cellmap[cell]
        handled = [e[2] for e in self.log if e[0] == "mouse_ret" and e[1] == lf.sid]
        # the cell the Edit itself was told (whether the containers translated it correctly is judged by c2b, not here)
        pressed_local = (entries[0][5], entries[0][6]) if len(entries) == 1 else (cell[0] - rect_at(of, cell)[0], cell[1] - rect_at(of, cell)[1])
        self.clause1(of, when="after-press", extra={"after_press": [cell[0], cell[1]]})
        if not (len(entries) == 1 and entries[0][1] == lf.sid):
            return
        if not self.press_moves_cursor_to(lf) or not hasattr(root.w, "get_cursor_coords"):
            ctx.count("c4_press_not_judged_leaf_or_path_without_cursor")
            return
        o3 = observe(root, self.size, self.log, True)
        if not o3.ok or lf.sid not in o3.rects:
            ctx.count("c4_precondition_lost_after_press")
            return
        try:
            own = lf.w.get_cursor_coords(lf.w.last_size)
        except Exception:  # noqa: BLE001
            own = None
        if own is None:
            ctx.count("c4_pressed_leaf_shows_no_cursor")
            return
        k_occ = of.cellocc.get(cell, 0)  # the position that was pressed (occurrences keep their reading order)
        if k_occ >= len(o3.occ.get(lf.sid, ())):
            ctx.count("c4_precondition_lost_after_press")
            return
        left, top = o3.occ[lf.sid][k_occ][:2]
        want = (left + own[0], top + own[1])
        self.chill()
        try:
            rep = root.w.get_cursor_coords(self.size)
        except Exception as e:  # noqa: BLE001
            self.viol("c4", f"get_cursor_coords-after-press-raise:{exc_kind(e)}", lf, f"after button-1 press at {cell}: {type(e).__name__}: {e}", op)
            return
        ctx.count("c4_press_cursor_evals")
        # (not in trees with focus-dependent geometry: the press may move the focus and re-lay the Edit out at another width)
        # (and only if the Edit was handed the size it had been rendered at -- otherwise the container above is at fault, see c2b)
        same_size = len(entries) == 1 and tuple(entries[0][2]) == tuple(lf.w.last_size or ())
        if lf.kind == "Edit" and handled and handled[-1] is True and not self.fdep and same_size and lf.multiplicity() == 1 and tuple(o3.rects[lf.sid]) == tuple(of.rects[lf.sid]):
            # a press an Edit reports as handled is a move_cursor_to_coords to that cell: the cursor must be on the pressed row
            ctx.count("c4_edit_press_row_evals")
            if own[1] != pressed_local[1]:
                self.viol(
                    "c4",
                    "cursor-not-on-pressed-row",
                    lf,
                    f"button-1 press at {cell} (row {pressed_local[1]} of Edit '{lf.glyph}') was handled by the Edit but its cursor is now at {tuple(own)}",
                    op,
                )
                self.collect[-1]["path"] = "Edit[handled-press-cursor-on-other-row]"
                self.collect[-1]["mode"] = "flow"
                self.collect[-1]["leaf"] = None
                return
        if rep is None or tuple(rep) != want:
            self.viol(
                "c4",
                "cursor-not-on-pressed-leaf" + (":None" if rep is None else ""),
                lf,
                f"button-1 press at {cell} was delivered to selectable leaf '{lf.glyph}' (now drawn at {(left, top)}, own cursor {tuple(own)}) "
                f"but the root reports cursor {rep}, expected {want}",
                op,
            )

    FOCUS_FOLLOWS_PRESS = {"Pile", "Columns", "Frame", "ListBox", "GridFlow", "Filler", "Padding", "AttrMap", "LineBox", "BoxAdapter", "Overlay"}

    def press_moves_cursor_to(self, lf):
        if lf.kind == "spy":
            r = lf.recipe
            if not (r.get("cp", True) and r.get("sel", True)):
                return False
        if under_overlay_bottom(lf):
            return False
        return all(a.kind in self.FOCUS_FOLLOWS_PRESS and hasattr(a.w, "get_cursor_coords") for a in lf.path_kinds())

    # ---- clause 3
    def eligible_move(self, lf):
        if lf.kind == "spy":
            r = lf.recipe
            if not (r.get("cp", True) and r.get("sel", True)):
                return False
        elif lf.kind != "Edit":
            return False
        return all(a.kind in T.CURSOR_MOVERS for a in lf.path_kinds())

    def clause3(self, o):
        if not self.wants("c3"):
            return
        ctx = self.ctx
        root = self.root
        if root.is_leaf() or not hasattr(root.w, "move_cursor_to_coords"):
            ctx.count("c3_root_without_move_cursor")
            return
        cells = [c for c in sorted(o.cellmap) if self.eligible_move(o.cellmap[c])]
        if not cells:
            ctx.count("c3_no_eligible_cells")
            return
        rng = ctx.subrng("mv", self.key, self.size)
        rng.shuffle(cells)
        cells = cells[: MOVE_CAP[ctx.tier]]
        history = self.moves_done
        for cell in cells:
            if cell not in o.cellmap or not self.eligible_move(o.cellmap[cell]):
                continue
            if self.fdep:
                # the cursor protocol has no focus argument; urwid's containers lay themselves out as if focused ("FIXME guessing
                # focus==True" in Pile).  With geometry that depends on the focus argument that is only meaningful for
                # containers that WERE rendered in focus: cells below a container off the focus chain are not judged
                chain_ids = {id(n) for n in focus_chain(root)}
                if any(id(a) not in chain_ids for a in o.cellmap[cell].path_kinds()):
                    ctx.count("c3_not_judged_unfocused_container_with_focus_dependent_geometry")
                    continue
            lf = o.cellmap[cell]
            left, top, lcols, lrows = rect_at(o, cell)
            k_occ = o.cellocc.get(cell, 0)
            lx, ly = cell[0] - left, cell[1] - top
            op = {"op": "move", "col": cell[0], "row": cell[1], "after": list(history)}
            del self.log[:]
            self.chill()
            try:
                ret = root.w.move_cursor_to_coords(self.size, cell[0], cell[1])
            except Exception as e:  # noqa: BLE001
                self.viol("c3", f"move_cursor-raise:{exc_kind(e)}", lf, f"move_cursor_to_coords{cell} raised {type(e).__name__}: {e}", op)
                break
            ctx.count("c3_move_evals")
            if self.cold:
                ctx.count("c3_move_evals_before_render")
            if o.after_history:
                ctx.count("c3_move_evals_after_history")
            moves = [e for e in self.log if e[0] == "move"]
            mine = [e for e in moves if e[1] == lf.sid]
            if lf.kind == "spy":
                # the cursor protocol has no focus argument: the spy answers for its focused geometry
                fcols, frows_ = lf.w.dims(lf.w.last_size, True)
                expect = S.accepts(lf.recipe.get("acc", "all"), lx, ly, fcols, frows_)
            elif mine and (mine[-1][3], mine[-1][4]) == (lx, ly):
                # an Edit refuses rows that hold only its caption: its own logged answer is the reference
                expect = bool(mine[-1][5])
            elif not lf.recipe.get("capsp") and lf.recipe.get("nl") is None and ly in edit_rows_with_position(lf.recipe, lf.w.last_size[0] if lf.w.last_size else 0):
                expect = True
            else:
                ctx.count("c3_edit_answer_unknown_not_judged")
                if ret:
                    history.append([cell[0], cell[1]])
                    o = self.look(root)
                    if not o.ok:
                        break
                continue
            bad = False
            if ret not in (True, False):
                self.viol("c3", "non-bool-result", lf, f"move_cursor_to_coords{cell} returned {ret!r}", op)
                bad = True
            elif bool(ret) != expect:
                if not mine:
                    kind = "leaf-not-asked"
                elif (mine[-1][3], mine[-1][4]) != (lx, ly):
                    kind = "wrong-coords-to-leaf"
                else:
                    kind = "result-differs-from-leaf-answer"
                kind += ":returned-" + str(bool(ret))
                self.viol(
                    "c3",
                    kind,
                    lf,
                    f"move_cursor_to_coords{cell} -> {ret}; leaf '{lf.glyph}' (top-left {(left, top)}, accept={lf.recipe.get('acc', 'Edit')}) "
                    f"would answer {expect} for local {(lx, ly)}; leaf saw {[(e[3], e[4], e[5]) for e in mine]}",
                    op,
                )
                bad = True
            elif mine and (mine[-1][3], mine[-1][4]) != (lx, ly) and isinstance(mine[-1][3], int):
                self.viol("c3", "wrong-coords-to-leaf:same-answer", lf, f"move_cursor_to_coords{cell}: leaf '{lf.glyph}' asked for {(mine[-1][3], mine[-1][4])}, expected {(lx, ly)}", op)
                bad = True
            if not ret:
                if not bad:
                    ctx.count("c3_move_refused_agreed")
                if bad:
                    break
                continue
            history.append([cell[0], cell[1]])
            # accepted: the reported cursor must be on the requested row
            # second half of the clause, independent of who is right about acceptance: whatever returned True (a spy, or a real
            # Edit -- also for rows that hold only wrapped caption text), the reported cursor must now be on the requested row
            judge_row = True
            if lf.kind == "Edit":
                ctx.count("c3_edit_accepted_row_checked")
                if ly not in edit_rows_with_position(lf.recipe, lf.w.last_size[0] if lf.w.last_size else 0):
                    ctx.count("c3_edit_accepted_on_row_without_position")
            if judge_row and not bad and self.fdep:
                # geometry depends on the focus argument and the move may have moved the focus: the requested cell keeps its
                # meaning only if the target leaf is still drawn where it was
                o_new = observe(root, self.size, self.log, self.focus)
                if not o_new.ok or k_occ >= len(o_new.occ.get(lf.sid, ())) or tuple(o_new.occ[lf.sid][k_occ]) != (left, top, lcols, lrows):
                    judge_row = False
                    ctx.count("c3_row_not_judged_focus_dependent_layout_shifted")
            if judge_row and not bad:
                self.chill()
                try:
                    rep = root.w.get_cursor_coords(self.size)
                except Exception as e:  # noqa: BLE001
                    self.viol("c3", f"get_cursor_coords-after-move-raise:{exc_kind(e)}", lf, f"after move to {cell}: {type(e).__name__}: {e}", op)
                    break
                ctx.count("c3_move_accepted_row_checked")
                if rep is None or rep[1] != cell[1]:
                    self.viol("c3", "cursor-not-on-requested-row" + (":None" if rep is None else ""), lf, f"move_cursor_to_coords{cell} returned True but get_cursor_coords={rep}", op)
                    bad = True
                elif rep[0] == cell[0]:
                    ctx.count("c3_cursor_also_on_requested_col")
            if bad:
                break
            # state changed.  First, without re-rendering (canvases of the last render alive, cache enabled): does every
            # container still report the cursor its (possibly cached) focused rendering shows?
            if len(history) <= 6:
                self.clause1(o, after=list(history), when="after-move")
            # then re-observe; the precondition must still hold to go on
            o = self.look(root)
            if not o.ok:
                ctx.count("c3_precondition_lost_after_move")
                break
            if len(history) <= 3:
                self.clause1(o, after=list(history))

    # ---- keys that move the focus
    KEYS = ("down", "up", "right", "left", "tab", "page down", "home", "end", "shift tab")

    def wants(self, step):
        want = getattr(self.ctx, "want", None)
        return want is None or step in want

    def key_walk(self, o):
        """a few navigation keys on the same tree; after each one clause 1 is evaluated through the cache (the canvas of the
        last render is alive), then the tree is observed afresh.  What a key does is C08's business; exceptions are not judged."""
        if not self.wants("keys"):
            return
        ctx = self.ctx
        root = self.root
        if root.is_leaf() or not root.w.selectable():
            return
        rng = ctx.subrng("keys", self.key, self.size)
        pressed = []
        for _ in range(ctx.pick(4, 8)):
            key = rng.choice(self.KEYS)
            try:
                with warnings.catch_warnings():
                    warnings.simplefilter("ignore")
                    res = root.w.keypress(self.size, key)
            except Exception:  # noqa: BLE001
                ctx.count("keys_raised_not_judged")
                return
            pressed.append(key)
            ctx.count("keys_pressed")
            if res is None:
                ctx.count("keys_handled")
            self.clause1(o, after=list(self.moves_done), when="after-key", extra={"keys": list(pressed)})
            o = self.look(root)
            if not o.ok:
                ctx.count("keys_precondition_lost")
                return

    # ---- driver
    def run(self):
        ctx = self.ctx
        try:
            root = self.fresh()
        except Exception as e:  # noqa: BLE001
            ctx.count("skipped_build_error")
            ctx.count("skipped_build_error:" + type(e).__name__)
            return None
        o = self.look(root)
        if not o.ok:
            if o.reason.startswith("render_error"):
                ctx.count("skipped_render_error")
                ctx.count("skipped_" + o.reason)
            elif o.reason == "widget_warning":
                ctx.count("skipped_invalid_widget_warning")
            else:
                ctx.count("skipped_precondition")
                ctx.count("skipped_precondition:" + o.reason)
            return None
        ctx.count("cases_judged")
        if o.rows_disagree:
            ctx.count("cases_with_rows_method_disagreeing_with_rendered_rows")
        self.subs = [(n.recipe, list(o.sizes[id(n.w)])) for n in root.children if not n.is_leaf() and id(n.w) in o.sizes]
        for k in T.kinds_of(self.recipe):
            ctx.count("judged_with:" + k)
        ctx.count("judged_root:" + self.recipe["k"] + ":" + mode_of(self.size))
        if not self.focus:
            # unfocused rendering: only hit-testing is meaningful (no cursor is drawn)
            ctx.count("cases_judged_unfocused_root")
            if self.hist is not None:
                ctx.count("hist_cases_judged")
                if o.after_history:
                    ctx.count("hist_cases_probed_in_post_history_state")
            self.clause2(o)
            self.clause2b(o)
            return o
        if self.cold:
            ctx.count("cold_cases_judged")
        if self.hist is not None:
            ctx.count("hist_cases_judged")
            ctx.count("hist_cases_rerender_variant" if self.hist.get("rerender") else "hist_cases_no_rerender_variant")
            if o.after_history:
                ctx.count("hist_cases_probed_in_post_history_state")
        if self.hist is not None and self.hist.get("c3_first"):
            # let the very first move_cursor_to_coords meet the post-history state too
            o0 = o
            self.clause3(o)
            o = self.look(root)
            if not o.ok:
                return o0
            self.clause1(o)
            o2 = self.clause2(o)
            if o2 is not None:
                self.key_walk(o2)
            self.clause2b(o0)
            return o0
        self.clause1(o)
        o2 = self.clause2(o)
        if o2 is not None:
            self.clause3(o2)
            o3 = self.look(root)
            if o3.ok:
                self.key_walk(o3)
        self.clause2b(o)
        return o


def focus_child(n):
    ch = focus_chain(n)
    return ch[1] if len(ch) > 1 else None


def node_index_path(n):
    out = []
    while n.parent is not None:
        out.append(n.parent.children.index(n))
        n = n.parent
    return out[::-1]


# ----------------------------------------------------------------------------- shrinking / reporting
def subcases(recipe, size, focus=True):
    """(child recipe, size it was observed to be handed) for each direct child, by observation"""
    log = []
    try:
        with warnings.catch_warnings():
            warnings.simplefilter("ignore")
            root = T.build(recipe, log)
        o = observe(root, tuple(size), log, focus)
    except Exception:  # noqa: BLE001
        return []
    if not o.ok:
        return []
    out = []
    for c in root.children:
        if c.is_leaf():
            continue
        sz = o.sizes.get(id(c.w))
        if sz is not None:
            out.append((c.recipe, list(sz)))
    return out


def steps_for(key, hist, op=None):
    """which steps of Case.run are needed to reproduce a violation of this (clause, kind) while shrinking"""
    clause, kind = key
    c3_first = bool(hist and hist.get("c3_first"))
    if clause == "c1":
        if kind.endswith(":after-press"):
            return {"c2b"}
        if kind.endswith(":after-move"):
            return {"c3"}
        if kind.endswith(":after-key"):
            return {"c3", "keys"}
        return {"c1", "c3"} if (c3_first or (op or {}).get("after_moves")) else {"c1"}
    if clause == "c2":
        return {"c2", "c3"} if c3_first else {"c2"}
    if clause in ("c2b", "c4"):
        return {"c2b"}
    return {"c3"}


class Quiet:
    """a ctx stand-in for shrinking runs: counts nothing, same rng derivation"""

    shrinking = True

    def __init__(self, ctx, want=None, cell=None):
        self._ctx = ctx
        self.tier = ctx.tier
        self.must_cell = cell  # the cell of the violation being classified: always among the (sub-sampled) button-1 cells
        self.want = want  # the steps of a case that are needed to reproduce one kind of violation (None = all)
        self.extra = {}

    def count(self, *a, **k):
        pass

    def pick(self, q, t):
        return self._ctx.pick(q, t)

    def subrng(self, *key):
        return self._ctx.subrng(*key)


def run_collect(ctx, recipe, size, focus=True, hist=None):
    got = []
    Case(ctx, recipe, size, got, focus, hist).run()
    return got


def neutral(recipe):
    """the same recipe with the focus-dependent geometry of its spy leaves switched off"""
    if isinstance(recipe, dict):
        return {k: neutral(v) for k, v in recipe.items() if k not in ("frows", "fcols", "fpackw")}
    if isinstance(recipe, list):
        return [neutral(v) for v in recipe]
    return recipe


def sharing_kinds(recipe, out=None, depth=0):
    """kinds of the containers that hold one object at several positions, innermost first"""
    top = out is None
    out = {} if out is None else out
    if isinstance(recipe, dict):
        for c in T.children_of(recipe) if recipe.get("k") else []:
            if c.get("k") == "same":
                out[recipe["k"]] = max(out.get(recipe["k"], 0), depth)
            sharing_kinds(c, out, depth + 1)
    if top:
        return [k for k, _d in sorted(out.items(), key=lambda kv: (-kv[1], kv[0]))]
    return out


def without_shared(recipe, only=None):
    """(only = a container kind: un-share in containers of that kind only)  the same recipe with every further occurrence of a sibling's widget object replaced by a copy of that sibling's RECIPE
    (an object of its own at each position; glyphs are allocated per built leaf, so the copies are distinguishable)"""
    if isinstance(recipe, list):
        return [without_shared(v, only) for v in recipe]
    if not isinstance(recipe, dict):
        return recipe
    r = {k: without_shared(v, only) for k, v in recipe.items()}
    k = r.get("k")
    if only is not None and k != only:
        return r
    if k in ("Pile", "Columns"):
        sib = [c for _o, c in r["items"]]
        r["items"] = [[o, sib[c["of"]] if c["k"] == "same" else c] for o, c in r["items"]]
    elif k == "GridFlow":
        r["cells"] = [r["cells"][c["of"]] if c["k"] == "same" else c for c in r["cells"]]
    elif k == "ListBox":
        r["items"] = [r["items"][c["of"]] if c["k"] == "same" else c for c in r["items"]]
    elif k == "Frame" and (r.get("footer") or {}).get("k") == "same":
        r["footer"] = r.get("header")
    return r


def without_fixedw_padding(recipe):
    """the same recipe with every Padding(width=n) meant for size () replaced by a fixed-size Columns([('given', n, child)])"""
    if isinstance(recipe, list):
        return [without_fixedw_padding(v) for v in recipe]
    if not isinstance(recipe, dict):
        return recipe
    r = {k: without_fixedw_padding(v) for k, v in recipe.items()}
    if r.get("k") == "Padding" and r.get("fixedw"):
        return {"k": "Columns", "items": [[["given", r["width"]], r["c"]]], "div": 0, "focus": 0, "box": [], "minw": 1}
    return r


def swapped_kinds(recipe, out=None):
    out = set() if out is None else out
    if isinstance(recipe, dict):
        if recipe.get("swap"):
            out.add(recipe["k"])
        for v in recipe.values():
            swapped_kinds(v, out)
    elif isinstance(recipe, list):
        for v in recipe:
            swapped_kinds(v, out)
    return out


def without_swap(recipe):
    if isinstance(recipe, dict):
        return {k: without_swap(v) for k, v in recipe.items() if k != "swap"}
    if isinstance(recipe, list):
        return [without_swap(v) for v in recipe]
    return recipe


def without_empty_columns(recipe):
    """the same recipe with the zero-width ('Empty') columns of every Columns removed (focus / box_columns indexes adjusted)"""
    if isinstance(recipe, list):
        return [without_empty_columns(v) for v in recipe]
    if not isinstance(recipe, dict):
        return recipe
    r = {k: without_empty_columns(v) for k, v in recipe.items()}
    if r.get("k") == "Columns":
        keep = [i for i, (_o, c) in enumerate(r["items"]) if c.get("k") != "Empty"]
        if len(keep) != len(r["items"]) and keep:
            new_index = {old: new for new, old in enumerate(keep)}
            r["items"] = [r["items"][i] for i in keep]
            r["items"] = [[o, dict(c, of=new_index.get(c["of"], 0)) if c.get("k") == "same" else c] for o, c in r["items"]]
            if r.get("focus") is not None:
                r["focus"] = new_index.get(r["focus"], 0)
            r["box"] = [new_index[b] for b in r.get("box", []) if b in new_index]
    return r


def strip(recipe):
    """drop steering keys"""
    if isinstance(recipe, dict):
        return {k: strip(v) for k, v in recipe.items() if k not in ("_box", "per_row")}
    if isinstance(recipe, list):
        return [strip(v) for v in recipe]
    return recipe


def mouse_kind(entries, sid, want):
    """None if exactly the leaf `sid` got the event once with coordinates `want`, else the kind of mismatch"""
    if not entries:
        return "not-delivered"
    others = [e for e in entries if e[1] != sid]
    mine = [e for e in entries if e[1] == sid]
    if others and not mine:
        return "wrong-leaf"
    if others:
        return "also-other-leaf"
    if len(mine) > 1:
        return "delivered-twice"
    e = mine[0]
    if (e[5], e[6]) != tuple(want):
        return "wrong-coords:" + ("col" if e[5] != want[0] else "") + ("row" if e[6] != want[1] else "")
    return None


def move_kind(ret, mine, expect, lx, ly):
    """None if the container's answer equals the leaf's (expected) answer and the leaf was asked about (lx, ly)"""
    if ret not in (True, False):
        return "non-bool-result"
    if bool(ret) != expect:
        if not mine:
            kind = "leaf-not-asked"
        elif (mine[-1][3], mine[-1][4]) != (lx, ly):
            kind = "wrong-coords-to-leaf"
        else:
            kind = "result-differs-from-leaf-answer"
        return kind + ":returned-" + str(bool(ret))
    if mine and (mine[-1][3], mine[-1][4]) != (lx, ly) and isinstance(mine[-1][3], int):
        return "wrong-coords-to-leaf:same-answer"
    return None


def kind_family(kind):
    if kind is None:
        return None
    if "raise" in kind:
        return "raise"
    if kind.startswith(("not-delivered", "wrong-leaf", "also-other-leaf", "delivered-twice", "wrong-coords:")):
        return "event-misrouted"
    if kind.startswith(("leaf-not-asked", "wrong-coords-to-leaf", "result-differs", "non-bool")):
        return "move-misrouted"
    return kind.split(":")[0]


def _locate_in(canv, leaf):
    """top-left of `leaf` inside a canvas, read off that canvas (same rule as observe)"""
    grid = read_grid(canv)
    cells = [(x, y) for y, row in enumerate(grid) for x, ch in enumerate(row) if ch == leaf.glyph]
    if not cells:
        return None
    if leaf.kind == "spy":
        return min(c[0] for c in cells), min(c[1] for c in cells)
    fx, fy = min(cells, key=lambda c: (c[1], c[0]))
    return fx - S.REAL_LABEL_OFFSET[leaf.kind], fy


_SIG_MEMO: dict = {}


class _NoCount:
    @staticmethod
    def count(*a, **k):
        pass


def run_same(q, recipe, size, focus, hist, key) -> bool:
    fam = (key[0].rstrip("b"), kind_family(key[1]))
    return any((g["clause"].rstrip("b"), kind_family(g["kind"])) == fam for g in run_collect(q, recipe, size, focus, hist))


def blame(recipe, size, focus, v, hist=None):
    """Name the innermost container that already shows the disagreement, by observation only: each ancestor A of the
    leaf is rendered alone at the size it was observed to be handed, the leaf is located on A's own canvas (which gives
    A's top-left on the root canvas), and the same operation is put to A directly with translated coordinates.
    Returns (path-description, mode) of the innermost ancestor that misbehaves, or None (root / not reproducible)."""
    if v.get("leaf") is None or v["clause"] not in ("c2", "c2b", "c3") or v.get("shared"):
        return None
    op = v["op"]
    size = tuple(size)

    def setup():
        log = []
        with warnings.catch_warnings():
            warnings.simplefilter("ignore")
            root = T.build(recipe, log)
        o = observe(root, size, log, focus)
        if not o.ok:
            return None
        if hist is not None and not hist.get("cold") and not apply_history(_NoCount, root, o, size, focus, hist, log):
            if not any(t["op"] in ("key", "press") for t in hist["touch"]):
                return None
            o = observe(root, size, log, focus)
            if not o.ok:
                return None
        for c_, r_ in op.get("after", []):
            try:
                root.w.move_cursor_to_coords(size, c_, r_)
            except Exception:  # noqa: BLE001
                return None
            o = observe(root, size, log, focus)
            if not o.ok:
                return None
            if hist is not None and not hist.get("cold") and not apply_history(_NoCount, root, o, size, focus, hist, log):
                return None
        leaf = next((n for n in root.leaves() if n.sid == v["leaf"]), None)
        if leaf is None or leaf.sid not in o.rects:
            return None
        return root, o, log, leaf

    st = setup()
    if st is None:
        return None
    nanc = len(st[3].path_kinds())
    if v["clause"] == "c3" and st[3].kind == "Edit" and v["kind"].startswith("cursor-not-on-requested-row"):
        # the real leaf itself may be the one that accepts a cell and then puts the cursor elsewhere
        root, o, log, leaf = st
        left, top = o.rects[leaf.sid][:2]
        lx, ly = op["col"] - left, op["row"] - top
        try:
            if leaf.w.move_cursor_to_coords(leaf.w.last_size, lx, ly):
                own = leaf.w.get_cursor_coords(leaf.w.last_size)
                if own is None or own[1] != ly:
                    return "Edit[accepted-row-without-cursor-position]", "flow"
        except Exception:  # noqa: BLE001
            pass
    for depth in range(nanc - 1, 0, -1):  # innermost ancestor first; index 0 is the root itself
        st = setup()
        if st is None:
            return None
        root, o, log, leaf = st
        anc = leaf.path_kinds()[depth]
        sz = o.sizes.get(id(anc.w))
        if sz is None:
            continue
        f_anc = bool(focus) and any(n is anc for n in focus_chain(root))
        left, top, lcols, lrows = o.rects[leaf.sid]
        try:
            with warnings.catch_warnings():
                warnings.simplefilter("ignore")
                inner = _locate_in(anc.w.render(sz, f_anc), leaf)
        except Exception:  # noqa: BLE001
            continue
        if inner is None:
            continue
        ax, ay = left - inner[0], top - inner[1]
        c, r = op["col"] - ax, op["row"] - ay
        lx, ly = op["col"] - left, op["row"] - top
        del log[:]
        if hist is not None and hist.get("cold"):
            urwid.CanvasCache.clear()
        pk = None  # kind of failure shown by this ancestor on its own, in the same vocabulary as Case.viol
        try:
            if op["op"] == "mouse":
                try:
                    anc.w.mouse_event(sz, op["event"], op["button"], c, r, f_anc)
                except Exception as e:  # noqa: BLE001
                    pk = f"mouse_event-raise:{exc_kind(e)}"
                else:
                    ent = [e for e in log if e[0] == "mouse"]
                    # an Overlay's backdrop is inert by design: reaching no leaf is not a failure there
                    pk = None if (not ent and under_overlay_bottom(leaf)) else mouse_kind(ent, leaf.sid, (lx, ly))
            else:
                if not hasattr(anc.w, "move_cursor_to_coords"):
                    continue
                try:
                    ret = anc.w.move_cursor_to_coords(sz, c, r)
                except Exception as e:  # noqa: BLE001
                    pk = f"move_cursor-raise:{exc_kind(e)}"
                else:
                    mine = [e for e in log if e[0] == "move" and e[1] == leaf.sid]
                    on_row = ly in edit_rows_with_position(leaf.recipe, leaf.w.last_size[0] if leaf.w.last_size else 0) if leaf.kind == "Edit" else True
                    if leaf.kind == "spy":
                        expect = S.accepts(leaf.recipe.get("acc", "all"), lx, ly, *leaf.w.dims(leaf.w.last_size, True))
                    elif mine and (mine[-1][3], mine[-1][4]) == (lx, ly):
                        expect = bool(mine[-1][5])
                    else:
                        expect = on_row
                    pk = move_kind(ret, mine, expect, lx, ly)
                    if pk is None and ret and hasattr(anc.w, "get_cursor_coords"):
                        rep_ = anc.w.get_cursor_coords(sz)
                        if rep_ is None or rep_[1] != r:
                            pk = "cursor-not-on-requested-row" + (":None" if rep_ is None else "")
        except Exception:  # noqa: BLE001
            continue
        ok = kind_family(pk) != kind_family(v["kind"])  # only the same family of failure makes this ancestor the culprit
        if not ok:
            return node_desc(anc, child_toward(anc, leaf)) + ">" + node_desc(leaf), mode_of(sz)
    return None


def report(ctx, recipe, size, viols, focus=True, hist=None):
    """shrink each distinct (clause, kind) by descending into subtrees that still show it, then report"""
    done = set()
    for v in viols:
        key = (v["clause"], v["kind"])
        # with a history / before-render variant, kinds of one family (and c2 vs c2b) end up under one signature anyway
        dkey = (key[0].rstrip("b"), kind_family(key[1])) if hist is not None else key
        if dkey in done:
            continue
        done.add(dkey)
        # shrinking + blame cost up to seconds: once the same (clause, kind, root class, with/without history) has been
        # worked out twice with one and the same signature, later occurrences are filed under it directly
        prekey = (key[0], key[1], recipe["k"], hist is not None)
        seen_sigs = _SIG_MEMO.setdefault(prekey, [])
        if len(seen_sigs) >= 2 and len(set(seen_sigs)) == 1 and not getattr(ctx, "replaying", False):
            ctx.count("violations_filed_without_reshrinking")
            ctx.violation(seen_sigs[0], v["msg"] + f"  [root rendered at {tuple(size)}; not shrunk]", {"recipe": strip(recipe), "size": list(size), "focus": focus, "hist": hist, "clause": v["clause"], "kind": v["kind"], "op": v["op"]})
            continue
        r, s, best = recipe, list(size), v
        vop = v.get("op") or {}
        vcell = vop.get("after_press") or ([vop["col"], vop["row"]] if "col" in vop else None)
        q = Quiet(ctx, steps_for(key, hist, vop), tuple(vcell) if vcell else None)
        t_shrink = time.monotonic()
        for _ in range(8):
            moved = False
            for cr, cs in subcases(r, s, focus):
                if time.monotonic() - t_shrink > 6.0:
                    ctx.count("shrink_stopped_by_time_limit")
                    break
                allgot = run_collect(q, cr, cs, focus, hist)
                got = [g for g in allgot if (g["clause"], g["kind"]) == key]
                if not got and hist is not None:
                    # with a size history the same defect may show as another kind of the same family in the subtree
                    fam = (key[0].rstrip("b"), kind_family(key[1]))
                    got = [g for g in allgot if (g["clause"].rstrip("b"), kind_family(g["kind"])) == fam]
                    if got:
                        key = (got[0]["clause"], got[0]["kind"])
                if got:
                    r, s, best = cr, cs, got[0]
                    moved = True
                    break
            if not moved:
                break
        clause = best["clause"]
        path, mode = best["path"], best.get("mode") or mode_of(s)
        has_fdep = best["clause"] in ("c2", "c2b", "c3") and bool({"focus-dependent-rows", "focus-dependent-width"} & T.kinds_of(r))
        has_zero = best["clause"] in ("c2", "c2b", "c3") and "Columns-zero-width-column" in T.kinds_of(r)
        base = run_same(q, r, s, focus, hist, key)  # the classifier below is only meaningful if the shrinking run reproduces it at all
        if not base and r is not recipe:
            # the shrunk subtree showed it once but does not reproduce it: go back to the case as it was found
            r, s, best = recipe, list(size), v
            key = (v["clause"], v["kind"])
            path, mode = best["path"], best.get("mode") or mode_of(s)
            has_fdep = best["clause"] in ("c2", "c2b", "c3") and bool({"focus-dependent-rows", "focus-dependent-width"} & T.kinds_of(r))
            has_zero = best["clause"] in ("c2", "c2b", "c3") and "Columns-zero-width-column" in T.kinds_of(r)
            base = run_same(q, r, s, focus, hist, key)
            ctx.count("shrink_undone_not_reproducible")
        kinds_r = T.kinds_of(r)
        stale = ""
        if not base:
            ctx.count("violations_not_reproduced_by_classifier_run")
        else:
            # which unusual ingredient does the violation need?  Each candidate is switched off on its own; a violation that vanishes
            # under several switches (switching one off also perturbs the sequence of probes) goes to the more specific structural one
            needs = []
            # geometry-preserving switches first (they leave the sequence of probes untouched, so their verdict is exact)
            if "shared-widget-object" in kinds_r and not run_same(q, without_shared(r), s, focus, hist, key):
                needs.append("|shared-widget-object")  # fine when every position holds an object of its own
            if "decoration-child-replaced" in kinds_r and not run_same(q, without_swap(r), s, focus, hist, key):
                needs.append("|child-replaced")  # original_widget assigned after construction: fine when passed to the constructor
            if not needs:
                if has_fdep and not run_same(q, neutral(r), s, focus, hist, key):
                    needs.append("|focus-dependent-geometry")  # fine with those leaves made ordinary
                if has_zero and not run_same(q, without_empty_columns(r), s, focus, hist, key):
                    needs.append("|zero-width-column")  # fine without the hidden columns
                if "Padding-given-width-as-fixed" in kinds_r and not run_same(q, without_fixedw_padding(r), s, focus, hist, key):
                    needs.append("|given-width-as-fixed")  # Padding(width=n) at size (): fine with a fixed Columns([('given', n, child)]) instead
                if "|zero-width-column" in needs and "|focus-dependent-geometry" in needs:
                    needs.remove("|focus-dependent-geometry")  # removing focus growth also perturbs the probes: prefer the structural one
            if not needs:
                # two known ingredients may each be sufficient on their own: switch all candidates off together
                cands, rr = [], r
                if "Padding-given-width-as-fixed" in kinds_r:
                    cands.append("|given-width-as-fixed")
                    rr = without_fixedw_padding(rr)
                if "decoration-child-replaced" in kinds_r:
                    cands.append("|child-replaced")
                    rr = without_swap(rr)
                if "shared-widget-object" in kinds_r:
                    cands.append("|shared-widget-object")
                    rr = without_shared(rr)
                if has_zero:
                    cands.append("|zero-width-column")
                    rr = without_empty_columns(rr)
                if has_fdep:
                    cands.append("|focus-dependent-geometry")
                    rr = neutral(rr)
                if len(cands) > 1 and not run_same(q, rr, s, focus, hist, key):
                    needs = cands
                    ctx.count("violations_with_several_sufficient_ingredients")
            if needs:
                stale = needs[0]
                if len(needs) > 1:
                    ctx.count("violations_classified_with_several_candidate_ingredients")
                if stale == "|focus-dependent-geometry" and hist is not None and not run_same(q, r, s, focus, None, key):
                    # needs BOTH the focus-dependent leaf (e.g. to make the content overflow at the other size) and the history
                    stale = ("|before-render" if hist.get("cold") else "|after-other-size") + "+focus-dependent-geometry"
            elif hist is not None and not run_same(q, r, s, focus, None, key):
                # the same tree probed right after a fresh render does not show it: the per-size state left by the history is needed
                stale = "|before-render" if hist.get("cold") else "|after-other-size"
        culprit = blame(r, s, focus, best, hist if stale else None)
        if culprit is not None:
            path, mode = culprit
        if stale:
            # the state left behind belongs to the container: the leaf class and press-1 vs other events add nothing
            path = path.split(">")[0]
            clause = {"c2b": "c2"}.get(clause, clause)
            if stale in ("|focus-dependent-geometry", "|zero-width-column", "|shared-widget-object"):
                path = path.split("[")[0] if path.startswith(("Pile", "Columns")) else path
            if stale == "|given-width-as-fixed":
                path, mode = "Padding[w=given]", "fixed"
            if stale == "|shared-widget-object":
                # every container above shows it too: name the container(s) that hold one object at several positions
                sk = sharing_kinds(r)
                if len(sk) > 1:
                    # several containers repeat an object: name the one whose un-sharing alone makes the violation vanish
                    alone = [k_ for k_ in sk if not run_same(q, without_shared(r, k_), s, focus, hist, key)]
                    sk = alone[:1] or sk
                path, mode = "+".join(sk) or path, "-"
            if stale == "|child-replaced":
                # every container above the decoration shows it too: name the decoration(s) whose child was assigned, not the node
                sk = swapped_kinds(r)
                path = "LineBox" if "LineBox" in sk else ("+".join(sorted(sk)) or path.split("[")[0])
                mode = "-"
        sigkind = best["kind"]
        if not stale and mode == "fixed" and path.startswith("Padding[w=given]"):
            # one input shape (a Padding with a given width rendered as a fixed widget): how the child objects to size () is accidental
            stale = "|given-width-as-fixed"
            path = "Padding[w=given]"
            clause = {"c2b": "c2"}.get(clause, clause)
            sigkind = kind_family(sigkind)
        if stale in ("|child-replaced", "|given-width-as-fixed", "|shared-widget-object"):
            sigkind = kind_family(sigkind)
        if stale and kind_family(sigkind) in ("event-misrouted", "move-misrouted", "cursor-not-on-requested-row"):
            # which wrong cell a stale layout happens to hit (none / neighbour / shifted col or row) is an accident of the sizes
            sigkind = kind_family(sigkind)
        sig = f"C09|{clause}|{sigkind}{stale}|{mode}|{path}"
        wit = {"recipe": strip(r), "size": s, "focus": focus, "hist": hist if stale else None, "clause": clause, "kind": best["kind"], "op": best["op"], "blamed": path}
        seen_sigs.append(sig)
        ctx.violation(sig, best["msg"] + f"  [root rendered at {tuple(s)}]", wit)


# ----------------------------------------------------------------------------- directed core: Filler rows (never skipped)
FILLER_VALIGNS = ["top", "middle", "bottom", ["relative", 30], ["relative", 70]]
FILLER_PADS = [(0, 0), (1, 0), (0, 2), (2, 1)]
FILLER_BODIES = [("pack", "flow", {"rows": 2}), (3, "box", {}), (["relative", 50], "box", {}), ("pack", "flow", {"rows": 1, "acc": "checker"})]
FILLER_SIZES = [(7, 9), (4, 12)]


def filler_configs():
    for va in FILLER_VALIGNS:
        for top, bottom in FILLER_PADS:
            for height, mode, kw in FILLER_BODIES:
                for size in FILLER_SIZES:
                    body = _spy(mode, **kw)
                    yield {"k": "Filler", "c": body, "valign": va, "height": height, "top": top, "bottom": bottom}, list(size)


def filler_rows_case(ctx, recipe, size):
    """Filler around one selectable cursor spy: move_cursor_to_coords at EVERY row of the box and several columns, judged against
    the rendered geometry.  Rows on which the spy is drawn: the usual clause 3.  Rows of the top / bottom filler (no child drawn):
    there is no correspondingly translated cell, so the move must be refused, the spy must not be asked at all (in particular never
    for a row outside its own rows) and the reported cursor must not change."""
    size = tuple(size)
    log = []
    with warnings.catch_warnings():
        warnings.simplefilter("ignore")
        root = T.build(recipe, log)
    o = observe(root, size, log, True)
    if not o.ok:
        ctx.count("c5_filler_config_skipped_precondition")
        return
    lf = root.leaves()[0]
    left, top, lcols, lrows = o.rects[lf.sid]
    ctx.count("c5_filler_configs_judged")
    ctx.case(("directed-filler-rows", json.dumps(strip(recipe), sort_keys=True), list(size)))
    maxcol, maxrow = size
    for row in range(maxrow):
        for col in sorted({0, maxcol // 2, maxcol - 1}):
            # every probe on a freshly built tree: the verdict for one cell must not depend on earlier moves
            log = []
            with warnings.catch_warnings():
                warnings.simplefilter("ignore")
                root = T.build(recipe, log)
            o2 = observe(root, size, log, True)
            if not o2.ok or o2.grid != o.grid:
                continue
            lf = root.leaves()[0]
            before = root.w.get_cursor_coords(size)
            del log[:]
            op = {"op": "move", "col": col, "row": row, "directed": "filler"}
            wit = {"directed": "filler", "recipe": strip(recipe), "size": list(size), "op": op}
            try:
                ret = root.w.move_cursor_to_coords(size, col, row)
                after = root.w.get_cursor_coords(size)
            except Exception as e:  # noqa: BLE001
                ctx.violation(f"C09|c5|move_cursor-raise:{exc_kind(e)}|box|Filler", f"Filler.move_cursor_to_coords({size}, {col}, {row}) raised {type(e).__name__}: {e}", wit)
                continue
            asked = [(e[3], e[4]) for e in log if e[0] == "move" and e[1] == lf.sid]
            on_child = top <= row < top + lrows
            if on_child:
                ctx.count("c5_filler_child_row_moves")
                expect = S.accepts(lf.recipe.get("acc", "all"), col - left, row - top, lcols, lrows)
                kind = None
                if asked != [(col - left, row - top)]:
                    kind = "child-row-wrong-cell-to-child"
                elif bool(ret) != expect:
                    kind = "child-row-result-differs-from-child-answer"
                elif ret and (after is None or after[1] != row):
                    kind = "child-row-cursor-not-on-requested-row"
            else:
                ctx.count("c5_filler_filler_row_moves")
                kind = None
                if any(not (0 <= r_ < lrows) for _c, r_ in asked):
                    kind = "filler-row-forwarded-to-child-as-row-outside-it"
                elif asked:
                    kind = "filler-row-forwarded-to-child"
                elif ret:
                    kind = "filler-row-accepted"
                elif after != before:
                    kind = "filler-row-moved-the-cursor"
            if kind:
                where = "top-filler" if row < top else ("child" if on_child else "bottom-filler")
                ctx.violation(
                    f"C09|c5|{kind}|box|Filler",
                    f"Filler(valign={recipe['valign']}, height={recipe['height']}, top={recipe['top']}, bottom={recipe['bottom']}) at {size}: child drawn on rows "
                    f"{top}..{top + lrows - 1}; move_cursor_to_coords({col}, {row}) [{where}] -> {ret}; child asked {asked}; cursor {before} -> {after}",
                    wit,
                )


# ----------------------------------------------------------------------------- run / replay
def do_case(ctx, recipe, size, queue=None, focus=True, hist=None):
    got = []
    c = Case(ctx, recipe, size, got, focus, hist)
    t0 = time.monotonic()
    o = c.run()
    dt = time.monotonic() - t0
    if dt > 3.0:
        ctx.count("slow_cases_over_3s")
        if dt > ctx.extra.get("slowest_case_s", 0):
            ctx.extra["slowest_case_s"] = round(dt, 1)
            ctx.extra["slowest_case"] = {"recipe": strip(recipe), "size": list(size), "focus": focus, "hist": hist}
    ok = o is not None
    ctx.case((json.dumps(strip(recipe), sort_keys=True), list(size), bool(focus), hist), nontrivial=ok and bool(o.cellmap))
    if got:
        report(ctx, recipe, size, got, focus, hist)
    if ok and queue is not None:
        queue.extend(c.subs)
    return ok


def run(ctx):
    old_enc = urwid.util.get_encoding() if hasattr(urwid.util, "get_encoding") else None
    urwid.set_encoding("utf-8")
    reach.watch(
        urwid.Pile.mouse_event,
        urwid.Pile.move_cursor_to_coords,
        urwid.Pile.get_cursor_coords,
        urwid.Columns.mouse_event,
        urwid.Columns.move_cursor_to_coords,
        urwid.Columns.get_cursor_coords,
        urwid.Frame.mouse_event,
        urwid.Frame.get_cursor_coords,
        urwid.Filler.mouse_event,
        urwid.Filler.move_cursor_to_coords,
        urwid.Filler.get_cursor_coords,
        urwid.Padding.mouse_event,
        urwid.Padding.move_cursor_to_coords,
        urwid.Padding.get_cursor_coords,
        urwid.Overlay.mouse_event,
        urwid.Overlay.get_cursor_coords,
        urwid.BoxAdapter.mouse_event,
        urwid.BoxAdapter.move_cursor_to_coords,
        urwid.BoxAdapter.get_cursor_coords,
        urwid.GridFlow.mouse_event,
        urwid.GridFlow.move_cursor_to_coords,
        urwid.GridFlow.get_cursor_coords,
        urwid.ListBox.mouse_event,
        urwid.ListBox.get_cursor_coords,
        urwid.Edit.move_cursor_to_coords,
        urwid.Edit.get_cursor_coords,
        urwid.Scrollable.mouse_event,
        urwid.ScrollBar.mouse_event,
        urwid.CompositeCanvas.translate_coords if hasattr(urwid.CompositeCanvas, "translate_coords") else urwid.Canvas.translate_coords,
    )
    rng = ctx.rng
    depth = ctx.pick(3, 5)
    ncases = 0
    maxcases = ctx.pick(4000, 400000)
    try:
        # a few fixed hand-written shapes first (one per container), so that every mechanism is reached
        # directed core, never skipped: every row of a Filler (top filler / child / bottom filler) x valign x padding x body kind
        for i, (recipe, size) in enumerate(filler_configs()):
            if ctx.mine(i):
                filler_rows_case(ctx, recipe, size)
        for i, (recipe, size) in enumerate(SEEDS):
            if ctx.mine(i):
                do_case(ctx, recipe, size)
                if size:
                    for h in SEED_HISTORIES:
                        do_case(ctx, recipe, size, None, True, h)
                do_case(ctx, recipe, size, None, True, {"cold": True})
                do_case(ctx, recipe, size, None, False, None)
        while ctx.more(1.0) and ncases < maxcases:
            ncases += 1
            mode = rng.choice(["box", "box", "box", "flow", "flow", "fixed"])
            d = rng.randint(1, depth)
            g = T.Gen(rng, d)
            recipe = g.tree(mode)
            if recipe["k"] in T.LEAF_KINDS:
                continue
            ctx.count("trees_generated")
            queue = []
            rfocus = rng.random() < 0.8
            x = rng.random()
            hist = gen_history(rng) if (mode != "fixed" and x < 0.4) else ({"cold": True} if x > 0.72 else None)
            for attempt in range(3):
                size = T.root_size(rng, recipe, mode)
                if do_case(ctx, recipe, size, queue, rfocus, hist):
                    if ncases <= 2:
                        ctx.sample({"recipe": strip(recipe), "size": size})
                    break
                if mode == "fixed":
                    break
            # re-root every container subtree at the size it was observed to be handed
            k = 0
            while queue and k < 12 and ctx.more(1.0):
                k += 1
                r, s = queue.pop(0)
                ctx.count("rerooted_subtrees")
                x = rng.random()
                do_case(ctx, r, s, queue, True, gen_history(rng) if (s and x < 0.4) else ({"cold": True} if x > 0.72 else None))
        if ctx.shard == 0:
            ctx.extra["outside_domain_observations"] = outside_domain_probe()
    finally:
        if old_enc:
            urwid.set_encoding(old_enc)
    reach.flush(ctx)


def outside_domain_probe():
    """informational only (never a verdict): a design candidate that lies outside the statement's domain because a
    scrollbar is only drawn when the content does NOT fit (a child is clipped), and ScrollBar is not in the quantifier"""
    out = {}
    try:
        for side in ("right", "left"):
            log = []
            a = S.SpyFlow(0, "a", log, rows=2)
            b = S.SpyFlow(1, "b", log, rows=4)
            sb = urwid.ScrollBar(urwid.Scrollable(urwid.Pile([a, b])), side=side)
            canv = sb.render((6, 3), True)
            row0 = read_grid(canv)[0]
            x = row0.index("a")
            del log[:]
            sb.mouse_event((6, 3), "mouse press", 2, x, 0, True)
            got = [e[5] for e in log if e[0] == "mouse"]
            out[f"ScrollBar[{side}]+overflow: event on leftmost leaf cell (col {x}) delivered with col"] = got
    except Exception as e:  # noqa: BLE001
        out["error"] = f"{type(e).__name__}: {e}"
    return out


def _spy(mode="flow", **kw):
    r = {"k": "spy", "mode": mode, "cp": True, "sel": True, "acc": "all", "cur": [0, 0], "mret": True, "rows": 2, "cols": 3}
    r.update(kw)
    return r


SEED_HISTORIES = [
    {"touch": [{"op": "key", "key": "down", "dc": 0, "dr": "half"}, {"op": "key", "key": "down", "dc": 0, "dr": "half"}, {"op": "key", "key": "page down", "dc": 0, "dr": "half"}], "rerender": True, "c3_first": False},
    {"touch": [{"op": "press", "at": [1, 3], "dc": 0, "dr": -2}, {"op": "key", "key": "up", "dc": -1, "dr": -2}], "rerender": False, "c3_first": False},
    {"touch": [{"op": "render", "dc": "half", "dr": 0}], "rerender": True, "c3_first": False},
    {"touch": [{"op": "render", "dc": "half", "dr": "half"}, {"op": "rows", "dc": -2, "dr": 0}], "rerender": False, "c3_first": True},
    {"touch": [{"op": "cursor", "dc": "half", "dr": 0}, {"op": "pack", "dc": 4, "dr": 1}], "rerender": False, "c3_first": False},
]

SEEDS = [
    ({"k": "Filler", "c": _spy(), "valign": "top", "height": "pack"}, [5, 10]),
    ({"k": "Filler", "c": _spy("box"), "valign": "bottom", "height": 3, "top": 1}, [10, 6]),
    ({"k": "Filler", "c": _spy(rows=3), "valign": "top", "height": "pack", "bottom": 3}, [2]),
    ({"k": "Filler", "c": {"k": "Edit", "cap": 0, "len": 3, "pos": 0, "wrap": "any"}, "valign": "top", "height": "pack", "bottom": 3}, [2]),
    ({"k": "Filler", "c": {"k": "Edit", "cap": 0, "len": 3, "pos": 0, "wrap": "any"}, "valign": "top", "height": "pack"}, [5, 10]),
    ({"k": "Pile", "items": [[["pack"], _spy()], [["pack"], _spy(acc="checker")], [["given", 2], _spy("box")]]}, [7]),
    ({"k": "Columns", "items": [[["weight", 1], _spy()], [["given", 3], _spy(rows=3)], [["pack"], _spy("fixed")]], "div": 1}, [14]),
    ({"k": "Frame", "body": _spy("box"), "header": _spy(), "footer": _spy(rows=1), "fp": "footer"}, [6, 8]),
    ({"k": "Padding", "c": _spy(), "align": "center", "width": 4, "left": 1}, [9]),
    ({"k": "Overlay", "top": _spy(), "bottom": _spy("box"), "align": "center", "width": 4, "valign": "middle", "height": "pack"}, [10, 6]),
    (
        {
            "k": "Overlay",
            "top": {"k": "Padding", "c": {"k": "GridFlow", "cells": [{"k": "Button", "len": 3}, _spy(rows=1)], "cw": 7, "hs": 2, "vs": 1, "align": "left"}, "width": "pack"},
            "bottom": _spy("box"),
            "align": "left",
            "width": 10,
            "valign": "middle",
            "height": "pack",
        },
        [12, 7],
    ),
    ({"k": "Pile", "items": [[["pack"], _spy(rows=1)], [["pack"], {"k": "Edit", "cap": 9, "capsp": True, "len": 3, "pos": 0, "wrap": "space"}]]}, [10]),
    ({"k": "Filler", "c": {"k": "Edit", "cap": 7, "len": 4, "pos": 1, "wrap": "any"}, "valign": "top", "height": "pack"}, [3, 6]),
    ({"k": "Padding", "c": {"k": "Edit", "cap": 8, "capsp": True, "len": 2, "pos": 0, "wrap": "space"}, "align": "left", "width": 8, "left": 1}, [12]),
    (
        {
            "k": "Pile",
            "items": [
                [["pack"], {"k": "Pile", "items": [[["weight", 0], _spy(rows=2, sel=False)], [["pack"], _spy(rows=1, sel=False)]]}],
                [["pack"], {"k": "Edit", "cap": 0, "len": 5, "pos": 3, "wrap": "any"}],
                [["pack"], _spy(rows=2, cur=[1, 1])],
            ],
            "focus": 1,
        },
        [9],
    ),
    ({"k": "Filler", "c": {"k": "Pile", "items": [[["weight", 0], _spy(rows=2)], [["weight", 2], _spy(rows=1)], [["pack"], _spy(rows=2)]], "focus": 2}, "valign": "middle", "height": "pack"}, [6, 9]),
    (
        {
            "k": "Pile",
            "items": [
                [["pack"], _spy(rows=1)],
                [["pack"], {"k": "Padding", "c": {"k": "Edit", "cap": 0, "len": 12, "pos": 0, "wrap": "any", "mask": True, "txt": "comb"}, "align": "left", "width": ["relative", 100], "left": 1, "right": 1}],
            ],
        },
        [6],
    ),
    ({"k": "Filler", "c": {"k": "Edit", "cap": 2, "len": 9, "pos": 9, "wrap": "any", "mask": True, "txt": "mixed"}, "valign": "top", "height": "pack"}, [4, 6]),
    ({"k": "AttrMap", "c": {"k": "Edit", "cap": 0, "len": 6, "pos": 0, "wrap": "space", "nl": 3}}, [5]),
    ({"k": "Pile", "items": [[["pack"], {"k": "Edit", "cap": 1, "len": 7, "pos": 0, "wrap": "any", "mask": True, "txt": "wide"}], [["pack"], _spy(rows=1)]]}, [4]),
    ({"k": "Pile", "items": [[["pack"], _spy(rows=1, frows=2)], [["pack"], _spy(rows=2)], [["pack"], _spy(rows=1, frows=1)]], "focus": 0}, [6]),
    ({"k": "Pile", "items": [[["pack"], _spy(rows=2)], [["pack"], _spy(rows=1, frows=2)], [["given", 2], _spy("box")]], "focus": 1}, [6, 9]),
    ({"k": "Columns", "items": [[["weight", 1], _spy(rows=1, frows=2)], [["weight", 1], _spy(rows=2)], [["pack"], _spy("fixed", cols=2, fcols=2, frows=1)]], "div": 1, "focus": 2}, [16]),
    ({"k": "Columns", "items": [[["pack"], _spy(rows=2, packw=3, fpackw=2)], [["weight", 1], _spy(rows=1)]], "div": 0, "focus": 0}, [12]),
    ({"k": "GridFlow", "cells": [_spy(rows=1, frows=1), _spy(rows=1), _spy(rows=2, frows=2)], "cw": 4, "hs": 1, "vs": 0, "align": "left", "focus": 2}, [9]),
    ({"k": "ListBox", "items": [_spy(rows=1, frows=2), _spy(rows=2), _spy(rows=1, frows=1)], "focus": 0}, [6, 9]),
    ({"k": "ListBox", "items": [_spy(rows=2), _spy(rows=1, frows=2), _spy(rows=1)], "focus": 1}, [6, 9]),
    ({"k": "Frame", "body": _spy("box"), "header": _spy(rows=1, frows=2), "footer": _spy(rows=1, frows=1), "fp": "header"}, [6, 9]),
    ({"k": "Frame", "body": _spy("box"), "header": _spy(rows=2), "footer": _spy(rows=1, frows=2), "fp": "footer"}, [6, 9]),
    ({"k": "Filler", "c": _spy(rows=2, frows=1), "valign": "bottom", "height": "pack", "bottom": 1}, [5, 8]),
    ({"k": "Overlay", "top": _spy(rows=1, frows=2), "bottom": _spy("box"), "align": "center", "width": 4, "valign": "middle", "height": "pack"}, [10, 8]),
    (
        {
            "k": "Pile",
            "items": [
                [["pack"], {"k": "Pile", "items": [[["pack"], _spy(rows=1, frows=2)], [["pack"], _spy(rows=3)]], "focus": 0}],
                [["pack"], _spy(rows=2)],
            ],
            "focus": 1,
        },
        [6],
    ),
    ({"k": "Pile", "items": [[["pack"], _spy(rows=2)], [["given", 6], {"k": "Filler", "c": _spy(rows=2, frows=1), "valign": "bottom", "height": "pack", "bottom": 1}]], "focus": 0}, [6]),
    ({"k": "Columns", "items": [[["weight", 1], _spy(rows=1)], [["pack"], {"k": "Empty"}], [["weight", 1], {"k": "Edit", "cap": 0, "len": 3, "pos": 1, "wrap": "any"}]], "div": 2, "focus": 2}, [20]),
    ({"k": "Columns", "items": [[["given", 4], _spy(rows=2)], [["given", 0], {"k": "Empty"}], [["given", 5], _spy(rows=1, cur=[2, 0])], [["pack"], {"k": "Empty"}], [["weight", 1], _spy(rows=2, cur=[1, 1])]], "div": 1, "focus": 4}, [22]),
    ({"k": "Columns", "items": [[["pack"], {"k": "Empty"}], [["weight", 1], _spy("box")], [["pack"], {"k": "Empty"}], [["weight", 2], _spy("box", cur=[1, 1])]], "div": 3, "focus": 3}, [16, 3]),
    ({"k": "Pile", "items": [[["pack"], _spy(rows=1)], [["pack"], {"k": "Overlay", "top": _spy(rows=2), "bottom": _spy("box"), "align": "center", "width": 4, "valign": "middle", "height": "pack", "t": 1, "b": 1}]]}, [10]),
    ({"k": "Overlay", "top": {"k": "Edit", "cap": 0, "len": 3, "pos": 1, "wrap": "any"}, "bottom": _spy("box"), "align": "left", "width": ["relative", 60], "valign": "top", "height": "pack", "l": 1, "b": 1}, [10]),
    ({"k": "Overlay", "top": _spy("box"), "bottom": _spy("box"), "align": "right", "width": 3, "valign": "middle", "height": 2, "l": 1, "t": 1}, [9]),
    ({"k": "Overlay", "top": _spy(rows=2), "bottom": _spy("box"), "align": "center", "width": 4, "valign": "middle", "height": "pack", "l": 1, "r": 1, "t": 1}, []),
    ({"k": "Overlay", "top": _spy("fixed", cols=3, rows=2), "bottom": _spy("box"), "align": "center", "width": "pack", "valign": "middle", "height": "pack", "l": 1, "b": 1}, []),
    ({"k": "ListBox", "items": [_spy(rows=1), {"k": "Overlay", "top": _spy(rows=1), "bottom": _spy("box"), "align": "left", "width": 3, "valign": "top", "height": "pack", "r": 2, "b": 1}]}, [8, 6]),
    ({"k": "Padding", "c": {"k": "Edit", "cap": 0, "len": 3, "pos": 1, "wrap": "any"}, "align": "left", "width": 6, "left": 1, "fixedw": True}, []),
    ({"k": "Padding", "c": _spy(rows=2, cur=[1, 1]), "align": "center", "width": 4, "left": 1, "right": 2, "fixedw": True}, []),
    ({"k": "LineBox", "c": {"k": "Edit", "cap": 0, "len": 3, "pos": 1, "wrap": "any"}, "swap": True}, [8]),
    ({"k": "Pile", "items": [[["pack"], _spy(rows=1, sel=False)], [["pack"], {"k": "LineBox", "c": _spy(rows=1, cur=[1, 0]), "sides": "lr", "swap": True}]]}, [8]),
    ({"k": "Columns", "items": [[["given", 5], _spy(rows=1, cur=[3, 0])], [["given", 4], _spy(rows=2)], [["given", 5], {"k": "same", "of": 0}], [["given", 5], {"k": "same", "of": 0}]], "div": 1, "focus": 0}, [24]),
    ({"k": "Columns", "items": [[["weight", 1], {"k": "Edit", "cap": 0, "len": 3, "pos": 3, "wrap": "any"}], [["weight", 1], {"k": "same", "of": 0}]], "div": 0, "focus": 1}, [12]),
    ({"k": "GridFlow", "cells": [{"k": "Button", "len": 2}, {"k": "same", "of": 0}, {"k": "same", "of": 0}], "cw": 6, "hs": 1, "vs": 0, "align": "left", "focus": 0}, [22]),
    ({"k": "GridFlow", "cells": [_spy(rows=1, cur=[1, 0]), _spy(rows=1), {"k": "same", "of": 0}], "cw": 4, "hs": 1, "vs": 1, "align": "left", "focus": 2}, [9]),
    ({"k": "Pile", "items": [[["pack"], {"k": "Edit", "cap": 0, "len": 3, "pos": 3, "wrap": "any"}], [["pack"], _spy(rows=1, sel=False)], [["pack"], {"k": "same", "of": 0}]], "focus": 0}, [6]),
    ({"k": "Pile", "items": [[["pack"], _spy(rows=2, cur=[1, 1])], [["pack"], {"k": "same", "of": 0}], [["pack"], _spy(rows=1)]], "focus": 1}, [6]),
    ({"k": "ListBox", "items": [_spy(rows=1, cur=[2, 0]), _spy(rows=2), {"k": "same", "of": 0}], "focus": 0}, [6, 6]),
    ({"k": "Frame", "body": _spy("box"), "header": _spy(rows=1, cur=[2, 0]), "footer": {"k": "same", "of": "header"}, "fp": "header"}, [6, 6]),
    ({"k": "Frame", "body": _spy("box"), "header": {"k": "Edit", "cap": 0, "len": 3, "pos": 1, "wrap": "any"}, "footer": {"k": "same", "of": "header"}, "fp": "footer"}, [6, 6]),
    ({"k": "Pile", "items": [[["pack"], {"k": "Columns", "items": [[["weight", 1], _spy(rows=1, cur=[1, 0])], [["weight", 1], _spy(rows=1)]], "div": 1}], [["pack"], _spy(rows=1)], [["pack"], {"k": "same", "of": 0}]], "focus": 2}, [9]),
    ({"k": "BoxAdapter", "c": _spy("box"), "h": 3}, [5]),
    ({"k": "LineBox", "c": _spy()}, [6]),
    ({"k": "GridFlow", "cells": [_spy(), _spy(), _spy()], "cw": 3, "hs": 1, "vs": 1, "align": "center"}, [8]),
    ({"k": "GridFlow", "cells": [_spy(rows=1), _spy(rows=1), {"k": "Button", "len": 2}, _spy(rows=1), _spy(rows=1), _spy(rows=1)], "cw": 6, "hs": 1, "vs": 0, "align": "left"}, [41]),
    ({"k": "ListBox", "items": [_spy(rows=2), _spy(rows=3), _spy(rows=2, cur=[1, 1]), _spy(rows=3, cur=[2, 2]), _spy(rows=2)]}, [6, 13]),
    ({"k": "Frame", "body": {"k": "ListBox", "items": [_spy(rows=3), _spy(rows=2), _spy(rows=3, cur=[1, 2]), _spy(rows=2, cur=[0, 1])]}, "header": _spy(rows=1)}, [6, 12]),
    ({"k": "ListBox", "items": [_spy(), _spy(), {"k": "Edit", "cap": 1, "len": 3, "pos": 1, "wrap": "any"}]}, [6, 7]),
    ({"k": "ScrollBar", "c": {"k": "Scrollable", "c": _spy()}, "side": "right"}, [6, 3]),
    ({"k": "AttrMap", "c": {"k": "Pile", "items": [[["pack"], {"k": "Button", "len": 2}], [["pack"], {"k": "CheckBox", "len": 2}]]}}, [8]),
]


def replay(ctx, wit):
    urwid.set_encoding("utf-8")
    if wit.get("directed") == "filler":
        filler_rows_case(ctx, wit["recipe"], wit["size"])
        return
    do_case(ctx, wit["recipe"], wit["size"], None, wit.get("focus", True), wit.get("hist"))
